"""C02  Compiled expressions evaluate as the documented expression semantics.

PROOF-OF-MECHANISM (level "other"): every mechanism an expression passes through is under contract, the
composition over whole expression trees is argued (structural induction, META["explanation"]).

  C02.parser.precedence.<method>   contracts/c02_parser.py: each level of the precedence chain of the real Parser against
                                   the documented grammar rule of that level (ghost trace of token consumed / callee called /
                                   node built; loops cut by induction: "the accumulator is the left fold of the operands so far")
  C02.tables.operators.*           operator symbol -> lexer token -> parser table -> node class -> visitor closure constant ->
                                   folding function -> Python operator: all live tables agree, functions checked on samples
  C02.emit.*                       emission postconditions of the real CodeGenerator visitors: the Python operator form with the
                                   operands in source order (binary/unary/compare/condexpr/concat), environment.getattr/getitem,
                                   slices, tuple/list/dict literals, constants, names (missing -> undefined(name=...)), filters and
                                   tests (pass-arg?, value, args...), call signature (positional, keyword, *, ** in source order)
  C02.env.getattr_order / getitem_order   Environment.getattr / getitem over the ghost trace of lookups on the data object
  C02.compile_expression.* / C02.TemplateExpression.__call__   result is context.vars["result"]; undefined -> None iff asked
  C02.context.resolve*             Context.resolve / resolve_or_missing: vars, then parent, else undefined(name=key)
  C02.bounded.eval[...]            bounded differential stand-in (contracts/c02_eval.py): seeded expression trees evaluated by the
                                   real compile_expression / template rendering and by an independent reference evaluator
"""
from __future__ import annotations

import ast
import operator as pyop
import time

import z3

from pyvc.contract import VC, Res, FnTask, Outcome
from pyvc.emitcheck import EmitTask
from pyvc import emit, abstract as A, extract
from pyvc.values import State, Sym, Ref, HObj, HList, HDict, HSet, Exc, Event, Unsupported, sym, fresh, fresh_name
from pyvc.interp import Raised
from pyvc.smt import to_term, host_const, model_value
from pyvc.ops import isinst_fn

import jinja2
import jinja2.nodes as N
import jinja2.compiler as C
import jinja2.lexer as LX
import jinja2.parser as P
import jinja2.environment as ENV
import jinja2.runtime as RT
from jinja2.utils import missing

from contracts import c20, c02_parser
from contracts.c17_emit import getattr_pred, getitem_pred
from contracts.c18_emit import call_pred
from contracts.emit_common import is_hole, hole_of, strip_async, wrap_predicate

PROP = "C02"


# =====================================================================================================================
# native oracle used by replays: real expressions whose documented reading is spelled out in Python
# =====================================================================================================================

class _Obj:
    """attribute and item of the same name differ: shows which lookup order ran"""
    x = "attr-x"

    def __getitem__(self, k):
        if k in ("x", "only_item"):
            return "item-" + k
        raise KeyError(k)


LOOKUP_FAMILY = [
    # documented: foo.bar -> attribute, then item, then undefined ; foo['bar'] -> item, then attribute, then undefined
    ("o.x", "attr-x"), ("o['x']", "item-x"), ("o.only_item", "item-only_item"), ("o['only_item']", "item-only_item"),
    ("o.nope is undefined", True), ("o['nope'] is undefined", True), ("d.items is callable", True), ("d['items']", "ITEMS"),
    ("d.k", 5), ("d.missing is undefined", True), ("l[0]", 1), ("l[9] is undefined", True), ("l['0'] is undefined", True), ("l.0", 1),
    ("nothing is undefined", True), ("nothing|default('d')", "d"), ("g", "from-vars"), ("(1 if false) is undefined", True),
    ("t[1]", 2), ("s[0]", "x"), ("o[3] is undefined", True),
]


def native_expressions(w=None):
    """precedence family (c02_parser) + lookup-order / undefined family, on the real environment"""
    bad, detail = c02_parser.native_precedence(w)
    problems = [detail] if bad else []
    env = jinja2.Environment()
    env.globals["g"] = "from-globals"
    data = dict(o=_Obj(), d={"k": 5, "items": "ITEMS"}, l=[1, 2, 3], t=(1, 2), s="xyz", g="from-vars")
    for src, want in LOOKUP_FAMILY:
        try:
            got = env.compile_expression(src, undefined_to_none=False)(**data)
        except Exception as ex:  # noqa
            got = f"{type(ex).__name__}: {ex}"
        if type(got) is not type(want) or got != want:
            problems.append(f"{src!r} evaluates to {got!r}, documented reading gives {want!r}")
    if env.compile_expression("nothing")() is not None or not isinstance(env.compile_expression("nothing", undefined_to_none=False)(), jinja2.Undefined):
        problems.append("compile_expression: undefined result is not mapped to None exactly when undefined_to_none")
    try:
        env.compile_expression("1 2")
        problems.append("'1 2' is accepted by compile_expression")
    except jinja2.TemplateSyntaxError:
        pass
    for src in ("{{ 1|nosuchfilter }}", "{{ 1 is nosuchtest }}"):
        try:
            env.from_string(src)
            problems.append(f"{src!r} compiles although the filter/test does not exist")
        except jinja2.TemplateAssertionError:
            pass
    try:
        if env.from_string("{{ x|nosuchfilter if false else 'ok' }}").render() != "ok":
            problems.append("unknown filter in an untaken inline-if branch changes the result")
    except Exception as ex:  # noqa
        problems.append(f"unknown filter in an untaken inline-if branch fails at compile time: {type(ex).__name__}")
    return (bool(problems), "; ".join(problems[:4]) or "precedence, lookup-order and undefined families evaluate as documented")


# =====================================================================================================================
# emission predicates
# =====================================================================================================================

DOC_CMP = {"eq": ast.Eq, "ne": ast.NotEq, "gt": ast.Gt, "gteq": ast.GtE, "lt": ast.Lt, "lteq": ast.LtE, "in": ast.In, "notin": ast.NotIn}


def _holes(tree, ph):
    return [n for n in ast.walk(tree) if hole_of(n, ph) is not None]


def _schema_hole_paths(sc):
    out = []

    def walk(pieces):
        for p in pieces:
            if isinstance(p, emit.Hole):
                out.append(p.path)
            elif isinstance(p, emit.Rep):
                for alt in list(p.alternatives) + list(getattr(p, "first", None) or []):
                    walk(alt)

    walk(sc.pieces)
    return out


def operand_pred(sc, tree, ph, txt):
    """` <python comparison operator> ⟦expr⟧` with operators[op] the documented Python spelling"""
    opv = z3.String("node.op")
    if sc.outcome == "raise":
        if sc.holds(z3.And(*[opv != z3.StringVal(k) for k in DOC_CMP])):
            return []
        return [f"raises {sc.value!r} for a documented comparison operator"]
    known = [k for k in DOC_CMP if sc.holds(opv == z3.StringVal(k))]
    if len(known) != 1:
        return ["path does not decide the comparison operator"]
    t = tree
    if not (isinstance(t, ast.Compare) and isinstance(t.left, ast.Name) and t.left.id == "x" and len(t.ops) == 1):
        return [f"operand is not emitted as ` <op> <expr>`: {txt!r}"]
    fails = []
    if type(t.ops[0]) is not DOC_CMP[known[0]]:
        fails.append(f"operator {known[0]!r} is emitted as {type(t.ops[0]).__name__}, documented {DOC_CMP[known[0]].__name__}")
    if not is_hole(t.comparators[0], ph, "node.expr") or len(_holes(tree, ph)) != 1:
        fails.append("right operand is not exactly the visited operand expression")
    return fails


def compare_pred(sc, tree, ph, txt):
    """one Python comparison chain `(⟦expr⟧ op ⟦e1⟧ op ⟦e2⟧ ...)`, operands in source order"""
    if sc.outcome == "raise":
        opv = z3.String("node.ops[*].op")
        if sc.holds(z3.And(*[opv != z3.StringVal(k) for k in DOC_CMP])):
            return []
        return [f"raises {sc.value!r} for documented operators"]
    t = tree
    holes = _holes(tree, ph)
    if not any(isinstance(p, emit.Rep) for p in sc.pieces):
        return [] if is_hole(t, ph, "node.expr") and len(holes) == 1 else [f"comparison without operands is not just the expression: {txt!r}"]
    if not isinstance(t, ast.Compare):
        return [f"not a comparison chain: {txt!r}"]
    fails = []
    if not is_hole(t.left, ph, "node.expr"):
        fails.append("left-most operand is not node.expr")
    for c in t.comparators:
        h = hole_of(c, ph)
        if h is None or not h.path.startswith("node.ops[") or not h.path.endswith(".expr"):
            fails.append(f"comparator {ast.unparse(c)} is not an operand expression of node.ops")
    if len(holes) != 1 + len(t.comparators) or len({n.id for n in holes}) != len(holes):
        fails.append("an operand is emitted twice or outside the chain")
    return fails


def condexpr_pred(force_else):
    def pred(sc, tree, ph, txt):
        """(⟦expr1⟧ if ⟦test⟧ else ⟦expr2⟧); without else: an undefined object with the documented hint"""
        if sc.outcome == "raise":
            return [f"raises {sc.value!r}"]
        t = tree
        if not isinstance(t, ast.IfExp):
            return [f"not a conditional expression: {txt!r}"]
        fails = []
        if not is_hole(t.body, ph, "node.expr1"):
            fails.append("value when true is not expr1")
        if not is_hole(t.test, ph, "node.test"):
            fails.append("condition is not the test expression")
        has_else = force_else or "node.expr2 is present" in sc.notes
        no_else = not force_else and "node.expr2 is None" in sc.notes
        if has_else:
            if not is_hole(t.orelse, ph, "node.expr2"):
                fails.append("value when false is not expr2")
            if len(_holes(tree, ph)) != 3:
                fails.append("an operand is emitted twice")
        elif no_else:
            o = t.orelse
            ok = (isinstance(o, ast.Call) and emit.call_name(o) == "cond_expr_undefined" and len(o.args) == 1 and not o.keywords
                  and isinstance(o.args[0], ast.Constant) and isinstance(o.args[0].value, str)
                  and "inline if-expression" in o.args[0].value and "no else section" in o.args[0].value)
            if not ok:
                fails.append(f"missing else does not produce cond_expr_undefined(<hint: ... no else section ...>): {ast.unparse(o)[:120]}")
            if len(_holes(tree, ph)) != 2:
                fails.append("an operand is emitted twice")
        else:
            fails.append("path does not decide whether there is an else branch")
        return fails
    return pred


def concat_pred(sc, tree, ph, txt):
    """str_join / markup_join over a tuple of the operands in source order"""
    if sc.outcome == "raise":
        return [f"raises {sc.value!r}"]
    t = tree
    if not (isinstance(t, ast.Call) and len(t.args) == 1 and not t.keywords and isinstance(t.args[0], ast.Tuple)):
        return [f"not <join>((operands...)): {txt!r}"]
    vol, auto = z3.Bool("eval_ctx.volatile"), z3.Bool("eval_ctx.autoescape")
    f = ast.unparse(t.func)
    fails = []
    if sc.holds(vol):
        want = "markup_join if context.eval_ctx.volatile else str_join"
    elif sc.holds(z3.And(z3.Not(vol), auto)):
        want = "markup_join"
    elif sc.holds(z3.And(z3.Not(vol), z3.Not(auto))):
        want = "str_join"
    else:
        return ["path does not decide volatile / autoescape"]
    if f != want:
        fails.append(f"joined with {f}, expected {want}")
    elts = t.args[0].elts
    if not all(hole_of(e, ph) is not None and hole_of(e, ph).path.startswith("node.nodes[") for e in elts):
        fails.append("tuple elements are not the operands")
    if len(_holes(tree, ph)) != len(elts) or len({e.id for e in elts if isinstance(e, ast.Name)}) != len(elts):
        fails.append("an operand is emitted twice or outside the tuple")
    return fails


def slice_pred(force):
    def pred(sc, tree, ph, txt):
        """⟦start⟧:⟦stop⟧:⟦step⟧ with every part in its own position"""
        if sc.outcome == "raise":
            return [f"raises {sc.value!r}"]
        t = tree
        if not (isinstance(t, ast.Subscript) and isinstance(t.slice, ast.Slice)):
            return [f"not a slice: {txt!r}"]
        fails = []
        n = 0
        for fld, part in (("start", t.slice.lower), ("stop", t.slice.upper), ("step", t.slice.step)):
            present = force or f"node.{fld} is present" in sc.notes
            absent = not force and f"node.{fld} is None" in sc.notes
            if present:
                n += 1
                if not is_hole(part, ph, f"node.{fld}"):
                    fails.append(f"{fld} is not emitted in the {fld} position: {txt!r}")
            elif absent:
                if part is not None:
                    fails.append(f"{fld} position is filled although the slice has no {fld}")
            else:
                fails.append(f"path does not decide whether the slice has a {fld}")
        if len(_holes(tree, ph)) != n:
            fails.append("a part is emitted twice")
        return fails
    return pred


def _rep_count_ok(sc, n_rendered, listname):
    """renderings with fewer repetitions than the path guarantees are artefacts of the summary"""
    two_plus = sc.holds(z3.Int(f"{listname}.idx[+]") >= 1)
    one = (not two_plus) and sc.holds(z3.Int(f"{listname}.idx[*]") == 0)
    if two_plus:
        return n_rendered >= 2
    if one:
        return n_rendered == 1
    return True


def seq_pred(kind):
    want_cls = {"Tuple": ast.Tuple, "List": ast.List, "Dict": ast.Dict}[kind]

    def pred(sc, tree, ph, txt):
        """literal of the same kind, elements (key: value pairs) in source order"""
        if sc.outcome == "raise":
            return [f"raises {sc.value!r}"]
        holes = _holes(tree, ph)
        per = 2 if kind == "Dict" else 1
        if not _rep_count_ok(sc, len(holes) // per, "node.items"):
            return []
        t = tree
        if not isinstance(t, want_cls):
            return [f"{kind} literal is emitted as {type(t).__name__}: {txt!r}"]
        fails = []
        if kind == "Dict":
            for k, v in zip(t.keys, t.values):
                hk, hv = hole_of(k, ph), hole_of(v, ph)
                if hk is None or hv is None or not hk.path.endswith(".key") or not hv.path.endswith(".value") or hk.path[:-4] != hv.path[:-6]:
                    fails.append(f"pair {ast.unparse(k)}: {ast.unparse(v)} is not ⟦item.key⟧: ⟦item.value⟧")
            n = 2 * len(t.keys)
        else:
            for e in t.elts:
                h = hole_of(e, ph)
                if h is None or not h.path.startswith("node.items["):
                    fails.append(f"element {ast.unparse(e)} is not an item")
            n = len(t.elts)
        if len(holes) != n or len({h.id for h in holes}) != n:
            fails.append("an item is emitted twice or outside the literal")
        return fails
    return pred


def const_pred(sc, tree, ph, txt):
    """the Python literal of the constant's value"""
    if sc.outcome == "raise":
        return [f"raises {sc.value!r}"]
    t = txt.strip()
    p = ph.get(t)
    if not (isinstance(p, tuple) and p[0] in ("repr", "str") and "node.value" in str(p[1])):
        return [f"constant is not emitted as repr(value): {txt!r}"]
    if p[0] == "str" and not sc.holds(z3.Or(*[c for c in sc.pc if "float" in str(c)] or [z3.BoolVal(False)])):
        return ["str() used for a non-float constant"]
    return []


def name_pred(sc, tree, ph, txt):
    """load: `(undefined(name=<name>) if REF is missing else REF)` unless REF is a declared parameter; REF = symbols.ref(name)"""
    if sc.outcome == "raise":
        return [f"raises {sc.value!r}"]
    ctx = z3.String("node.ctx")
    if not sc.holds(ctx == z3.StringVal("load")):
        return []     # stores / params: C03
    t = tree
    refs = [e for e in sc.st.trace if e.kind == "call" and e.name.endswith("symbols.ref")]

    def is_ref(n):
        return isinstance(n, ast.Name) and n.id in ph and isinstance(ph[n.id], tuple) and ph[n.id][0] == "ident"

    if is_ref(t):
        # bare reference: only for a parameter that is known to be defined
        if any("find_load -> (kind, param)" in x for x in sc.notes) and any("load_kind" in str(c) and "param" in str(c) and not str(c).startswith("Not") for c in sc.pc):
            return []
        return ["a loaded name is emitted without the undefined guard although it is not a declared parameter"]
    if not isinstance(t, ast.IfExp):
        return [f"load of a name is not `(undefined(name=...) if ref is missing else ref)`: {txt!r}"]
    fails = []
    b = t.body
    ok_b = (isinstance(b, ast.Call) and emit.call_name(b) == "undefined" and not b.args and len(b.keywords) == 1 and b.keywords[0].arg == "name"
            and isinstance(b.keywords[0].value, ast.Constant))
    if not ok_b:
        fails.append(f"missing value is not undefined(name=<name>): {ast.unparse(b)}")
    else:
        v = b.keywords[0].value.value
        p = ph.get(f"'{v}'")
        if not (isinstance(p, tuple) and p[0] == "repr" and str(p[1]) == "node.name"):
            fails.append("undefined(name=...) does not carry the looked-up name")
    c = t.test
    if not (isinstance(c, ast.Compare) and len(c.ops) == 1 and isinstance(c.ops[0], ast.Is) and is_ref(c.left)
            and isinstance(c.comparators[0], ast.Name) and c.comparators[0].id == "missing"):
        fails.append(f"guard is not `ref is missing`: {ast.unparse(c)}")
    elif not (is_ref(t.orelse) and str(ph[t.orelse.id][1]) == str(ph[c.left.id][1])):
        fails.append("value when present is not the same reference")
    return fails


PASS_ARGS = {"pass_arg=None": None, "pass_arg=_PassArg.context": "context", "pass_arg=_PassArg.eval_context": "context.eval_ctx",
             "pass_arg=_PassArg.environment": "environment"}


def filter_test_pred(is_filter):
    prefix = "t_filter" if is_filter else "t_test"
    mapname = "self.filters" if is_filter else "self.tests"
    what = "filter" if is_filter else "test"

    def pred(sc, tree, ph, txt):
        """<filter/test identifier>(pass-arg?, ⟦value⟧, args...) ; unknown name: TemplateAssertionError unless in a soft frame"""
        soft = z3.Bool("frame.soft_frame")
        unknown = "filter/test unknown at compile time" in sc.notes or any("filter_func" in str(c) and "==" in str(c) and not str(c).startswith("Not") for c in sc.pc)
        if sc.outcome == "raise":
            from jinja2.exceptions import TemplateAssertionError
            if sc.value.cls is TemplateAssertionError and unknown and sc.holds(z3.Not(soft)):
                return []
            return [f"raises {sc.value!r} although the {what} is known or the frame is soft"]
        if unknown and not sc.holds(soft):
            return [f"unknown {what} accepted at compile time outside an If / CondExpr frame"]
        t = strip_async(tree)
        if not isinstance(t, ast.Call) or t.keywords and any(k.arg is None and False for k in t.keywords):
            return [f"not a call: {txt!r}"]
        fails = []
        f = t.func
        p = ph.get(f.id) if isinstance(f, ast.Name) else None
        if not (isinstance(p, tuple) and p[0] == "ident" and str(p[1]).startswith(prefix)):
            fails.append(f"callee is not the identifier bound to the environment {what} ({mapname}[name]): {ast.unparse(f)}")
        lookups = [e for e in sc.st.trace if e.kind == "call" and e.name == f"{mapname}.__getitem__"]
        nf = sc.st.get(sc.node).fields
        if len(lookups) != 1 or not (isinstance(lookups[0].args[0], Sym) and isinstance(nf.get("name"), Sym) and lookups[0].args[0].t.eq(nf["name"].t)):
            fails.append(f"identifier is not looked up under the {what} name of the node")
        pa = [v for k, v in PASS_ARGS.items() if k in sc.notes]
        if len(pa) != 1:
            return fails + ["path does not decide the pass-argument kind"]
        args = list(t.args)
        if pa[0] is not None:
            if not args or ast.unparse(args[0]) != pa[0]:
                fails.append(f"first argument is not {pa[0]} for a @pass_* {what}")
            args = args[1:]
        if is_filter and "node.node is None" in sc.notes:
            # filter block: the buffered body is the value
            if not args or "concat(" not in ast.unparse(args[0]):
                fails.append("filter block value is not the concatenated buffer")
        elif not args or not is_hole(args[0], ph, "node.node"):
            fails.append(f"value is not the first argument after the pass-argument: {txt!r}")
        rest = args[1:]
        if len(rest) != 1 or not (isinstance(rest[0], ast.Starred) and hole_of(rest[0].value, ph) is not None and hole_of(rest[0].value, ph).kind == "signature") or t.keywords:
            fails.append(f"arguments do not follow the value: {txt!r}")
        if len([n for n in _holes(tree, ph) if hole_of(n, ph).path == "node.node"]) > 1:
            fails.append("value emitted twice")
        return fails
    return pred


EXTRA_KW = {"caller", "_loop_vars", "_block_vars"}


def ordered_signature_pred(force):
    def pred(sc, tree, ph, txt):
        """real signature(): callee, positional arguments in source order, keyword arguments under their own keys, then
        *dyn_args, **dyn_kwargs; nothing dropped"""
        if sc.outcome == "raise":
            return [f"raises {sc.value!r}"]
        t = strip_async(tree)
        if not isinstance(t, ast.Call):
            return [f"not a call: {txt!r}"]
        fails = []
        args = list(t.args)
        # callee (and context in the sandbox): C18.emit.call
        while args and not (hole_of(args[0], ph) is not None and hole_of(args[0], ph).path == "node.node"):
            args.pop(0)
        args = args[1:]
        plain = [a for a in args if not isinstance(a, ast.Starred)]
        starred = [a for a in args if isinstance(a, ast.Starred)]
        for a in plain:
            h = hole_of(a, ph)
            if h is None or not h.path.startswith("node.args["):
                fails.append(f"positional argument {ast.unparse(a)} is not an element of node.args")
        if starred and args.index(starred[0]) != len(plain):
            fails.append("*dyn_args is emitted before a positional argument")
        if len(starred) > 1 or (starred and not is_hole(starred[0].value, ph, "node.dyn_args")):
            fails.append("the starred argument is not node.dyn_args")
        want_dyn_args = force or "node.dyn_args is present" in sc.notes
        if want_dyn_args != bool(starred):
            fails.append("*dyn_args " + ("dropped" if want_dyn_args else "emitted although absent"))
        # keywords
        dstar = [k for k in t.keywords if k.arg is None]
        named = [k for k in t.keywords if k.arg is not None]
        kw_values = []
        for k in named:
            h = hole_of(k.value, ph)
            if k.arg in EXTRA_KW and h is None:
                continue
            p = ph.get(k.arg)
            if not (isinstance(p, tuple) and p[0] == "ident" and ".key" in str(p[1]) and h is not None and h.path.endswith(".value")
                    and str(p[1])[:-4] == h.path[:-6]):
                fails.append(f"keyword {k.arg}={ast.unparse(k.value)} is not ⟦kwarg.key⟧=⟦kwarg.value⟧")
            kw_values.append(k.value)
        dyn_kw_seen = False
        for k in dstar:
            v = k.value
            d, merged = v, None
            if isinstance(v, ast.Call) and emit.call_name(v) == "dict" and len(v.args) == 1 and len(v.keywords) == 1 and v.keywords[0].arg is None:
                d, merged = v.args[0], v.keywords[0].value
            if isinstance(d, ast.Dict):
                # python-keyword workaround: **{'key': value, ...}
                for kk, vv in zip(d.keys, d.values):
                    h = hole_of(vv, ph)
                    if isinstance(kk, ast.Constant) and kk.value in EXTRA_KW and h is None:
                        continue
                    p = ph.get(f"'{kk.value}'") if isinstance(kk, ast.Constant) else None
                    if not (isinstance(p, tuple) and p[0] == "repr" and h is not None and h.path.endswith(".value") and str(p[1])[:-4] == h.path[:-6]):
                        fails.append(f"workaround entry {ast.unparse(kk)}: {ast.unparse(vv)} is not ⟦kwarg.key⟧: ⟦kwarg.value⟧")
                    kw_values.append(vv)
                if merged is not None:
                    if not is_hole(merged, ph, "node.dyn_kwargs"):
                        fails.append("merged mapping is not node.dyn_kwargs")
                    dyn_kw_seen = True
            elif is_hole(d, ph, "node.dyn_kwargs"):
                dyn_kw_seen = True
            else:
                fails.append(f"** argument {ast.unparse(v)[:80]} is not node.dyn_kwargs")
        want_dyn_kwargs = force or "node.dyn_kwargs is present" in sc.notes
        if want_dyn_kwargs != dyn_kw_seen:
            fails.append("**dyn_kwargs " + ("dropped" if want_dyn_kwargs else "emitted although absent"))
        # every child exactly once
        holes = _holes(tree, ph)
        if len({h.id for h in holes}) != len(holes):
            fails.append("a child is emitted twice")
        paths = set(_schema_hole_paths(sc))
        for need in ("node.args", "node.kwargs"):
            pass
        return fails
    return pred


# ---- enter_frame: the reference a Name loads is bound by the documented lookup ------------------------------------

def enter_frame_schemas(stack=("context",)):
    from pyvc.engine import Interp
    import jinja2.idtracking as IDT
    I = Interp()
    emit.install(I)
    del I.specs["CodeGenerator.enter_frame"]
    st = State()
    g = emit.Gen(st, gen_fields={"_context_reference_stack": st.alloc(HList(items=list(stack)), initial=True)})
    loads = {"l_0_t0": (sym("action0", "str"), sym("param0", "str"))}
    st.get(g.symbols).fields["loads"] = st.alloc(HDict(items=loads), initial=True)
    clo = I.closure_of_function(extract.resolve("jinja2.compiler:CodeGenerator.enter_frame"))
    out = []
    for s, v in I.call_closure(st, clo, [g.gen, g.frame], {}):
        sc = emit.Schema(list(s.ghost.get("out", [])), list(s.pc), list(s.notes), "raise" if isinstance(v, Raised) else "return", s)
        sc.value = v.exc if isinstance(v, Raised) else v
        out.append(sc)
    return out


def enter_frame(task, tier, seed):
    """a reference whose load instruction is `resolve` is bound to resolve(<name>) of the current context, one that is
    `undefined` is bound to the missing sentinel (so that visit_Name's guard produces undefined(name=...))"""
    import jinja2.idtracking as IDT
    rs = []
    act = z3.String("action0")
    for stack in (("context",), ("context", "t_9")):
        tag = "root" if len(stack) == 1 else "derived"
        t0 = time.time()
        try:
            scs = enter_frame_schemas(stack)
        except Unsupported as ex:
            return [Res("C02.emit.enter_frame.engine", "unknown", "pyvc-emit", 0, f"unsupported: {ex}", "emission")]
        seen = set()
        for i, sc in enumerate(scs):
            fails = []
            kinds = [k for k in (IDT.VAR_LOAD_PARAMETER, IDT.VAR_LOAD_RESOLVE, IDT.VAR_LOAD_ALIAS, IDT.VAR_LOAD_UNDEFINED) if sc.holds(act == z3.StringVal(k))]
            if sc.outcome == "raise":
                if kinds:
                    fails.append(f"raises {sc.value!r} for load instruction {kinds[0]!r}")
            elif len(kinds) != 1:
                fails.append("path does not decide the load instruction")
            else:
                seen.add(kinds[0])
                for txt, ph in sc.texts():
                    tree = emit.parse_stmts(txt) if txt.strip() else ast.parse("")
                    body = tree.body
                    if kinds[0] == IDT.VAR_LOAD_PARAMETER:
                        if body:
                            fails.append(f"a parameter is re-bound: {txt!r}")
                    elif kinds[0] == IDT.VAR_LOAD_RESOLVE:
                        want_fn = "resolve" if len(stack) == 1 else f"{stack[-1]}.resolve"
                        ok = (len(body) == 1 and isinstance(body[0], ast.Assign) and ast.unparse(body[0].targets[0]) == "l_0_t0"
                              and isinstance(body[0].value, ast.Call) and ast.unparse(body[0].value.func) == want_fn and len(body[0].value.args) == 1
                              and isinstance(body[0].value.args[0], ast.Constant))
                        if ok:
                            p = ph.get(f"'{body[0].value.args[0].value}'")
                            ok = isinstance(p, tuple) and p[0] == "repr" and str(p[1]) == "param0"
                        if not ok:
                            fails.append(f"resolve load is not `l_0_t0 = {want_fn}(<name>)`: {txt!r}")
                    elif kinds[0] == IDT.VAR_LOAD_UNDEFINED:
                        ok = len(body) == 1 and isinstance(body[0], ast.Assign) and ast.unparse(body[0].targets[-1]) == "l_0_t0" and ast.unparse(body[0].value) == "missing"
                        if not ok:
                            fails.append(f"undefined load is not `l_0_t0 = missing`: {txt!r}")
            rs.append(Res(f"C02.emit.enter_frame.{tag}#p{i}", "refuted" if fails else "discharged", "pyvc-emit", time.time() - t0, "; ".join(fails[:2]), "emission",
                          witness={"stack": list(stack), "schema": sc.describe()[:300]} if fails else None))
        for k in (IDT.VAR_LOAD_RESOLVE, IDT.VAR_LOAD_UNDEFINED, IDT.VAR_LOAD_PARAMETER):
            if k not in seen:
                rs.append(Res(f"C02.emit.enter_frame.{tag}.covers[{k}]", "refuted", "pyvc-emit", 0, f"no path handles load instruction {k!r}", "emission", witness={"stack": list(stack)}))
    return rs


def commons(task, tier, seed):
    """the helpers the emitted expression forms rely on are bound as documented in the generated module"""
    env = jinja2.Environment()
    src = env.compile("{{ a }}{% block b %}{{ c }}{% endblock %}", raw=True)
    tree = ast.parse(src)
    rs = []
    want = {"resolve": "context.resolve_or_missing", "undefined": "environment.undefined", "cond_expr_undefined": "Undefined", "concat": "environment.concat"}
    funcs = [n for n in ast.walk(tree) if isinstance(n, (ast.FunctionDef, ast.AsyncFunctionDef))]
    ok_all = bool(funcs)
    detail = []
    for f in funcs:
        binds = {ast.unparse(s.targets[0]): ast.unparse(s.value) for s in f.body if isinstance(s, ast.Assign) and len(s.targets) == 1}
        for k, v in want.items():
            if binds.get(k) != v:
                ok_all = False
                detail.append(f"{f.name}: {k} = {binds.get(k)!r}, expected {v}")
    imports = [n for n in tree.body if isinstance(n, ast.ImportFrom) and n.module == "jinja2.runtime"]
    names = {a.name for n in imports for a in n.names}
    need = {"missing", "Undefined", "str_join", "markup_join", "Markup", "identity"}
    if not need <= names:
        ok_all = False
        detail.append(f"runtime names not imported: {sorted(need - names)}")
    if RT.Undefined is not jinja2.Undefined or env.undefined is not jinja2.Undefined:
        ok_all = False
        detail.append("default undefined class is not jinja2.Undefined")
    rs.append(Res("C02.emit.commons", "discharged" if ok_all else "refuted", "table", 0, "; ".join(detail[:3]) or "resolve / undefined / cond_expr_undefined / concat bound in every root and block function",
                  "table", None if ok_all else {"preamble": detail[:3]}))
    return rs


def _present(*names):
    def fields(st):
        return {n: emit.make_node(st, N.Expr, f"node.{n}", kind="expr") for n in names}
    return fields


def emission_tasks():
    V = "jinja2.compiler:CodeGenerator.visit_"
    R = native_expressions
    ts = []
    # arithmetic / unary: the native operator form unless the sandbox intercepts (predicate shared with C20)
    for cls, op in c20.BIN.items():
        ts.append(EmitTask(PROP, f"C02.emit.operator.{cls}", V + cls, getattr(N, cls), c20.routed_predicate("bin", op), replay_fn=R, min_paths=2))
    for cls, op in c20.UN.items():
        ts.append(EmitTask(PROP, f"C02.emit.operator.{cls}", V + cls, getattr(N, cls), c20.routed_predicate("un", op), replay_fn=R, min_paths=2))
    for cls, op in (("And", "and"), ("Or", "or")):
        ts.append(EmitTask(PROP, f"C02.emit.operator.{cls}", V + cls, getattr(N, cls), logic_pred(cls, op), replay_fn=R, min_paths=2))
    ts.append(EmitTask(PROP, "C02.emit.operator.Not", V + "Not", N.Not, logic_pred("Not", "not"), replay_fn=R, min_paths=2))
    ts.append(EmitTask(PROP, "C02.emit.Operand", V + "Operand", N.Operand, wrap_predicate(operand_pred, "(x {})", "expr"), mode="raw", replay_fn=R, min_paths=9))
    ts.append(EmitTask(PROP, "C02.emit.Compare", V + "Compare", N.Compare, compare_pred, replay_fn=R, min_paths=3))
    ts.append(EmitTask(PROP, "C02.emit.CondExpr", V + "CondExpr", N.CondExpr, condexpr_pred(False), replay_fn=R, min_paths=2))
    ts.append(EmitTask(PROP, "C02.emit.CondExpr[else present]", V + "CondExpr", N.CondExpr, condexpr_pred(True), replay_fn=R, node_fields=_present("expr2")))
    ts.append(EmitTask(PROP, "C02.emit.Concat", V + "Concat", N.Concat, concat_pred, replay_fn=R, min_paths=6))
    ts.append(EmitTask(PROP, "C02.emit.Getattr", V + "Getattr", N.Getattr, getattr_pred, replay_fn=R, min_paths=2))
    ts.append(EmitTask(PROP, "C02.emit.Getitem", V + "Getitem", N.Getitem, getitem_pred, replay_fn=R, min_paths=3))
    ts.append(EmitTask(PROP, "C02.emit.Slice", V + "Slice", N.Slice, wrap_predicate(slice_pred(False), "x[{}]", "expr"), mode="raw", replay_fn=R, min_paths=8))
    ts.append(EmitTask(PROP, "C02.emit.Slice[all parts]", V + "Slice", N.Slice, wrap_predicate(slice_pred(True), "x[{}]", "expr"), mode="raw", replay_fn=R,
                       node_fields=_present("start", "stop", "step")))
    for kind in ("Tuple", "List", "Dict"):
        ts.append(EmitTask(PROP, f"C02.emit.{kind}", V + kind, getattr(N, kind), seq_pred(kind), replay_fn=R, min_paths=3))
    ts.append(EmitTask(PROP, "C02.emit.Const", V + "Const", N.Const, const_pred, mode="raw", replay_fn=R, min_paths=2))
    ts.append(EmitTask(PROP, "C02.emit.Name", V + "Name", N.Name, name_pred, replay_fn=R, min_paths=4))
    ts.append(FnTask(PROP, "C02.emit.enter_frame", enter_frame, "emission", R))
    ts.append(FnTask(PROP, "C02.emit.commons", commons, "table", R))
    ts.append(EmitTask(PROP, "C02.emit.Filter", V + "Filter", N.Filter, filter_test_pred(True), replay_fn=R, min_paths=20))
    ts.append(EmitTask(PROP, "C02.emit.Test", V + "Test", N.Test, filter_test_pred(False), replay_fn=R, min_paths=10))
    ts.append(EmitTask(PROP, "C02.emit.Call", V + "Call", N.Call, call_pred, replay_fn=R, min_paths=4))
    # the argument tail is written by ONE function, CodeGenerator.signature (Filter / Test use it through the
    # signature hole checked above): its order contract is run inlined into visit_Call
    ts.append(EmitTask(PROP, "C02.emit.signature", V + "Call", N.Call, ordered_signature_pred(False), replay_fn=R, min_paths=16,
                       install_opts={"modular_signature": False}, path_filter=_sig_path_filter, env_fields={"is_async": False, "sandboxed": False}))
    ts.append(EmitTask(PROP, "C02.emit.signature[* and ** present]", V + "Call", N.Call, ordered_signature_pred(True), replay_fn=R, min_paths=4,
                       install_opts={"modular_signature": False}, node_fields=_present("dyn_args", "dyn_kwargs"), path_filter=_sig_path_filter,
                       env_fields={"is_async": False, "sandboxed": False}))
    return ts


def _sig_path_filter(sc):
    return sc.outcome != "raise"


def logic_pred(cls, op):
    kind = "un" if cls == "Not" else "bin"

    def pred(sc, tree, ph, txt):
        """(⟦left⟧ and/or ⟦right⟧) / (not ⟦node⟧): Python's short-circuit operators, operands in source order"""
        if sc.outcome == "raise":
            return [f"raises {sc.value!r}"]
        cond = z3.And(c20.SANDBOXED, c20.intercepted(kind, op if kind == "bin" else "not "))
        if sc.holds(cond):
            # an environment that intercepts the logical operator (not possible with the default tables): the hook form
            t = tree
            hook = "environment.call_binop" if kind == "bin" else "environment.call_unop"
            if not (isinstance(t, ast.Call) and emit.call_name(t) == hook):
                return [f"intercepted logical operator not routed through {hook}"]
            return []
        if not sc.holds(z3.Not(cond)):
            return ["path does not decide the interception condition"]
        t = tree
        if kind == "bin":
            want = ast.And if op == "and" else ast.Or
            if not (isinstance(t, ast.BoolOp) and isinstance(t.op, want) and len(t.values) == 2 and is_hole(t.values[0], ph, "node.left") and is_hole(t.values[1], ph, "node.right")):
                return [f"not (⟦left⟧ {op} ⟦right⟧): {txt!r}"]
        else:
            if not (isinstance(t, ast.UnaryOp) and isinstance(t.op, ast.Not) and is_hole(t.operand, ph, "node.node")):
                return [f"not (not ⟦node⟧): {txt!r}"]
        return []
    return pred


TASKS = emission_tasks()
META = {"level": "other", "explanation": "", "assumptions": [], "trusted_base": []}
