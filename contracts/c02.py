"""C02  Compiled expressions evaluate as the documented expression semantics.

PROOF-OF-MECHANISM (level "other"): every mechanism an expression passes through is under contract, the
composition over whole expression trees is argued (structural induction, META["explanation"]).

  C02.parser.precedence.<method>   contracts/c02_parser.py: each level of the precedence chain of the real Parser against
                                   the documented grammar rule of that level (ghost trace of token consumed / callee called /
                                   node built; loops cut by induction: "the accumulator is the left fold of the operands so far")
  C02.tables.operators.*           operator symbol -> lexer token -> parser table -> node class -> visitor closure constant ->
                                   folding function -> Python operator: all live tables agree, functions checked on samples
  C02.emit.*                       emission postconditions of the real CodeGenerator visitors: the Python operator form with the
                                   operands in source order (binary/unary/compare/condexpr/concat), environment.getattr/getitem,
                                   slices, tuple/list/dict literals, constants, names (missing -> undefined(name=...)), filters and
                                   tests (pass-arg?, value, args...), call signature (positional, keyword, *, ** in source order)
  C02.env.getattr_order / getitem_order   Environment.getattr / getitem over the ghost trace of lookups on the data object
  C02.compile_expression.* / C02.TemplateExpression.__call__   result is context.vars["result"]; undefined -> None iff asked
  C02.context.resolve*             Context.resolve / resolve_or_missing: vars, then parent, else undefined(name=key)
  C02.bounded.eval[...]            bounded differential stand-in (contracts/c02_eval.py): seeded expression trees evaluated by the
                                   real compile_expression / template rendering and by an independent reference evaluator
"""
from __future__ import annotations

import ast
import operator as pyop
import time

import z3

from pyvc.contract import VC, Res, FnTask, Outcome
from pyvc.emitcheck import EmitTask
from pyvc import emit, abstract as A, extract
from pyvc.values import State, Sym, Ref, HObj, HList, HDict, HSet, Exc, Event, Unsupported, sym, fresh, fresh_name
from pyvc.interp import Raised
from pyvc.smt import to_term, host_const, model_value
from pyvc.ops import isinst_fn

import jinja2
import jinja2.nodes as N
import jinja2.compiler as C
import jinja2.lexer as LX
import jinja2.parser as P
import jinja2.environment as ENV
import jinja2.runtime as RT
from jinja2.utils import missing

from contracts import c20, c02_parser, c02_eval
from contracts.c17_emit import getattr_pred, getitem_pred
from contracts.c18_emit import call_pred
from contracts.emit_common import is_hole, hole_of, strip_async, wrap_predicate

PROP = "C02"


# =====================================================================================================================
# native oracle used by replays: real expressions whose documented reading is spelled out in Python
# =====================================================================================================================

class _Obj:
    """attribute and item of the same name differ: shows which lookup order ran"""
    x = "attr-x"

    def __getitem__(self, k):
        if k in ("x", "only_item"):
            return "item-" + k
        raise KeyError(k)


LOOKUP_FAMILY = [
    # documented: foo.bar -> attribute, then item, then undefined ; foo['bar'] -> item, then attribute, then undefined
    ("o.x", "attr-x"), ("o['x']", "item-x"), ("o.only_item", "item-only_item"), ("o['only_item']", "item-only_item"),
    ("o.nope is undefined", True), ("o['nope'] is undefined", True), ("d.items is callable", True), ("d['items']", "ITEMS"),
    ("d.k", 5), ("d.missing is undefined", True), ("l[0]", 1), ("l[9] is undefined", True), ("l['0'] is undefined", True), ("l.0", 1),
    ("nothing is undefined", True), ("nothing|default('d')", "d"), ("g", "from-vars"), ("(1 if false) is undefined", True),
    ("t[1]", 2), ("s[0]", "x"), ("o[3] is undefined", True),
]


def native_expressions(w=None):
    """precedence family (c02_parser) + lookup-order / undefined family, on the real environment"""
    bad, detail = c02_parser.native_precedence(w)
    problems = [detail] if bad else []

    def attempt(what, fn):
        try:
            r = fn()
            if r:
                problems.append(r if isinstance(r, str) else what)
        except Exception as ex:  # noqa
            problems.append(f"{what}: {type(ex).__name__}: {str(ex)[:100]}")

    env = jinja2.Environment()
    env.globals["g"] = "from-globals"
    data = dict(o=_Obj(), d={"k": 5, "items": "ITEMS"}, l=[1, 2, 3], t=(1, 2), s="xyz", g="from-vars")
    for src, want in LOOKUP_FAMILY:
        try:
            got = env.compile_expression(src, undefined_to_none=False)(**data)
        except Exception as ex:  # noqa
            got = f"{type(ex).__name__}: {ex}"
        if type(got) is not type(want) or got != want:
            problems.append(f"{src!r} evaluates to {got!r}, documented reading gives {want!r}")

    def undefined_mapping():
        a, b = env.compile_expression("nothing")(), env.compile_expression("nothing", undefined_to_none=False)()
        if a is not None or not isinstance(b, jinja2.Undefined):
            return "compile_expression: undefined result is not mapped to None exactly when undefined_to_none"
        if b._undefined_name != "nothing":
            return f"undefined name carries {b._undefined_name!r} instead of the looked-up name"
        if env.compile_expression("1")() != 1 or env.compile_expression("none", undefined_to_none=False)() is not None:
            return "compile_expression does not return the value of the expression"

    attempt("undefined mapping", undefined_mapping)

    def leftover():
        try:
            env.compile_expression("1 2")
            return "'1 2' is accepted by compile_expression"
        except jinja2.TemplateSyntaxError:
            return None

    attempt("chunk after expression", leftover)

    def unknown_filter():
        for src in ("{{ 1|nosuchfilter }}", "{{ 1 is nosuchtest }}"):
            try:
                env.from_string(src)
                return f"{src!r} compiles although the filter/test does not exist"
            except jinja2.TemplateAssertionError:
                pass
        if env.from_string("{{ x|nosuchfilter if false else 'ok' }}").render() != "ok":
            return "unknown filter in an untaken inline-if branch changes the result"

    attempt("unknown filter / test", unknown_filter)

    def implicit_else():
        strict = jinja2.Environment(undefined=jinja2.StrictUndefined)
        v = strict.compile_expression("1 if false", undefined_to_none=False)()
        if type(v) is not jinja2.Undefined:
            return f"missing else evaluates to {type(v).__name__}, documented: an Undefined regardless of the environment's undefined"
        if strict.from_string("[{{ 1 if false }}]").render() != "[]":
            return "missing else does not print as empty"

    attempt("inline if without else", implicit_else)

    def autoescape_concat():
        from markupsafe import Markup
        ae = jinja2.Environment(autoescape=True)
        got = ae.from_string("{{ '<' ~ m }}|{{ a ~ '<' }}").render(m=Markup("<b>"), a="&")
        if got != "&lt;<b>|&amp;&lt;":
            return f"`~` under autoescape renders {got!r}"
        if jinja2.Environment().from_string("{{ '<' ~ m }}").render(m="<b>") != "<<b>":
            return "`~` without autoescape escapes"

    attempt("concat under autoescape", autoescape_concat)

    def pass_arg_filters():
        e2 = jinja2.Environment()
        e2.filters["pc"] = jinja2.pass_context(lambda ctx, v, x=0: (type(ctx).__name__, v, x))
        e2.filters["pe"] = jinja2.pass_eval_context(lambda ec, v, x=0: (type(ec).__name__, v, x))
        e2.filters["pv"] = jinja2.pass_environment(lambda en, v, x=0: (type(en).__name__, v, x))
        e2.tests["pt"] = jinja2.pass_environment(lambda en, v, x=0: (type(en).__name__, v, x) == ("Environment", 1, 2))
        want = [("Context", 1, 2), ("EvalContext", 1, 2), ("Environment", 1, 2), True]
        got = [e2.compile_expression(s_)() for s_ in ("1|pc(2)", "1|pe(2)", "1|pv(x=2)", "1 is pt(2)")]
        if got != want:
            return f"@pass_* filters/tests receive {got!r}"

    attempt("pass-argument filters", pass_arg_filters)
    return (bool(problems), "; ".join(problems[:4]) or "precedence, lookup-order and undefined families evaluate as documented")


# =====================================================================================================================
# emission predicates
# =====================================================================================================================

DOC_CMP = {"eq": ast.Eq, "ne": ast.NotEq, "gt": ast.Gt, "gteq": ast.GtE, "lt": ast.Lt, "lteq": ast.LtE, "in": ast.In, "notin": ast.NotIn}


def _holes(tree, ph):
    return [n for n in ast.walk(tree) if hole_of(n, ph) is not None]


def _schema_hole_paths(sc):
    out = []

    def walk(pieces):
        for p in pieces:
            if isinstance(p, emit.Hole):
                out.append(p.path)
            elif isinstance(p, emit.Rep):
                for alt in list(p.alternatives) + list(getattr(p, "first", None) or []):
                    walk(alt)

    walk(sc.pieces)
    return out


def operand_pred(sc, tree, ph, txt):
    """` <python comparison operator> ⟦expr⟧` with operators[op] the documented Python spelling"""
    opv = z3.String("node.op")
    if sc.outcome == "raise":
        if sc.holds(z3.And(*[opv != z3.StringVal(k) for k in DOC_CMP])):
            return []
        return [f"raises {sc.value!r} for a documented comparison operator"]
    known = [k for k in DOC_CMP if sc.holds(opv == z3.StringVal(k))]
    if len(known) != 1:
        return ["path does not decide the comparison operator"]
    t = tree
    if not (isinstance(t, ast.Compare) and isinstance(t.left, ast.Name) and t.left.id == "x" and len(t.ops) == 1):
        return [f"operand is not emitted as ` <op> <expr>`: {txt!r}"]
    fails = []
    if type(t.ops[0]) is not DOC_CMP[known[0]]:
        fails.append(f"operator {known[0]!r} is emitted as {type(t.ops[0]).__name__}, documented {DOC_CMP[known[0]].__name__}")
    if not is_hole(t.comparators[0], ph, "node.expr") or len(_holes(tree, ph)) != 1:
        fails.append("right operand is not exactly the visited operand expression")
    return fails


def compare_pred(sc, tree, ph, txt):
    """one Python comparison chain `(⟦expr⟧ op ⟦e1⟧ op ⟦e2⟧ ...)`, operands in source order"""
    if sc.outcome == "raise":
        opv = z3.String("node.ops[*].op")
        if sc.holds(z3.And(*[opv != z3.StringVal(k) for k in DOC_CMP])):
            return []
        return [f"raises {sc.value!r} for documented operators"]
    t = tree
    holes = _holes(tree, ph)
    if not any(isinstance(p, emit.Rep) for p in sc.pieces):
        return [] if is_hole(t, ph, "node.expr") and len(holes) == 1 else [f"comparison without operands is not just the expression: {txt!r}"]
    if not isinstance(t, ast.Compare):
        return [f"not a comparison chain: {txt!r}"]
    fails = []
    if not is_hole(t.left, ph, "node.expr"):
        fails.append("left-most operand is not node.expr")
    for c in t.comparators:
        h = hole_of(c, ph)
        if h is None or not h.path.startswith("node.ops[") or not h.path.endswith(".expr"):
            fails.append(f"comparator {ast.unparse(c)} is not an operand expression of node.ops")
    if len(holes) != 1 + len(t.comparators) or len({n.id for n in holes}) != len(holes):
        fails.append("an operand is emitted twice or outside the chain")
    return fails


def condexpr_pred(force_else):
    def pred(sc, tree, ph, txt):
        """(⟦expr1⟧ if ⟦test⟧ else ⟦expr2⟧); without else: an undefined object with the documented hint"""
        if sc.outcome == "raise":
            return [f"raises {sc.value!r}"]
        t = tree
        if not isinstance(t, ast.IfExp):
            return [f"not a conditional expression: {txt!r}"]
        fails = []
        if not is_hole(t.body, ph, "node.expr1"):
            fails.append("value when true is not expr1")
        if not is_hole(t.test, ph, "node.test"):
            fails.append("condition is not the test expression")
        has_else = force_else or "node.expr2 is present" in sc.notes
        no_else = not force_else and "node.expr2 is None" in sc.notes
        if has_else:
            if not is_hole(t.orelse, ph, "node.expr2"):
                fails.append("value when false is not expr2")
            if len(_holes(tree, ph)) != 3:
                fails.append("an operand is emitted twice")
        elif no_else:
            o = t.orelse
            ok = (isinstance(o, ast.Call) and emit.call_name(o) == "cond_expr_undefined" and len(o.args) == 1 and not o.keywords
                  and isinstance(o.args[0], ast.Constant) and isinstance(o.args[0].value, str))
            if ok:
                # the hint: written out, or the repr() of the message (then the placeholder's term spells it)
                hint = o.args[0].value
                q = ph.get(f"'{hint}'")
                if isinstance(q, tuple) and q[0] == "repr":
                    hint = str(q[1])
                ok = "inline if-expression" in hint and "no else section" in hint
            if not ok:
                fails.append(f"missing else does not produce cond_expr_undefined(<hint: ... no else section ...>): {ast.unparse(o)[:120]}")
            if len(_holes(tree, ph)) != 2:
                fails.append("an operand is emitted twice")
        else:
            fails.append("path does not decide whether there is an else branch")
        return fails
    return pred


def concat_pred(sc, tree, ph, txt):
    """str_join / markup_join over a tuple of the operands in source order"""
    if sc.outcome == "raise":
        return [f"raises {sc.value!r}"]
    t = tree
    if not (isinstance(t, ast.Call) and len(t.args) == 1 and not t.keywords and isinstance(t.args[0], ast.Tuple)):
        return [f"not <join>((operands...)): {txt!r}"]
    vol, auto = z3.Bool("eval_ctx.volatile"), z3.Bool("eval_ctx.autoescape")
    f = ast.unparse(t.func)
    fails = []
    if sc.holds(vol):
        # the escaping mode is only known at run time: the join must be chosen by the run-time autoescape flag
        # (contract correction: the first version copied the code's `context.eval_ctx.volatile` test; fixed in /repo c4cf9a7)
        want = "markup_join if context.eval_ctx.autoescape else str_join"
    elif sc.holds(z3.And(z3.Not(vol), auto)):
        want = "markup_join"
    elif sc.holds(z3.And(z3.Not(vol), z3.Not(auto))):
        want = "str_join"
    else:
        return ["path does not decide volatile / autoescape"]
    if f != want:
        fails.append(f"joined with {f}, expected {want}")
    elts = t.args[0].elts
    if not all(hole_of(e, ph) is not None and hole_of(e, ph).path.startswith("node.nodes[") for e in elts):
        fails.append("tuple elements are not the operands")
    if len(_holes(tree, ph)) != len(elts) or len({e.id for e in elts if isinstance(e, ast.Name)}) != len(elts):
        fails.append("an operand is emitted twice or outside the tuple")
    return fails


def slice_pred(force):
    def pred(sc, tree, ph, txt):
        """⟦start⟧:⟦stop⟧:⟦step⟧ with every part in its own position"""
        if sc.outcome == "raise":
            return [f"raises {sc.value!r}"]
        t = tree
        if not (isinstance(t, ast.Subscript) and isinstance(t.slice, ast.Slice)):
            return [f"not a slice: {txt!r}"]
        fails = []
        n = 0
        for fld, part in (("start", t.slice.lower), ("stop", t.slice.upper), ("step", t.slice.step)):
            present = force or f"node.{fld} is present" in sc.notes
            absent = not force and f"node.{fld} is None" in sc.notes
            if present:
                n += 1
                if not is_hole(part, ph, f"node.{fld}"):
                    fails.append(f"{fld} is not emitted in the {fld} position: {txt!r}")
            elif absent:
                if part is not None:
                    fails.append(f"{fld} position is filled although the slice has no {fld}")
            else:
                fails.append(f"path does not decide whether the slice has a {fld}")
        if len(_holes(tree, ph)) != n:
            fails.append("a part is emitted twice")
        return fails
    return pred


def _rep_count_ok(sc, n_rendered, listname):
    """renderings with fewer repetitions than the path guarantees are artefacts of the summary"""
    two_plus = sc.holds(z3.Int(f"{listname}.idx[+]") >= 1)
    one = (not two_plus) and sc.holds(z3.Int(f"{listname}.idx[*]") == 0)
    if two_plus:
        return n_rendered >= 2
    if one:
        return n_rendered == 1
    return True


def seq_pred(kind):
    want_cls = {"Tuple": ast.Tuple, "List": ast.List, "Dict": ast.Dict}[kind]

    def pred(sc, tree, ph, txt):
        """literal of the same kind, elements (key: value pairs) in source order"""
        if sc.outcome == "raise":
            return [f"raises {sc.value!r}"]
        holes = _holes(tree, ph)
        per = 2 if kind == "Dict" else 1
        if not _rep_count_ok(sc, len(holes) // per, "node.items"):
            return []
        t = tree
        if not isinstance(t, want_cls):
            return [f"{kind} literal is emitted as {type(t).__name__}: {txt!r}"]
        fails = []
        if kind == "Dict":
            for k, v in zip(t.keys, t.values):
                hk, hv = hole_of(k, ph), hole_of(v, ph)
                if hk is None or hv is None or not hk.path.endswith(".key") or not hv.path.endswith(".value") or hk.path[:-4] != hv.path[:-6]:
                    fails.append(f"pair {ast.unparse(k)}: {ast.unparse(v)} is not ⟦item.key⟧: ⟦item.value⟧")
            n = 2 * len(t.keys)
        else:
            for e in t.elts:
                h = hole_of(e, ph)
                if h is None or not h.path.startswith("node.items["):
                    fails.append(f"element {ast.unparse(e)} is not an item")
            n = len(t.elts)
        if len(holes) != n or len({h.id for h in holes}) != n:
            fails.append("an item is emitted twice or outside the literal")
        return fails
    return pred


def _find_app(pc, name):
    """the application of the uninterpreted predicate `name` that occurs in the path condition"""
    found = []

    def walk(t):
        if z3.is_app(t):
            if t.decl().name() == name:
                found.append(t)
            for c in t.children():
                walk(c)

    for c in pc:
        walk(c)
    return found[0] if found else None


def const_pred(sc, tree, ph, txt):
    """the emitted text is ONE Python operand that evaluates to the constant:
         repr(value)                       any value (Python: eval(repr(v)) == v for the literal types has_safe_repr admits)
         str(value)                        float values only (repr and str of a float agree), and only finite ones
         float(<repr of str(value)>)       float values (float(str(v)) is v, also for inf / -inf / nan, which have no literal)
       and a text that starts with `-` is parenthesised (a negative literal is a unary expression)"""
    if sc.outcome == "raise":
        return [f"raises {sc.value!r}"]
    isf = _find_app(sc.pc, "isinstance:builtins.float")
    fin = _find_app(sc.pc, "math.isfinite")
    is_float = isf is not None and sc.holds(isf)
    finite = fin is not None and sc.holds(fin)
    t = txt.strip()
    try:
        e = ast.parse(t, mode="eval").body
    except SyntaxError:
        return [f"constant text is not an expression: {txt!r}"]
    if isinstance(e, ast.Call):
        # float('<str(value)>')
        ok = (emit.call_name(e) == "float" and len(e.args) == 1 and not e.keywords and isinstance(e.args[0], ast.Constant) and isinstance(e.args[0].value, str))
        p = ph.get(f"'{e.args[0].value}'") if ok else None
        if not (isinstance(p, tuple) and p[0] == "repr" and str(p[1]) == "py_str_obj(node.value)"):
            return [f"constant text {txt!r} is not float(<str(value)>)"]
        if not is_float:
            return ["float(str(value)) written for a value that is not known to be a float"]
        return []
    parenthesised = t.startswith("(") and t.endswith(")")
    inner = t[1:-1].strip() if parenthesised else t
    p = ph.get(inner)
    if not (isinstance(p, tuple) and p[0] in ("repr", "str") and str(p[1]) == "node.value"):
        return [f"constant text {txt!r} does not evaluate to the constant (expected repr(value), str(value) of a float, or float(str(value)))"]
    fails = []
    if p[0] == "str" and not is_float:
        fails.append("str() used for a non-float constant")
    if is_float and not finite:
        fails.append("a float that may be inf / nan is written as its bare repr (a name, not a literal)")
    if not parenthesised:
        lit = [c for c in sc.pc if "PrefixOf" in str(c)]
        neg_excluded = any(str(c).replace("\n", " ").startswith("Not(PrefixOf(\"-\"") for c in lit)
        if not neg_excluded:
            fails.append("the text may start with `-` and is not parenthesised: a negative literal is not one operand")
    return fails


def name_pred(sc, tree, ph, txt):
    """load: `(undefined(name=<name>) if REF is missing else REF)` unless REF is a declared parameter; REF = symbols.ref(name)"""
    if sc.outcome == "raise":
        return [f"raises {sc.value!r}"]
    ctx = z3.String("node.ctx")
    if not sc.holds(ctx == z3.StringVal("load")):
        return []     # stores / params: C03
    t = tree
    refs = [e for e in sc.st.trace if e.kind == "call" and e.name.endswith("symbols.ref")]

    def is_ref(n):
        return isinstance(n, ast.Name) and n.id in ph and isinstance(ph[n.id], tuple) and ph[n.id][0] == "ident"

    if is_ref(t):
        # bare reference: only for a parameter that is known to be defined
        if any("find_load -> (kind, param)" in x for x in sc.notes) and any("load_kind" in str(c) and "param" in str(c) and not str(c).startswith("Not") for c in sc.pc):
            return []
        return ["a loaded name is emitted without the undefined guard although it is not a declared parameter"]
    if not isinstance(t, ast.IfExp):
        return [f"load of a name is not `(undefined(name=...) if ref is missing else ref)`: {txt!r}"]
    fails = []
    b = t.body
    ok_b = (isinstance(b, ast.Call) and emit.call_name(b) == "undefined" and not b.args and len(b.keywords) == 1 and b.keywords[0].arg == "name"
            and isinstance(b.keywords[0].value, ast.Constant))
    if not ok_b:
        fails.append(f"missing value is not undefined(name=<name>): {ast.unparse(b)}")
    else:
        v = b.keywords[0].value.value
        p = ph.get(f"'{v}'")
        if not (isinstance(p, tuple) and p[0] == "repr" and str(p[1]) == "node.name"):
            fails.append("undefined(name=...) does not carry the looked-up name")
    c = t.test
    if not (isinstance(c, ast.Compare) and len(c.ops) == 1 and isinstance(c.ops[0], ast.Is) and is_ref(c.left)
            and isinstance(c.comparators[0], ast.Name) and c.comparators[0].id == "missing"):
        fails.append(f"guard is not `ref is missing`: {ast.unparse(c)}")
    elif not (is_ref(t.orelse) and str(ph[t.orelse.id][1]) == str(ph[c.left.id][1])):
        fails.append("value when present is not the same reference")
    return fails


PASS_ARGS = {"pass_arg=None": None, "pass_arg=_PassArg.context": "context", "pass_arg=_PassArg.eval_context": "context.eval_ctx",
             "pass_arg=_PassArg.environment": "environment"}


def filter_test_pred(is_filter):
    prefix = "t_filter" if is_filter else "t_test"
    mapname = "self.filters" if is_filter else "self.tests"
    what = "filter" if is_filter else "test"

    def pred(sc, tree, ph, txt):
        """<filter/test identifier>(pass-arg?, ⟦value⟧, args...) ; unknown name: TemplateAssertionError unless in a soft frame"""
        soft = z3.Bool("frame.soft_frame")
        unknown = "filter/test unknown at compile time" in sc.notes or any("filter_func" in str(c) and "==" in str(c) and not str(c).startswith("Not") for c in sc.pc)
        if sc.outcome == "raise":
            from jinja2.exceptions import TemplateAssertionError
            if sc.value.cls is TemplateAssertionError and unknown and sc.holds(z3.Not(soft)):
                return []
            return [f"raises {sc.value!r} although the {what} is known or the frame is soft"]
        if unknown and not sc.holds(soft):
            return [f"unknown {what} accepted at compile time outside an If / CondExpr frame"]
        t = strip_async(tree)
        if not isinstance(t, ast.Call) or t.keywords and any(k.arg is None and False for k in t.keywords):
            return [f"not a call: {txt!r}"]
        fails = []
        f = t.func
        p = ph.get(f.id) if isinstance(f, ast.Name) else None
        if not (isinstance(p, tuple) and p[0] == "ident" and str(p[1]).startswith(prefix)):
            fails.append(f"callee is not the identifier bound to the environment {what} ({mapname}[name]): {ast.unparse(f)}")
        lookups = [e for e in sc.st.trace if e.kind == "call" and e.name == f"{mapname}.__getitem__"]
        nf = sc.st.get(sc.node).fields
        if len(lookups) != 1 or not (isinstance(lookups[0].args[0], Sym) and isinstance(nf.get("name"), Sym) and lookups[0].args[0].t.eq(nf["name"].t)):
            fails.append(f"identifier is not looked up under the {what} name of the node")
        pa = [v for k, v in PASS_ARGS.items() if k in sc.notes]
        if len(pa) != 1:
            return fails + ["path does not decide the pass-argument kind"]
        args = list(t.args)
        if pa[0] is not None:
            if not args or ast.unparse(args[0]) != pa[0]:
                fails.append(f"first argument is not {pa[0]} for a @pass_* {what}")
            args = args[1:]
        if is_filter and "node.node is None" in sc.notes:
            # filter block: the buffered body is the value
            if not args or "concat(" not in ast.unparse(args[0]):
                fails.append("filter block value is not the concatenated buffer")
        elif not args or not is_hole(args[0], ph, "node.node"):
            fails.append(f"value is not the first argument after the pass-argument: {txt!r}")
        rest = args[1:]
        if len(rest) != 1 or not (isinstance(rest[0], ast.Starred) and hole_of(rest[0].value, ph) is not None and hole_of(rest[0].value, ph).kind == "signature") or t.keywords:
            fails.append(f"arguments do not follow the value: {txt!r}")
        if len([n for n in _holes(tree, ph) if hole_of(n, ph).path == "node.node"]) > 1:
            fails.append("value emitted twice")
        return fails
    return pred


EXTRA_KW = {"caller", "_loop_vars", "_block_vars"}


def ordered_signature_pred(force):
    def pred(sc, tree, ph, txt):
        """real signature(): callee, positional arguments in source order, keyword arguments under their own keys, then
        *dyn_args, **dyn_kwargs; nothing dropped"""
        if sc.outcome == "raise":
            return [f"raises {sc.value!r}"]
        t = strip_async(tree)
        if not isinstance(t, ast.Call):
            return [f"not a call: {txt!r}"]
        fails = []
        args = list(t.args)
        # callee (and context in the sandbox): C18.emit.call
        while args and not (hole_of(args[0], ph) is not None and hole_of(args[0], ph).path == "node.node"):
            args.pop(0)
        args = args[1:]
        plain = [a for a in args if not isinstance(a, ast.Starred)]
        starred = [a for a in args if isinstance(a, ast.Starred)]
        for a in plain:
            h = hole_of(a, ph)
            if h is None or not h.path.startswith("node.args["):
                fails.append(f"positional argument {ast.unparse(a)} is not an element of node.args")
        if starred and args.index(starred[0]) != len(plain):
            fails.append("*dyn_args is emitted before a positional argument")
        if len(starred) > 1 or (starred and not is_hole(starred[0].value, ph, "node.dyn_args")):
            fails.append("the starred argument is not node.dyn_args")
        want_dyn_args = force or "node.dyn_args is present" in sc.notes
        if want_dyn_args != bool(starred):
            fails.append("*dyn_args " + ("dropped" if want_dyn_args else "emitted although absent"))
        # keywords
        dstar = [k for k in t.keywords if k.arg is None]
        named = [k for k in t.keywords if k.arg is not None]
        kw_values = []
        for k in named:
            h = hole_of(k.value, ph)
            if k.arg in EXTRA_KW and h is None:
                continue
            p = ph.get(k.arg)
            if not (isinstance(p, tuple) and p[0] == "ident" and ".key" in str(p[1]) and h is not None and h.path.endswith(".value")
                    and str(p[1])[:-4] == h.path[:-6]):
                fails.append(f"keyword {k.arg}={ast.unparse(k.value)} is not ⟦kwarg.key⟧=⟦kwarg.value⟧")
            kw_values.append(k.value)
        dyn_kw_seen = False
        for k in dstar:
            v = k.value
            d, merged = v, None
            if isinstance(v, ast.Call) and emit.call_name(v) == "dict" and len(v.args) == 1 and len(v.keywords) == 1 and v.keywords[0].arg is None:
                d, merged = v.args[0], v.keywords[0].value
            if isinstance(d, ast.Dict):
                # python-keyword workaround: **{'key': value, ...}
                for kk, vv in zip(d.keys, d.values):
                    h = hole_of(vv, ph)
                    if isinstance(kk, ast.Constant) and kk.value in EXTRA_KW and h is None:
                        continue
                    p = ph.get(f"'{kk.value}'") if isinstance(kk, ast.Constant) else None
                    if not (isinstance(p, tuple) and p[0] == "repr" and h is not None and h.path.endswith(".value") and str(p[1])[:-4] == h.path[:-6]):
                        fails.append(f"workaround entry {ast.unparse(kk)}: {ast.unparse(vv)} is not ⟦kwarg.key⟧: ⟦kwarg.value⟧")
                    kw_values.append(vv)
                if merged is not None:
                    if not is_hole(merged, ph, "node.dyn_kwargs"):
                        fails.append("merged mapping is not node.dyn_kwargs")
                    dyn_kw_seen = True
                    # "keyword arguments like in Python": a keyword given explicitly AND in the ** mapping is a TypeError.
                    # dict({...}, **m) merges first (the later value wins silently), so the call never sees the repetition
                    fails.append("[keywords-merged-before-the-call] explicit keywords and **dyn_kwargs are merged with dict(...) before the call: "
                                 "a repeated keyword is silently overridden instead of raising TypeError")
            elif is_hole(d, ph, "node.dyn_kwargs"):
                dyn_kw_seen = True
            else:
                fails.append(f"** argument {ast.unparse(v)[:80]} is not node.dyn_kwargs")
        want_dyn_kwargs = force or "node.dyn_kwargs is present" in sc.notes
        if want_dyn_kwargs != dyn_kw_seen:
            fails.append("**dyn_kwargs " + ("dropped" if want_dyn_kwargs else "emitted although absent"))
        # every child exactly once
        holes = _holes(tree, ph)
        if len({h.id for h in holes}) != len(holes):
            fails.append("a child is emitted twice")
        paths = set(_schema_hole_paths(sc))
        for need in ("node.args", "node.kwargs"):
            pass
        return fails
    return pred


# ---- enter_frame: the reference a Name loads is bound by the documented lookup ------------------------------------

def enter_frame_schemas(stack=("context",)):
    from pyvc.engine import Interp
    import jinja2.idtracking as IDT
    I = Interp()
    emit.install(I)
    del I.specs["CodeGenerator.enter_frame"]
    st = State()
    g = emit.Gen(st, gen_fields={"_context_reference_stack": st.alloc(HList(items=list(stack)), initial=True)})
    loads = {"l_0_t0": (sym("action0", "str"), sym("param0", "str"))}
    st.get(g.symbols).fields["loads"] = st.alloc(HDict(items=loads), initial=True)
    clo = I.closure_of_function(extract.resolve("jinja2.compiler:CodeGenerator.enter_frame"))
    out = []
    for s, v in I.call_closure(st, clo, [g.gen, g.frame], {}):
        sc = emit.Schema(list(s.ghost.get("out", [])), list(s.pc), list(s.notes), "raise" if isinstance(v, Raised) else "return", s)
        sc.value = v.exc if isinstance(v, Raised) else v
        out.append(sc)
    return out


def enter_frame(task, tier, seed):
    """a reference whose load instruction is `resolve` is bound to resolve(<name>) of the current context, one that is
    `undefined` is bound to the missing sentinel (so that visit_Name's guard produces undefined(name=...))"""
    import jinja2.idtracking as IDT
    rs = []
    act = z3.String("action0")
    for stack in (("context",), ("context", "t_9")):
        tag = "root" if len(stack) == 1 else "derived"
        t0 = time.time()
        try:
            scs = enter_frame_schemas(stack)
        except Unsupported as ex:
            return [Res("C02.emit.enter_frame.engine", "unknown", "pyvc-emit", 0, f"unsupported: {ex}", "emission")]
        seen = set()
        for i, sc in enumerate(scs):
            fails = []
            kinds = [k for k in (IDT.VAR_LOAD_PARAMETER, IDT.VAR_LOAD_RESOLVE, IDT.VAR_LOAD_ALIAS, IDT.VAR_LOAD_UNDEFINED) if sc.holds(act == z3.StringVal(k))]
            if sc.outcome == "raise":
                if kinds:
                    fails.append(f"raises {sc.value!r} for load instruction {kinds[0]!r}")
            elif len(kinds) != 1:
                fails.append("path does not decide the load instruction")
            else:
                seen.add(kinds[0])
                for txt, ph in sc.texts():
                    tree = emit.parse_stmts(txt) if txt.strip() else ast.parse("")
                    body = tree.body
                    if kinds[0] == IDT.VAR_LOAD_PARAMETER:
                        if body:
                            fails.append(f"a parameter is re-bound: {txt!r}")
                    elif kinds[0] == IDT.VAR_LOAD_RESOLVE:
                        want_fn = "resolve" if len(stack) == 1 else f"{stack[-1]}.resolve"
                        ok = (len(body) == 1 and isinstance(body[0], ast.Assign) and ast.unparse(body[0].targets[0]) == "l_0_t0"
                              and isinstance(body[0].value, ast.Call) and ast.unparse(body[0].value.func) == want_fn and len(body[0].value.args) == 1
                              and isinstance(body[0].value.args[0], ast.Constant))
                        if ok:
                            p = ph.get(f"'{body[0].value.args[0].value}'")
                            ok = isinstance(p, tuple) and p[0] == "repr" and str(p[1]) == "param0"
                        if not ok:
                            fails.append(f"resolve load is not `l_0_t0 = {want_fn}(<name>)`: {txt!r}")
                    elif kinds[0] == IDT.VAR_LOAD_UNDEFINED:
                        ok = len(body) == 1 and isinstance(body[0], ast.Assign) and ast.unparse(body[0].targets[-1]) == "l_0_t0" and ast.unparse(body[0].value) == "missing"
                        if not ok:
                            fails.append(f"undefined load is not `l_0_t0 = missing`: {txt!r}")
            rs.append(Res(f"C02.emit.enter_frame.{tag}#p{i}", "refuted" if fails else "discharged", "pyvc-emit", time.time() - t0, "; ".join(fails[:2]), "emission",
                          witness={"stack": list(stack), "schema": sc.describe()[:300]} if fails else None))
        for k in (IDT.VAR_LOAD_RESOLVE, IDT.VAR_LOAD_UNDEFINED, IDT.VAR_LOAD_PARAMETER):
            if k not in seen:
                rs.append(Res(f"C02.emit.enter_frame.{tag}.covers[{k}]", "refuted", "pyvc-emit", 0, f"no path handles load instruction {k!r}", "emission", witness={"stack": list(stack)}))
    return rs


def commons(task, tier, seed):
    """the helpers the emitted expression forms rely on are bound as documented in the generated module"""
    env = jinja2.Environment()
    src = env.compile("{{ a }}{% block b %}{{ c }}{% endblock %}", raw=True)
    tree = ast.parse(src)
    rs = []
    want = {"resolve": "context.resolve_or_missing", "undefined": "environment.undefined", "cond_expr_undefined": "Undefined", "concat": "environment.concat"}
    funcs = [n for n in ast.walk(tree) if isinstance(n, (ast.FunctionDef, ast.AsyncFunctionDef))]
    ok_all = bool(funcs)
    detail = []
    for f in funcs:
        binds = {ast.unparse(s.targets[0]): ast.unparse(s.value) for s in f.body if isinstance(s, ast.Assign) and len(s.targets) == 1}
        for k, v in want.items():
            if binds.get(k) != v:
                ok_all = False
                detail.append(f"{f.name}: {k} = {binds.get(k)!r}, expected {v}")
    imports = [n for n in tree.body if isinstance(n, ast.ImportFrom) and n.module == "jinja2.runtime"]
    names = {a.name for n in imports for a in n.names}
    need = {"missing", "Undefined", "str_join", "markup_join", "Markup", "identity"}
    if not need <= names:
        ok_all = False
        detail.append(f"runtime names not imported: {sorted(need - names)}")
    if RT.Undefined is not jinja2.Undefined or env.undefined is not jinja2.Undefined:
        ok_all = False
        detail.append("default undefined class is not jinja2.Undefined")
    rs.append(Res("C02.emit.commons", "discharged" if ok_all else "refuted", "table", 0, "; ".join(detail[:3]) or "resolve / undefined / cond_expr_undefined / concat bound in every root and block function",
                  "table", None if ok_all else {"preamble": detail[:3]}))
    return rs


CONST_SAMPLES = [0, 3, -3, -1, 10 ** 30, -(10 ** 30), 0.5, -0.5, 2.0, -0.0, 1e100, -1e-7, True, False, None, "s", "-x", "it's", 'q"', "a\nb", "\u00e9",
                 (1, -2), (-1,), [1, -2.5], [-3], {"k": -1}, (), [], {}, 1 + 2j, (-2 - 1j),
                 float("inf"), float("-inf"), float("nan")]
# Python contexts an expression hole is emitted into by the visitors above (read off the schemas): the operand is
# substituted textually, so the text must stay ONE operand in the tightest of them
HOLE_CONTEXTS = [("({} ** z)", lambda t: t.left), ("(z ** {})", lambda t: t.right), ("{}[z:]", lambda t: t.value), ("(-{})", lambda t: t.operand),
                 ("({} + z)", lambda t: t.left), ("(z - {})", lambda t: t.right), ("({} < z)", lambda t: t.left), ("f({})", lambda t: t.args[0]),
                 ("({} if z else z)", lambda t: t.body)]


def real_const_text(v):
    env = jinja2.Environment()
    gen = C.CodeGenerator(env, "t", "t.html")
    frame = C.Frame(N.EvalContext(env, "t"))
    gen.visit_Const(N.Const(v), frame)
    return gen.stream.getvalue()


def const_atomic(task, tier, seed):
    """bounded stand-in for the compositionality assumption of the emission schemas: the text the real visit_Const writes
    for a constant is a single Python operand in every hole context, and evaluates to the constant"""
    t0 = time.time()
    task.bound_text = (f"{len(CONST_SAMPLES)} sample constants (ints, floats incl. negative / -0.0, bools, None, strings, tuples, lists, dicts, complex, inf / -inf / nan) x {len(HOLE_CONTEXTS)} hole contexts")
    bad = []
    for v in CONST_SAMPLES:
        try:
            txt = real_const_text(v)
            own = ast.parse(txt.strip(), mode="eval").body
            back = eval(txt, {})  # noqa: S307 - text written by visit_Const for a literal sample
            if type(back) is not type(v) or repr(back) != repr(v):
                bad.append((repr(v), f"text {txt!r} evaluates to {back!r}"))
                continue
            for ctx, pick in HOLE_CONTEXTS:
                t = ast.parse(ctx.format(txt), mode="eval").body
                try:
                    same_operand = ast.dump(pick(t)) == ast.dump(own)
                except AttributeError:
                    same_operand = False
                if not same_operand:
                    bad.append((repr(v), f"text {txt!r} is not one operand in `{ctx.format(txt)}` (Python reads {ast.unparse(t)})"))
                    break
        except Exception as ex:  # noqa
            bad.append((repr(v), f"{type(ex).__name__}: {ex}"))
    if not bad:
        return [Res("C02.emit.Const.operand", "bounded-ok", "native", time.time() - t0, f"{len(CONST_SAMPLES)} constants are written as one Python operand", "bounded")]
    wit = {"failing": sorted(b[0] for b in bad), "first": bad[0][1]}
    return [Res("C02.emit.Const.operand", "refuted", "native", time.time() - t0,
                f"{len(bad)}/{len(CONST_SAMPLES)} constants: " + "; ".join(f"{a}: {b}" for a, b in bad[:3]), "bounded", wit)]


def replay_const_atomic(w):
    """the folded and the unfolded template must agree: a negative constant as left operand of ** / subscript base"""
    problems = []
    for src in ("(1 - 4) ** x", "(-3) ** x", "(1 - 1.5) ** x", "(0 - 2) ** x ** x"):
        try:
            a = jinja2.Environment().compile_expression(src)(x=2)
            b = jinja2.Environment(optimized=False).compile_expression(src)(x=2)
            want = eval(src, {"x": 2}) if "** x ** x" not in src else ((0 - 2) ** 2) ** 2  # noqa: S307
        except Exception as ex:  # noqa
            problems.append(f"{src!r}: {type(ex).__name__}")
            continue
        if a != want or b != want:
            problems.append(f"{src!r} with x=2: optimized {a!r}, unoptimized {b!r}, documented {want!r}")
    return (bool(problems), "; ".join(problems[:3]) or "negative constants as left operand of ** evaluate as documented")


class _ConstTask(FnTask):
    def finding_key(self, res):
        w = res.witness or {}
        return "|".join(w.get("failing", ["?"]))


# names a template may use for variables (Lexer: str.isidentifier) - plain ones and ones Python's identifier normalisation (NFKC,
# PEP 3131) maps onto another name of the list
IDENT_SAMPLES = ["a", "\u00aa", "o", "\u00ba", "fi", "\ufb01", "K", "\u212a", "x", "\uff58", "s", "\u017f", "\u03bc", "\u00b5", "I", "\u2160",
                 "\u00e9", "e\u0301", "\u00c5", "\u212b", "A\u030a", "H", "\u210c", "ab", "a_b", "_", "__", "l_0_a", "a0", "u6162", "\u00e4", "\u4e2d", "x1", "\uff581"]


def local_identifiers(task, tier, seed):
    """Symbols._define_ref: the Python local a template name is compiled to.  Python compares identifiers after NFKC
    normalisation, so the map name -> identifier must stay injective AFTER that normalisation (two different names never
    share a local), at every level; checked on the real method and against Python's own compile()."""
    import unicodedata
    import jinja2.idtracking as IDT
    t0 = time.time()
    names = [n for n in IDENT_SAMPLES if n.isidentifier()]
    task.bound_text = f"{len(names)} sample names (ASCII and names whose NFKC form is another sample), all pairs, levels 0 and 1"
    bad = []
    for level in (0, 1):
        syms = IDT.Symbols(level=level)
        idents = {n: syms._define_ref(n) for n in names}
        for n, ident in idents.items():
            if not ident.isidentifier():
                bad.append((n, n, f"{ident!r} is not an identifier"))
        # what Python makes of them
        src = "def f():\n" + "".join(f"    {ident} = {i}\n" for i, ident in enumerate(idents.values())) + "    return locals()\n"
        ns = {}
        exec(compile(src, "<idents>", "exec"), ns)  # noqa: S102 - identifiers produced by _define_ref for the sample names
        loc = ns["f"]()
        for i, a in enumerate(names):
            for b in names[i + 1:]:
                na, nb = unicodedata.normalize("NFKC", idents[a]), unicodedata.normalize("NFKC", idents[b])
                if na == nb:
                    bad.append((a, b, f"level {level}: {a!r} -> {idents[a]!r} and {b!r} -> {idents[b]!r} are the same Python local {na!r}"))
        if len(loc) != len(names) and not bad:
            bad.append(("?", "?", f"level {level}: {len(names)} names compile to {len(loc)} locals"))
    # the same name at two scope levels is two variables
    l0, l1 = IDT.Symbols(level=0), IDT.Symbols(level=1)
    for n in names:
        a, b = l0._define_ref(n), l1._define_ref(n)
        if unicodedata.normalize("NFKC", a) == unicodedata.normalize("NFKC", b):
            bad.append((f"level0:{n}", f"level1:{n}", f"{n!r} at level 0 and at level 1 is the same Python local {a!r}"))
    if not bad:
        return [Res("C02.names.identifier_injective", "bounded-ok", "native", time.time() - t0, f"{len(names)} names get pairwise different Python locals", "bounded")]
    cp = lambda n: n if n.isascii() else "U+" + "+".join(f"{ord(c):04X}" for c in n)  # noqa: E731
    wit = {"pairs": sorted({f"{cp(a)}~{cp(b)}" for a, b, _ in bad})}
    return [Res("C02.names.identifier_injective", "refuted", "native", time.time() - t0, f"{len(wit['pairs'])} colliding pairs, e.g. {bad[0][2]}", "bounded", wit)]


def replay_local_identifiers(w):
    """hunt/b/C02_8: a name lookup must not return the value of a different variable"""
    env = jinja2.Environment()
    problems = []
    for src, data, want in (("{{ a }}|{{ \u00aa }}", {"a": 1, "\u00aa": 2}, "1|2"), ("{{ fi }}|{{ \ufb01 }}", {"fi": 1, "\ufb01": 2}, "1|2"),
                            ("{% set \u00aa = 5 %}{{ a }}", {"a": 1}, "1"), ("{{ a }}{{ \u00aa is defined }}", {"a": 1}, "1False"),
                            ("{% for \u212a in [7] %}{{ K }}{{ \u212a }}{% endfor %}", {"K": 1}, "17"), ("{{ \u00e9 }}", {"\u00e9": 3}, "3")):
        try:
            got = env.from_string(src).render(**data)
        except Exception as ex:  # noqa
            got = f"{type(ex).__name__}: {ex}"
        if got != want:
            problems.append(f"{src!r} with {data!r} renders {got!r}, expected {want!r}")
    return (bool(problems), "; ".join(problems[:3]) or "names that differ only up to NFKC are different variables")


class _PairsTask(FnTask):
    def finding_key(self, res):
        return "|".join((res.witness or {}).get("pairs", ["?"]))


class _Pub:
    """safe data: public attribute only"""
    a = 1


FORMAT_FAMILY = [('"{0.a}".format(o)', None), ('"{0[a]}".format(d)', None), ('"{0[0]}".format(lst)', None), ('"{x}".format(x=1)', None), ('"{0}{1}".format(1, 2)', None),
                 ('"{0.a}".format(d)', None), ('"{0[a]}".format(o)', None), ('"{0.zz}".format(o)', None), ('"{0[zz]}".format(d)', None), ('"{0[x]}".format(lst)', None),
                 ('"{a}".format_map(d)', None), ('"{0}".format_map(d)', None)]


def sandbox_str_format(task, tier, seed):
    """`"...".format(...)` is documented as the plain str method (templates.rst, Python Methods): in the sandboxed environment a
    format string over SAFE data must give the value, or an error of the class, that Python's str.format gives"""
    from jinja2.sandbox import SandboxedEnvironment
    t0 = time.time()
    task.bound_text = f"{len(FORMAT_FAMILY)} fixed format expressions over safe data (public attribute, dict, list), default vs sandboxed environment vs Python"
    data = lambda: dict(o=_Pub(), d={"a": 1}, lst=[1, 2])  # noqa: E731

    def run(fn):
        try:
            return ("value", fn())
        except Exception as ex:  # noqa
            return ("raises", type(ex).__name__)

    bad = []
    for src, _ in FORMAT_FAMILY:
        py = run(lambda: eval(src, {}, data()))  # noqa: S307 - fixed family
        for name, env in (("default", jinja2.Environment()), ("sandboxed", SandboxedEnvironment())):
            got = run(lambda: env.compile_expression(src)(**data()))
            if got != py:
                bad.append((src, f"{name} environment: {got}, Python / documented: {py}"))
    if not bad:
        return [Res("C02.bounded.sandbox_str_format", "bounded-ok", "native", time.time() - t0, f"{len(FORMAT_FAMILY)} format expressions agree with str.format", "bounded")]
    wit = {"failing": sorted({b[0] for b in bad}), "first": bad[0][1]}
    return [Res("C02.bounded.sandbox_str_format", "refuted", "native", time.time() - t0,
                f"{len(wit['failing'])}/{len(FORMAT_FAMILY)} expressions differ, e.g. {bad[0][0]}: {bad[0][1]}", "bounded", wit)]


def replay_sandbox_str_format(w):
    rs = sandbox_str_format(_Holder(), "quick", 0)
    return (rs[0].status == "refuted", rs[0].detail)


class _Holder:
    bound_text = None


class _FailingTask(FnTask):
    def finding_key(self, res):
        return "|".join((res.witness or {}).get("failing", ["?"]))


def _present(*names):
    def fields(st):
        return {n: emit.make_node(st, N.Expr, f"node.{n}", kind="expr") for n in names}
    return fields


def emission_tasks():
    V = "jinja2.compiler:CodeGenerator.visit_"
    R = native_expressions
    ts = []
    # arithmetic / unary: the native operator form unless the sandbox intercepts (predicate shared with C20)
    for cls, op in c20.BIN.items():
        ts.append(EmitTask(PROP, f"C02.emit.operator.{cls}", V + cls, getattr(N, cls), c20.routed_predicate("bin", op), replay_fn=R, min_paths=2))
    for cls, op in c20.UN.items():
        ts.append(EmitTask(PROP, f"C02.emit.operator.{cls}", V + cls, getattr(N, cls), c20.routed_predicate("un", op), replay_fn=R, min_paths=2))
    for cls, op in (("And", "and"), ("Or", "or")):
        ts.append(EmitTask(PROP, f"C02.emit.operator.{cls}", V + cls, getattr(N, cls), logic_pred(cls, op), replay_fn=R, min_paths=2))
    ts.append(EmitTask(PROP, "C02.emit.operator.Not", V + "Not", N.Not, logic_pred("Not", "not"), replay_fn=R, min_paths=2))
    ts.append(EmitTask(PROP, "C02.emit.Operand", V + "Operand", N.Operand, wrap_predicate(operand_pred, "(x {})", "expr"), mode="raw", replay_fn=R, min_paths=9))
    ts.append(EmitTask(PROP, "C02.emit.Compare", V + "Compare", N.Compare, compare_pred, replay_fn=R, min_paths=3))
    ts.append(EmitTask(PROP, "C02.emit.CondExpr", V + "CondExpr", N.CondExpr, condexpr_pred(False), replay_fn=R, min_paths=2))
    ts.append(EmitTask(PROP, "C02.emit.CondExpr[else present]", V + "CondExpr", N.CondExpr, condexpr_pred(True), replay_fn=R, node_fields=_present("expr2")))
    ts.append(EmitTask(PROP, "C02.emit.Concat", V + "Concat", N.Concat, concat_pred, replay_fn=R, min_paths=6))
    ts.append(EmitTask(PROP, "C02.emit.Getattr", V + "Getattr", N.Getattr, getattr_pred, replay_fn=R, min_paths=2))
    ts.append(EmitTask(PROP, "C02.emit.Getitem", V + "Getitem", N.Getitem, getitem_pred, replay_fn=R, min_paths=3))
    ts.append(EmitTask(PROP, "C02.emit.Slice", V + "Slice", N.Slice, wrap_predicate(slice_pred(False), "x[{}]", "expr"), mode="raw", replay_fn=R, min_paths=8))
    ts.append(EmitTask(PROP, "C02.emit.Slice[all parts]", V + "Slice", N.Slice, wrap_predicate(slice_pred(True), "x[{}]", "expr"), mode="raw", replay_fn=R,
                       node_fields=_present("start", "stop", "step")))
    for kind in ("Tuple", "List", "Dict"):
        ts.append(EmitTask(PROP, f"C02.emit.{kind}", V + kind, getattr(N, kind), seq_pred(kind), replay_fn=R, min_paths=3))
    ts.append(EmitTask(PROP, "C02.emit.Const", V + "Const", N.Const, const_pred, mode="raw", replay_fn=R, min_paths=2, path_filter=_const_path_feasible))
    ts.append(_ConstTask(PROP, "C02.emit.Const.operand", const_atomic, "bounded", replay_const_atomic))
    ts.append(EmitTask(PROP, "C02.emit.Name", V + "Name", N.Name, name_pred, replay_fn=R, min_paths=4))
    ts.append(_PairsTask(PROP, "C02.names.identifier_injective", local_identifiers, "bounded", replay_local_identifiers))
    ts.append(_FailingTask(PROP, "C02.bounded.sandbox_str_format", sandbox_str_format, "bounded", replay_sandbox_str_format))
    ts.append(FnTask(PROP, "C02.emit.enter_frame", enter_frame, "emission", R))
    ts.append(FnTask(PROP, "C02.emit.commons", commons, "table", R))
    ts.append(EmitTask(PROP, "C02.emit.Filter", V + "Filter", N.Filter, filter_test_pred(True), replay_fn=R, min_paths=20))
    ts.append(EmitTask(PROP, "C02.emit.Test", V + "Test", N.Test, filter_test_pred(False), replay_fn=R, min_paths=10))
    ts.append(EmitTask(PROP, "C02.emit.Call", V + "Call", N.Call, call_pred, replay_fn=R, min_paths=4))
    # the argument tail is written by ONE function, CodeGenerator.signature (Filter / Test use it through the
    # signature hole checked above): its order contract is run inlined into visit_Call
    ts.append(_TaggedEmitTask(PROP, "C02.emit.signature", V + "Call", N.Call, ordered_signature_pred(False), replay_fn=R, min_paths=16,
                       install_opts={"modular_signature": False}, path_filter=_sig_path_filter, env_fields={"is_async": False, "sandboxed": False}))
    ts.append(_TaggedEmitTask(PROP, "C02.emit.signature[* and ** present]", V + "Call", N.Call, ordered_signature_pred(True), replay_fn=R, min_paths=4,
                       install_opts={"modular_signature": False}, node_fields=_present("dyn_args", "dyn_kwargs"), path_filter=_sig_path_filter,
                       env_fields={"is_async": False, "sandboxed": False}))
    # a path whose condition is contradictory is no path (the engine's own feasibility test runs with a short timeout and can let
    # one through on a loaded machine): decided here with a generous timeout before the predicate is applied
    for t in ts:
        if isinstance(t, EmitTask):
            pf = t.path_filter
            t.path_filter = (lambda sc, pf=pf: _feasible(sc) and (pf is None or pf(sc)))
    return ts


def _feasible(sc):
    from pyvc.smt import check_sat
    try:
        return check_sat(list(sc.pc), 8000, 0, use_cvc5=False).status != "unsat"
    except Exception:  # noqa
        return True


def _const_path_feasible(sc):
    """Python fact the engine does not know: a value whose exact type is int is no float (`type(v) is int` and
    `isinstance(v, float)` on one path is infeasible)"""
    exact_int = any("py_type_obj(node.value) == host:int" in str(c) and not str(c).startswith("Not(") for c in sc.pc)
    isf = _find_app(sc.pc, "isinstance:builtins.float")
    return not (exact_int and isf is not None and sc.holds(isf))


def _sig_path_filter(sc):
    return sc.outcome != "raise"


class _TaggedEmitTask(EmitTask):
    """finding key = the [tags] of the violated clauses, so that a different violation of the same visitor stays a VIOLATION"""

    def finding_key(self, res):
        import re
        tags = sorted(set(re.findall(r"\[([a-z-]+)\]", res.detail or "")))
        return "+".join(tags) or "untagged"

    def replay(self, witness):
        bad, detail = native_repeated_keyword(witness)
        if bad:
            return (bad, detail)
        return native_expressions(witness)


def native_repeated_keyword(w=None):
    """hunt/b/C02_7: a keyword repeated through ** is a TypeError whatever its spelling"""
    env = jinja2.Environment()
    f = lambda **kw: sorted(kw.items())  # noqa: E731
    env.filters["kwf"] = lambda v, **kw: sorted(kw.items())
    out = {}
    for src, d in (("f(cls=1, **d)", {"cls": 2}), ("f(class=1, **d)", {"class": 2}), ("f(__debug__=1, **d)", {"__debug__": 2}), ("0|kwf(class=1, **d)", {"class": 2}),
                   ("f(class=1, **d)", {"other": 2})):
        try:
            out[(src, tuple(d))] = ("value", env.compile_expression(src)(f=f, d=d))
        except Exception as ex:  # noqa
            out[(src, tuple(d))] = ("raises", type(ex).__name__)
    problems = [f"{k[0]} with d keys {list(k[1])}: {v}" for k, v in out.items() if k[1] != ("other",) and v != ("raises", "TypeError")]
    if out[("f(class=1, **d)", ("other",))] != ("value", [("class", 1), ("other", 2)]):
        problems.append(f"distinct keywords: {out[('f(class=1, **d)', ('other',))]}")
    return (bool(problems), "; ".join(problems[:3]) or "a keyword repeated through ** raises TypeError for every spelling")


def logic_pred(cls, op):
    kind = "un" if cls == "Not" else "bin"

    def pred(sc, tree, ph, txt):
        """(⟦left⟧ and/or ⟦right⟧) / (not ⟦node⟧): Python's short-circuit operators, operands in source order"""
        if sc.outcome == "raise":
            return [f"raises {sc.value!r}"]
        cond = z3.And(c20.SANDBOXED, c20.intercepted(kind, op if kind == "bin" else "not "))
        if sc.holds(cond):
            # an environment that intercepts the logical operator (not possible with the default tables): the hook form
            t = tree
            hook = "environment.call_binop" if kind == "bin" else "environment.call_unop"
            if not (isinstance(t, ast.Call) and emit.call_name(t) == hook):
                return [f"intercepted logical operator not routed through {hook}"]
            return []
        if not sc.holds(z3.Not(cond)):
            return ["path does not decide the interception condition"]
        t = tree
        if kind == "bin":
            want = ast.And if op == "and" else ast.Or
            if not (isinstance(t, ast.BoolOp) and isinstance(t.op, want) and len(t.values) == 2 and is_hole(t.values[0], ph, "node.left") and is_hole(t.values[1], ph, "node.right")):
                return [f"not (⟦left⟧ {op} ⟦right⟧): {txt!r}"]
        else:
            if not (isinstance(t, ast.UnaryOp) and isinstance(t.op, ast.Not) and is_hole(t.operand, ph, "node.node")):
                return [f"not (not ⟦node⟧): {txt!r}"]
        return []
    return pred


# =====================================================================================================================
# C02.tables.operators: symbol -> token -> parser table -> node class -> visitor constant -> folding function -> Python
# =====================================================================================================================

# documented operators (docs/templates.rst: Math, Comparisons, Logic, Other Operators) and their Python meaning
DOC_BINARY = {"+": ("add", "Add", pyop.add), "-": ("sub", "Sub", pyop.sub), "*": ("mul", "Mul", pyop.mul), "/": ("div", "Div", pyop.truediv),
              "//": ("floordiv", "FloorDiv", pyop.floordiv), "%": ("mod", "Mod", pyop.mod), "**": ("pow", "Pow", pyop.pow)}
DOC_UNARY = {"-": ("sub", "Neg", pyop.neg), "+": ("add", "Pos", pyop.pos), "not": ("name", "Not", pyop.not_)}
DOC_LOGIC = {"and": ("And", lambda a, b: a and b), "or": ("Or", lambda a, b: a or b)}
DOC_COMPARE = {"==": ("eq", pyop.eq), "!=": ("ne", pyop.ne), ">": ("gt", pyop.gt), ">=": ("gteq", pyop.ge), "<": ("lt", pyop.lt), "<=": ("lteq", pyop.le),
               "in": ("in", lambda a, b: a in b), "not in": ("notin", lambda a, b: a not in b)}
SAMPLES_NUM = [(7, 2), (2, 7), (-7, 2), (7.5, 2), (0, 3), (9, 4)]
SAMPLES_CMP = [(1, 2), (2, 1), (2, 2), ("a", "b"), ("b", "a"), ((1, 2), (1, 3))]
SAMPLES_IN = [(1, [1, 2]), (3, [1, 2]), ("a", "abc"), ("z", "abc"), ("k", {"k": 1}), (2, (1,))]
SAMPLES_BOOL = [(0, 5), (5, 0), ("", "x"), ("x", ""), ([], [1]), (None, 0), (3, 4)]


def _closure_op(cls_name):
    vis = getattr(C.CodeGenerator, f"visit_{cls_name}")
    inner = getattr(vis, "__wrapped__", vis)
    cell = dict(zip(inner.__code__.co_freevars, [c.cell_contents for c in (inner.__closure__ or ())]))
    return cell.get("op")


def _same_on(f, g, samples):
    for a in samples:
        try:
            x = f(*a)
        except Exception as ex:  # noqa
            x = type(ex)
        try:
            y = g(*a)
        except Exception as ex:  # noqa
            y = type(ex)
        if type(x) is not type(y) or x != y:
            return f"differs on {a!r}: {x!r} vs {y!r}"
    return None


def _lex_types(src):
    env = jinja2.Environment()
    return [(t.type, t.value) for t in env.lexer.tokenize("{{ " + src + " }}")][1:-1]


def operator_tables(task, tier, seed):
    rs = []

    def row(name, ok, detail=""):
        rs.append(Res(f"C02.tables.operators.{name}", "discharged" if ok else "refuted", "table", 0, detail, "table", None if ok else {"table": name, "detail": detail[:200]}))

    ectx = N.EvalContext(jinja2.Environment())
    for sym_, (tok, cls, fn) in DOC_BINARY.items():
        ncls = getattr(N, cls)
        row(f"[{sym_}].lexer", LX.operators.get(sym_) == tok and _lex_types(f"a {sym_} b") == [("name", "a"), (tok, sym_), ("name", "b")],
            f"lexer.operators[{sym_!r}] = {LX.operators.get(sym_)!r}; tokens of `a {sym_} b`: {_lex_types(f'a {sym_} b')}")
        if sym_ != "**":
            row(f"[{sym_}].parser_table", P._math_nodes.get(tok) is ncls, f"parser._math_nodes[{tok!r}] = {P._math_nodes.get(tok)!r}")
        row(f"[{sym_}].node_operator", ncls.operator == sym_, f"nodes.{cls}.operator = {ncls.operator!r}")
        row(f"[{sym_}].visitor_constant", (_closure_op(cls) or "").strip() == sym_, f"CodeGenerator.visit_{cls} closes over op = {_closure_op(cls)!r}")
        f2 = N._binop_to_func.get(sym_)
        d = "missing" if f2 is None else _same_on(f2, fn, SAMPLES_NUM)
        row(f"[{sym_}].fold_function", d is None, f"nodes._binop_to_func[{sym_!r}] {d or 'agrees with operator.' + fn.__name__}")
        d = _same_on(lambda a, b: ncls(N.Const(a), N.Const(b)).as_const(ectx), fn, [s for s in SAMPLES_NUM])
        row(f"[{sym_}].as_const", d is None, f"nodes.{cls}(Const a, Const b).as_const {d or 'is a ' + sym_ + ' b'}")
    row("math_nodes.exact", set(P._math_nodes) == {t for s_, (t, c, f) in DOC_BINARY.items() if s_ != "**"}, f"parser._math_nodes keys = {sorted(P._math_nodes)}")
    for sym_, (tok, cls, fn) in DOC_UNARY.items():
        ncls = getattr(N, cls)
        if sym_ != "not":
            row(f"[unary {sym_}].lexer", LX.operators.get(sym_) == tok, f"lexer.operators[{sym_!r}] = {LX.operators.get(sym_)!r}")
        else:
            row("[not].lexer", _lex_types("not a") == [("name", "not"), ("name", "a")], f"`not` is lexed as {_lex_types('not a')[:1]}")
        row(f"[unary {sym_}].node_operator", ncls.operator == sym_, f"nodes.{cls}.operator = {ncls.operator!r}")
        row(f"[unary {sym_}].visitor_constant", (_closure_op(cls) or "").strip() == sym_, f"CodeGenerator.visit_{cls} closes over op = {_closure_op(cls)!r}")
        f2 = N._uaop_to_func.get(sym_)
        smp = [(a,) for a, b in SAMPLES_NUM] if sym_ != "not" else [(a,) for a, b in SAMPLES_BOOL]
        d = "missing" if f2 is None else _same_on(f2, fn, smp)
        row(f"[unary {sym_}].fold_function", d is None, f"nodes._uaop_to_func[{sym_!r}] {d or 'agrees with operator.' + fn.__name__}")
        d = _same_on(lambda a: ncls(N.Const(a)).as_const(ectx), fn, smp)
        row(f"[unary {sym_}].as_const", d is None, f"nodes.{cls}(Const a).as_const {d or 'is ' + sym_ + ' a'}")
    for sym_, (cls, fn) in DOC_LOGIC.items():
        ncls = getattr(N, cls)
        row(f"[{sym_}].lexer", _lex_types(f"a {sym_} b") == [("name", "a"), ("name", sym_), ("name", "b")], f"`{sym_}` is lexed as {_lex_types('a ' + sym_ + ' b')[1:2]}")
        row(f"[{sym_}].node_operator", ncls.operator == sym_, f"nodes.{cls}.operator = {ncls.operator!r}")
        row(f"[{sym_}].visitor_constant", (_closure_op(cls) or "").strip() == sym_, f"CodeGenerator.visit_{cls} closes over op = {_closure_op(cls)!r}")
        d = _same_on(lambda a, b: ncls(N.Const(a), N.Const(b)).as_const(ectx), fn, SAMPLES_BOOL)
        row(f"[{sym_}].as_const", d is None, f"nodes.{cls}(Const a, Const b).as_const {d or 'is a ' + sym_ + ' b (operand values, short circuit)'}")
    for sym_, (tok, fn) in DOC_COMPARE.items():
        samples = SAMPLES_IN if "in" in sym_ else SAMPLES_CMP
        if "in" not in sym_:
            row(f"[{sym_}].lexer", LX.operators.get(sym_) == tok and _lex_types(f"a {sym_} b")[1] == (tok, sym_), f"lexer.operators[{sym_!r}] = {LX.operators.get(sym_)!r}")
            row(f"[{sym_}].parser_table", tok in P._compare_operators, f"{tok!r} in parser._compare_operators: {tok in P._compare_operators}")
        row(f"[{sym_}].compiler_operators", C.operators.get(tok) == sym_, f"compiler.operators[{tok!r}] = {C.operators.get(tok)!r}")
        try:
            py = type(ast.parse(f"a {C.operators.get(tok)} b", mode="eval").body.ops[0])
        except Exception:  # noqa
            py = None
        row(f"[{sym_}].python_operator", py is DOC_CMP[tok], f"`a {C.operators.get(tok)} b` is Python's {getattr(py, '__name__', py)}")
        f2 = N._cmpop_to_func.get(tok)
        d = "missing" if f2 is None else _same_on(f2, fn, samples)
        row(f"[{sym_}].fold_function", d is None, f"nodes._cmpop_to_func[{tok!r}] {d or 'agrees with Python ' + sym_}")
        d = _same_on(lambda a, b: N.Compare(N.Const(a), [N.Operand(tok, N.Const(b))]).as_const(ectx), fn, samples)
        row(f"[{sym_}].as_const", d is None, f"Compare(Const a, [Operand({tok!r}, Const b)]).as_const {d or 'is a ' + sym_ + ' b'}")
    row("compare_operators.exact", set(P._compare_operators) == {t for s_, (t, f) in DOC_COMPARE.items() if "in" not in s_} and set(C.operators) == {t for t, f in DOC_COMPARE.values()}
        and set(N._cmpop_to_func) == set(C.operators), f"parser._compare_operators = {sorted(P._compare_operators)}, compiler.operators = {sorted(C.operators)}")
    row("[~].lexer", LX.operators.get("~") == "tilde" and _lex_types("a ~ b")[1] == ("tilde", "~"), f"lexer.operators['~'] = {LX.operators.get('~')!r}")
    d = _same_on(lambda a, b: N.Concat([N.Const(a), N.Const(b)]).as_const(ectx), lambda a, b: str(a) + str(b), [(1, 2), ("a", 3), ("a", "b"), (None, 1.5)])
    row("[~].as_const", d is None, f"Concat([Const a, Const b]).as_const {d or 'is str(a) + str(b)'}")
    # the folded `~` must be the value the compiled `~` computes: escaping join under autoescape, never folded while volatile
    from markupsafe import Markup as _M

    def fold_ae(a, b):
        ec = N.EvalContext(jinja2.Environment(autoescape=True))
        return N.Concat([N.MarkSafe(N.Const(a[1])) if isinstance(a, tuple) else N.Const(a), N.Const(b)]).as_const(ec)

    d = _same_on(fold_ae, lambda a, b: RT.markup_join((_M(a[1]) if isinstance(a, tuple) else a, b)), [(("safe", "<b>"), "<"), ("<", ">"), (1, "&"), (("safe", ""), 2)])
    row("[~].as_const.autoescape", d is None, f"Concat.as_const under autoescape {d or 'is runtime.markup_join of the operands'}")
    vctx = N.EvalContext(jinja2.Environment())
    vctx.volatile = True
    try:
        N.Concat([N.Const("a"), N.Const("b")]).as_const(vctx)
        vol_ok = False
    except N.Impossible:
        vol_ok = True
    row("[~].as_const.volatile", vol_ok, "Concat.as_const in a volatile context is Impossible (the join is chosen at run time)")
    d = _same_on(lambda a, b: RT.str_join((a, b)), lambda a, b: str(a) + str(b), [(1, 2), ("a", 3), ("<", ">")])
    row("[~].str_join", d is None, f"runtime.str_join {d or 'is the concatenation of str(operand)'}")
    from markupsafe import Markup, escape
    d = _same_on(lambda a, b: RT.markup_join((a, b)), lambda a, b: (Markup("").join([a, b]) if hasattr(a, "__html__") or hasattr(b, "__html__") else str(a) + str(b)),
                 [(1, 2), ("<", Markup("<b>")), (Markup("<i>"), "<"), ("a", "b")])
    row("[~].markup_join", d is None, f"runtime.markup_join {d or 'escapes unsafe operands once a Markup operand is present'}")
    # one symbol - one token: the longest-match lexing of the documented spellings
    for a, b in (("**", "*"), ("//", "/"), ("<=", "<"), (">=", ">"), ("==", "=")):
        row(f"[{a}].longest_match", _lex_types(f"a {a} b")[1][1] == a, f"`a {a} b` lexes to {_lex_types(f'a {a} b')[1]}")
    return rs


# =====================================================================================================================
# C02.env.getattr_order / getitem_order
# =====================================================================================================================

class _AttrSub(AttributeError):
    pass


# what a lookup on a data object may do: return a value, or raise one of these / something else entirely
DATA_RAISES = (AttributeError, _AttrSub, TypeError, KeyError, IndexError, LookupError, ValueError, RuntimeError, ZeroDivisionError)
ITEM_SIGNALS = (TypeError, LookupError, AttributeError)     # "there is no such item" (docs: lookups that fail fall through)
ATTR_SIGNALS = (AttributeError,)                              # "there is no such attribute"


def install_data_object(I):
    """the data object's attribute / item lookup as abstract callees recording 'call' events"""

    def lookup(name):
        def h(I_, st, args, kwargs, node):
            o, k = args[0], args[1]
            if not (isinstance(o, Sym) and o.k == "obj"):
                return None
            ln = getattr(node, "lineno", None)
            out = []
            for cls in DATA_RAISES:
                s1 = st.fork()
                e = Exc(cls, (), tag=f"{name}:{cls.__name__}", origin=ln)
                s1.trace.append(Event("call", name, [o, k], result=e, lineno=ln))
                out.append((s1, Raised(e)) if not (name == "data.getattr" and len(args) > 2 and issubclass(cls, AttributeError)) else (s1, args[2]))
            s2 = st.fork()
            e2 = Exc(None, (), tag=f"{name}:other", within=Exception, origin=ln)
            e2.excluded = tuple(DATA_RAISES)
            e2.from_call = name
            s2.trace.append(Event("call", name, [o, k], result=e2, lineno=ln))
            out.append((s2, Raised(e2)))
            v = fresh(name.replace(".", "_") + "_value", "obj", tags={name})
            st.trace.append(Event("call", name, [o, k], result=v, lineno=ln))
            out.append((st, v))
            return out
        return h

    I.specs["getattr_dyn"] = lookup("data.getattr")
    I.specs["getitem_obj"] = lookup("data.getitem")


def _same(a, b):
    if isinstance(a, Ref) or isinstance(b, Ref):
        return isinstance(a, Ref) and isinstance(b, Ref) and a == b
    if isinstance(a, Sym) and isinstance(b, Sym):
        return a.t.eq(b.t)
    return a is b


class LookupOrder(VC):
    """Environment.getattr: attribute, then item, then undefined(obj, name).  Environment.getitem: item, then (string
    subscripts only) attribute, then undefined(obj, name).  Only the lookup signals fall through; anything else the data
    object raises propagates unchanged."""
    prop = PROP
    expect_paths_min = 6

    def __init__(self, fn, key="str", sandbox=False):
        self.fn, self.key, self.sandbox = fn, key, sandbox
        self.target = f"jinja2.sandbox:SandboxedEnvironment.{fn}" if sandbox else f"jinja2.environment:Environment.{fn}"
        VC.__init__(self, PROP, f"C02.env.{fn}_order" + ("[sandboxed]" if sandbox else "") + ("" if key == "str" else f"[{key} subscript]"))

    def configure(self, I):
        install_data_object(I)
        I.specs["Environment.undefined"] = A.abstract_fn("undefined", returns="obj", tags=("undefined",))
        if self.sandbox:
            # the sandbox gates on a FOUND attribute are C17's contract; here only: the same lookups, in the same order, fall
            # through on the same signals as in the base environment ("missing values become the environment's undefined object")
            I.specs["SandboxedEnvironment.undefined"] = I.specs["Environment.undefined"]
            I.specs["SandboxedEnvironment.is_safe_attribute"] = A.abstract_fn("is_safe_attribute", returns="bool")
            I.specs["SandboxedEnvironment.wrap_str_format"] = A.abstract_fn("wrap_str_format", returns="obj")
            I.specs["SandboxedEnvironment.unsafe_undefined"] = A.abstract_fn("unsafe_undefined", returns="obj")
        if self.key == "nonstr":
            from contracts import _sbx
            _sbx.exact_types(I, {"key": int})

    def setup(self, I, st):
        if self.sandbox:
            import jinja2.sandbox as SBX
            self.env = A.obj(st, SBX.SandboxedEnvironment, "env")
        else:
            self.env = A.obj(st, ENV.Environment, "env")
        self.obj = sym("obj", "obj")
        self.keyv = sym("key", "str") if self.key == "str" else sym("key", "obj")
        return [self.env, self.obj, self.keyv], {}

    # the documented rule as a walk over the ghost trace
    def expected(self, out):
        evs = [e for e in out.st.trace if e.kind == "call" and e.name in ("data.getattr", "data.getitem", "undefined")]
        pos = [0]

        def nxt(name):
            if pos[0] >= len(evs) or evs[pos[0]].name != name:
                return None
            e = evs[pos[0]]
            pos[0] += 1
            return e

        def lookup_ok(e, key_is_name=True):
            a = e.args
            return len(a) == 2 and _same(a[0], self.obj) and (_same(a[1], self.keyv) or (isinstance(a[1], Sym) and isinstance(self.keyv, Sym) and a[1].k == "str" and self.keyv.k == "str" and a[1].t.eq(self.keyv.t)))

        def signals(exc, classes):
            return exc.cls is not None and issubclass(exc.cls, classes)

        def undefined():
            e = nxt("undefined")
            if e is None or e.args[1:] or set(e.kwargs) != {"obj", "name"} or not _same(e.kwargs["obj"], self.obj) or not _same(e.kwargs["name"], self.keyv):
                return ("fail", "expected undefined(obj=obj, name=key)")
            return ("value", e.result)

        def attr_then(rest):
            e = nxt("data.getattr")
            if e is None or not lookup_ok(e):
                return ("fail", "expected the attribute lookup getattr(obj, key)")
            if not isinstance(e.result, Exc):
                return ("gated" if self.sandbox else "value", e.result)
            if signals(e.result, ATTR_SIGNALS):
                return rest()
            return ("raise", e.result)

        def item_then(rest):
            e = nxt("data.getitem")
            if e is None or not lookup_ok(e):
                return ("fail", "expected the item lookup obj[key]")
            if not isinstance(e.result, Exc):
                return ("value", e.result)
            if signals(e.result, ITEM_SIGNALS):
                return rest()
            return ("raise", e.result)

        if self.fn == "getattr":
            r = attr_then(lambda: item_then(undefined))
        elif self.key == "str":
            r = item_then(lambda: attr_then(undefined))
        else:
            r = item_then(undefined)
        if r[0] != "fail" and pos[0] != len(evs):
            return ("fail", f"further lookups after the result was decided: {evs[pos[0]].name}")
        return r

    def p_order(self, pre, out):
        r = self.expected(out)
        self.last = r
        if r[0] == "fail":
            return False
        if r[0] == "value":
            return out.returned and _same(out.value, r[1])
        if r[0] == "gated":
            # a found attribute goes through the sandbox gates (C17): the attribute, its str.format wrapper, or the unsafe marker
            gates = [e.result for e in out.st.trace if e.kind == "call" and e.name in ("wrap_str_format", "unsafe_undefined")]
            return out.returned and (_same(out.value, r[1]) or any(_same(out.value, g) for g in gates))
        return out.raised and out.value is r[1]

    posts = [("attribute_item_undefined_order", p_order)]

    def describe(self, out):
        evs = [f"{e.name}->{'raise ' + (e.result.cls.__name__ if e.result.cls else 'other') if isinstance(e.result, Exc) else 'value'}" for e in out.st.trace
               if e.kind == "call" and e.name in ("data.getattr", "data.getitem", "undefined")]
        return f"{self.fn}: {' ; '.join(evs)} => {'raises ' + repr(out.value) if out.raised else 'returns'} (documented: {getattr(self, 'last', ('', ''))[0]} {str(getattr(self, 'last', ('', ''))[1])[:80]})"

    def concretize(self, model, pre, out):
        seq = []
        for e in out.st.trace:
            if e.kind == "call" and e.name in ("data.getattr", "data.getitem"):
                seq.append([e.name, (e.result.cls.__name__ if e.result.cls else "OtherError") if isinstance(e.result, Exc) else "value"])
        return {"fn": self.fn, "key": self.key, "lookups": seq, "sandbox": self.sandbox}

    def replay(self, w):
        return replay_lookup(w)

    def finding_key(self, res):
        w = res.witness or {}
        return ">".join(f"{a.split('.')[-1]}:{'AttributeError' if b == '_AttrSub' else b}" for a, b in w.get("lookups", [])) or "?"


def replay_lookup(w):
    """run the real Environment.getattr / getitem on an object scripted to behave as in the witness"""
    class OtherError(Exception):
        pass

    classes = {c.__name__: c for c in DATA_RAISES}
    classes["OtherError"] = OtherError
    script = {k: v for k, v in w.get("lookups", [])}
    log = []

    class Scripted:
        def __getattr__(self, name):
            log.append("data.getattr")
            b = script.get("data.getattr", "AttributeError")
            if b == "value":
                return "ATTR"
            raise classes[b]()

        def __getitem__(self, k):
            log.append("data.getitem")
            b = script.get("data.getitem", "KeyError")
            if b == "value":
                return "ITEM"
            raise classes[b]()

    if w.get("sandbox"):
        from jinja2.sandbox import SandboxedEnvironment
        env = SandboxedEnvironment()
    else:
        env = jinja2.Environment()
    key = "k" if w.get("key", "str") == "str" else 3
    first, second = ("data.getattr", "data.getitem") if w["fn"] == "getattr" else ("data.getitem", "data.getattr")
    sig = {"data.getattr": ATTR_SIGNALS, "data.getitem": ITEM_SIGNALS}
    # documented result
    want = None
    order = [first] + ([second] if (w["fn"] == "getattr" or key == "k") else [])
    for step in order:
        b = script.get(step, "AttributeError" if step == "data.getattr" else "KeyError")
        if b == "value":
            want = ("value", "ATTR" if step == "data.getattr" else "ITEM")
            break
        if not issubclass(classes[b], sig[step]):
            want = ("raise", b)
            break
    else:
        want = ("undefined", None)
    try:
        got = getattr(env, w["fn"])(Scripted(), key)
        real = ("undefined", None) if isinstance(got, jinja2.Undefined) else ("value", got)
    except Exception as ex:  # noqa
        real = ("raise", type(ex).__name__)
    return (real != want, f"Environment.{w['fn']}(obj, {key!r}) with lookups {script}: real {real}, documented {want}; lookups performed {log}")


# =====================================================================================================================
# C02.compile_expression / TemplateExpression.__call__ / Context.resolve
# =====================================================================================================================

class _Callee:
    def __init__(self, name):
        self.__name__ = name


class ExprCall(VC):
    """TemplateExpression.__call__(**vars): a new context is made from the given variables, the template's root render
    function is run TO COMPLETION on it - synchronously, or on an event loop when the environment is async (then the root
    render function is an async generator function and cannot be iterated synchronously) - and the value is
    context.vars["result"] afterwards, mapped to None exactly when it is an Undefined and undefined_to_none was requested."""
    prop = PROP
    target = "jinja2.environment:TemplateExpression.__call__"

    def __init__(self):
        VC.__init__(self, PROP, "C02.TemplateExpression.__call__")

    def run_body(self, st):
        """effect of running the template body: it may store anything into context.vars (the compiled Assign stores `result`)"""
        h = st.get(self.vars)
        h.dom = z3.Const(fresh_name("vars_dom_after"), h.dom.sort())
        h.val = z3.Const(fresh_name("vars_val_after"), h.val.sort())
        st.ghost = dict(st.ghost)
        st.ghost["after"] = (h.dom, h.val)

    def configure(self, I):
        c = self

        def new_context(I_, st, args, kwargs, node):
            v = args[1] if len(args) > 1 else kwargs.get("vars")
            st.trace.append(Event("call", "template.new_context", [v] + list(args[2:]), dict(kwargs), c.ctx))
            return [(st, c.ctx)]

        I.specs["Template.new_context"] = new_context

        def root(I_, st, args, kwargs, node):
            # a generator in a sync environment, an ASYNC generator in an async one (compiler: `async def root`)
            r = fresh("render_generator", "obj", tags={"generator"})
            st.trace.append(Event("call", "root_render_func", list(args), dict(kwargs), r))
            return [(st, r)]

        I.specs["call_obj"] = lambda I_, st, args, kwargs, node: (root(I_, st, args[1:], kwargs, node) if isinstance(args[0], Sym) and "root_render_func" in args[0].tags else None)

        def body_outcomes(st, name, args, node):
            c.run_body(st)
            st.trace.append(Event("call", name, list(args), {}, None))
            e = Exc(None, (), tag="template_body", within=Exception, origin=getattr(node, "lineno", None))
            s2 = st.fork()
            s2.trace.append(Event("call", name + "!raise", list(args), {}, e))
            return [(s2, Raised(e)), (st, None)]

        def consume(I_, st, args, kwargs, node):
            # utils.consume iterates synchronously: on an async generator that is a TypeError (Python)
            out = []
            for s, is_async in I_.fork_bool(st, c.is_async.t):
                if is_async:
                    e = Exc(TypeError, ("'async_generator' object is not iterable",), tag="sync_iteration_of_async_generator", origin=getattr(node, "lineno", None))
                    s.trace.append(Event("call", "consume!async_generator", list(args), {}, e))
                    out.append((s, Raised(e)))
                else:
                    out += body_outcomes(s, "consume", args, node)
            return out

        from jinja2.utils import consume as real_consume
        I.specs[("fn", id(real_consume))] = consume

        # the async way: a coroutine that iterates the async generator, driven by asyncio.run
        def drive(I_, st, args, kwargs, node):
            r = fresh("coroutine", "obj", tags={"coroutine"})
            st.trace.append(Event("call", "consume_async", list(args[1:]), dict(kwargs), r))
            return [(st, r)]

        I.specs["TemplateExpression._consume_async"] = drive
        import asyncio

        def aio_run(I_, st, args, kwargs, node):
            out = []
            for s, is_async in I_.fork_bool(st, c.is_async.t):
                if not is_async:
                    e = Exc(TypeError, ("a sync generator cannot be driven with `async for`",), tag="async_iteration_of_sync_generator", origin=getattr(node, "lineno", None))
                    s.trace.append(Event("call", "asyncio.run!sync_generator", list(args), {}, e))
                    out.append((s, Raised(e)))
                else:
                    out += body_outcomes(s, "asyncio.run", args, node)
            return out

        I.specs[("fn", id(asyncio.run))] = aio_run

        def dict_new(I_, st, args, kwargs, node):
            if not isinstance(kwargs, dict):
                raise Unsupported("dict(**symbolic)", node)
            r = st.alloc(HDict(items=dict(kwargs)))
            st.trace.append(Event("call", "dict", list(args), dict(kwargs), r))
            return [(st, r)]

        I.specs[("fn", id(dict))] = dict_new

    def setup(self, I, st):
        self.vars = A.adict(st, "context.vars", "str", "obj")
        self.ctx = A.obj(st, RT.Context, "context", fields={"vars": self.vars})
        self.is_async = sym("environment.is_async", "bool")
        self.env = A.obj(st, ENV.Environment, "environment", fields={"is_async": self.is_async})
        self.template = A.obj(st, ENV.Template, "template", fields={"root_render_func": sym("root_render_func", "obj", tags={"root_render_func"}),
                                                                    "environment": self.env})
        self.u2n = sym("undefined_to_none", "bool")
        self.texpr = A.obj(st, ENV.TemplateExpression, "self", fields={"_template": self.template, "_undefined_to_none": self.u2n})
        self.a, self.b = sym("value_a", "obj"), sym("value_b", "obj")
        return [self.texpr], {"a": self.a, "b": self.b}

    def p_result(self, pre, out):
        tr = [e for e in out.st.trace if e.kind == "call" and e.name != "dict"]
        names = [e.name for e in tr]
        after = out.st.ghost.get("after")
        if out.raised:
            # only what the template body raises; KeyError only if the body never stored `result` (excluded by
            # C02.compile_expression: the template is `result = <expr>`); never an error of the driving itself
            if names[-1:] in (["consume!raise"], ["asyncio.run!raise"]):
                return out.value is tr[-1].result
            if out.value.cls is KeyError and names[-1:] in (["consume"], ["asyncio.run"]) and after is not None:
                return z3.Not(z3.Select(after[0], z3.StringVal("result")))
            return False
        sync_shape = names == ["template.new_context", "root_render_func", "consume"]
        async_shape = names == ["template.new_context", "consume_async", "asyncio.run"]
        if not (sync_shape or async_shape) or after is None:
            return False
        nc = tr[0]
        d = nc.args[0]
        if not (isinstance(d, Ref) and isinstance(out.st.get(d), HDict) and out.st.get(d).concrete):
            return False
        items = out.st.get(d).items
        if set(items) != {"a", "b"} or not (_same(items["a"], self.a) and _same(items["b"], self.b)):
            return False
        if sync_shape:
            rr, cs = tr[1], tr[2]
            if not (len(rr.args) == 1 and _same(rr.args[0], self.ctx) and len(cs.args) == 1 and _same(cs.args[0], rr.result)):
                return False
        else:
            dr, ar = tr[1], tr[2]
            if not (len(dr.args) == 1 and _same(dr.args[0], self.ctx) and len(ar.args) == 1 and _same(ar.args[0], dr.result)):
                return False
        dom, val = after
        rv = z3.Select(val, z3.StringVal("result"))
        is_undef = isinst_fn(RT.Undefined)(rv)
        want = z3.If(z3.And(self.u2n.t, is_undef), host_const(None), rv)
        return z3.Implies(z3.Select(dom, z3.StringVal("result")), to_term(out.value, "obj") == want)

    posts = [("result_is_context_vars_result", p_result)]

    def concretize(self, model, pre, out):
        return {"undefined_to_none": bool(model_value(model, self.u2n.t)), "is_async": bool(model_value(model, self.is_async.t)),
                "raises": repr(out.value) if out.raised else None}

    def finding_key(self, res):
        w = res.witness or {}
        return f"is_async={w.get('is_async')}:{'TypeError' if 'TypeError' in str(w.get('raises')) else w.get('raises') and 'raises' or 'value'}"

    def replay(self, w):
        problems = []
        for is_async in (False, True):
            env = jinja2.Environment(enable_async=is_async)
            for src, data, want in (("1 + x", {"x": 2}, 3), ("nothing", {}, None), ("x|default('d')", {}, "d")):
                try:
                    got = env.compile_expression(src)(**data)
                except Exception as ex:  # noqa
                    got = f"{type(ex).__name__}: {ex}"
                if got != want:
                    problems.append(f"Environment(enable_async={is_async}).compile_expression({src!r})(**{data}) -> {got!r}, documented {want!r}")
        bad, detail = native_expressions(w)
        return (bool(problems) or bad, "; ".join(problems[:3]) or detail)


class CompileExpression(VC):
    """Environment.compile_expression(source, undefined_to_none): the source is parsed as ONE expression in variable
    state (anything left over is a syntax error), wrapped as `result = <expr>` into a template compiled by this
    environment, and returned as a TemplateExpression carrying the flag."""
    prop = PROP
    target = "jinja2.environment:Environment.compile_expression"

    def __init__(self):
        VC.__init__(self, PROP, "C02.compile_expression")

    def configure(self, I):
        c = self
        from contracts import c01_parser as CP
        CP.install(I, lambda: None, abstract_stream=False, abstract_parse=False, summarise_loops=False)   # Node.__init__ inlined, setattr / zip models

        def parser_new(I_, st, args, kwargs, node):
            st.trace.append(Event("call", "Parser", list(args), dict(kwargs), c.parser))
            return [(st, c.parser)]

        I.specs[("fn", id(P.Parser))] = parser_new
        from jinja2.exceptions import TemplateSyntaxError

        def parse_expression(I_, st, args, kwargs, node):
            s2 = st.fork()
            e = Exc(None, (), tag="parse", within=TemplateSyntaxError, origin=getattr(node, "lineno", None))
            s2.trace.append(Event("call", "parse_expression!raise", list(args[1:]), dict(kwargs), e))
            st.trace.append(Event("call", "parse_expression", list(args[1:]), dict(kwargs), c.expr))
            return [(s2, Raised(e)), (st, c.expr)]

        I.specs["Parser.parse_expression"] = parse_expression
        I.specs["Expr.set_environment"] = A.abstract_fn("expr.set_environment", returns="obj")

        def handle_exception(I_, st, args, kwargs, node):
            e = Exc(TemplateSyntaxError, (), tag="handle_exception", origin=getattr(node, "lineno", None))
            st.trace.append(Event("call", "handle_exception", list(args[1:]), dict(kwargs), e))
            return [(st, Raised(e))]

        I.specs["Environment.handle_exception"] = handle_exception
        I.specs["Environment.from_string"] = A.abstract_fn("from_string", returns="obj")

        def texpr_new(I_, st, args, kwargs, node):
            r = st.alloc(HObj(ENV.TemplateExpression, fields={"_template": args[0], "_undefined_to_none": args[1] if len(args) > 1 else kwargs.get("undefined_to_none")}))
            st.trace.append(Event("call", "TemplateExpression", list(args), dict(kwargs), r))
            return [(st, r)]

        I.specs[("fn", id(ENV.TemplateExpression))] = texpr_new

    def setup(self, I, st):
        from contracts import c01_parser as CP
        self.env = A.obj(st, ENV.Environment, "env")
        self.eos = sym("stream.eos", "bool")
        cur = st.alloc(HObj(LX.Token, fields={"lineno": sym("cur.lineno", "int"), "type": sym("cur.type", "str"), "value": sym("cur.value", "str")}, path="cur"), initial=True)
        self.stream = A.obj(st, LX.TokenStream, "stream", fields={"eos": self.eos, "current": cur})
        self.parser = A.obj(st, P.Parser, "parser", fields={"stream": self.stream})
        self.expr = CP.abstract_node(st, N.Expr, "expr")
        self.source = sym("source", "str")
        self.u2n = sym("undefined_to_none", "bool")
        return [self.env, self.source, self.u2n], {}

    def p_result(self, pre, out):
        tr = [e for e in out.st.trace if e.kind == "call"]
        names = [e.name for e in tr]
        from jinja2.exceptions import TemplateSyntaxError
        if not names or names[0] != "Parser":
            return False
        pe = tr[0]
        ok_parser = (len(pe.args) >= 2 and _same(pe.args[0], self.env) and _same(pe.args[1], self.source)
                     and (pe.kwargs.get("state") == "variable" or (len(pe.args) > 4 and pe.args[4] == "variable")))
        if not ok_parser:
            return False
        if out.raised:
            # a syntax error (from the parser, or "chunk after expression"), reported through handle_exception(source=source)
            he = [e for e in tr if e.name == "handle_exception"]
            if len(he) != 1 or out.value is not he[0].result or not _same(he[0].kwargs.get("source"), self.source):
                return False
            if "parse_expression!raise" in names:
                return True
            return z3.Not(self.eos.t)
        if names != ["Parser", "parse_expression", "expr.set_environment", "from_string", "TemplateExpression"]:
            return False
        _, pex, se, fs, te = tr
        if pex.args or pex.kwargs or not (_same(se.args[0], self.expr) and _same(se.args[1], self.env)):
            return False
        # the template: Template([Assign(Name('result', 'store'), expr)])
        tpl = fs.args[1] if len(fs.args) > 1 else None
        st = out.st
        try:
            h = st.get(tpl)
            body = st.get(h.fields["body"])
            ok = h.cls is N.Template and body.concrete and len(body.items) == 1
            asg = st.get(body.items[0])
            tgt = st.get(asg.fields["target"])
            ok = ok and asg.cls is N.Assign and tgt.cls is N.Name and tgt.fields["name"] == "result" and tgt.fields["ctx"] == "store" and _same(asg.fields["node"], self.expr)
        except Exception:  # noqa
            ok = False
        if not ok or not _same(fs.args[0], self.env):
            return False
        f = st.get(out.value).fields if isinstance(out.value, Ref) else {}
        if not (_same(out.value, te.result) and _same(f.get("_template"), fs.result) and _same(f.get("_undefined_to_none"), self.u2n)):
            return False
        return self.eos.t

    posts = [("wraps_one_expression_as_result", p_result)]

    def concretize(self, model, pre, out):
        return {"eos": bool(model_value(model, self.eos.t))}

    def replay(self, w):
        return native_expressions(w)


class Resolve(VC):
    """Context.resolve_or_missing(key): vars[key] if present, else parent[key] if present, else `missing`;
    Context.resolve(key): the same, with `missing` replaced by environment.undefined(name=key)."""
    prop = PROP

    def __init__(self, fn):
        self.fn = fn
        self.target = f"jinja2.runtime:Context.{fn}"
        VC.__init__(self, PROP, f"C02.context.{fn}")

    def configure(self, I):
        I.inline.add("jinja2.runtime:Context.resolve_or_missing")
        I.specs["Environment.undefined"] = A.abstract_fn("undefined", returns="obj", tags=("undefined",))

    def setup(self, I, st):
        self.vars = A.adict(st, "vars", "str", "obj")
        self.parent = A.adict(st, "parent", "str", "obj")
        self.env = A.obj(st, ENV.Environment, "environment")
        self.ctx = A.obj(st, RT.Context, "self", fields={"vars": self.vars, "parent": self.parent, "environment": self.env})
        self.key = sym("key", "str")
        hv, hp = st.get(self.vars), st.get(self.parent)
        self.V, self.Pm = (hv.dom, hv.val), (hp.dom, hp.val)
        # requires: the stored values are template values, not the `missing` sentinel (C03: stores never bind `missing`)
        k = z3.String(fresh_name("k"))
        st.assume(z3.ForAll([k], z3.And(z3.Select(hv.val, k) != host_const(missing), z3.Select(hp.val, k) != host_const(missing))))
        return [self.ctx, self.key], {}

    def p_value(self, pre, out):
        if out.raised:
            return False
        k = self.key.t
        in_v, in_p = z3.Select(self.V[0], k), z3.Select(self.Pm[0], k)
        und = A.calls(out, "undefined")
        found = z3.If(in_v, z3.Select(self.V[1], k), z3.Select(self.Pm[1], k))
        if self.fn == "resolve_or_missing":
            if und:
                return False
            return to_term(out.value, "obj") == z3.If(z3.Or(in_v, in_p), found, host_const(missing))
        if und:
            e = und[0]
            ok = len(und) == 1 and not e.args[1:] and set(e.kwargs) == {"name"} and _same(e.kwargs["name"], self.key) and _same(out.value, e.result)
            return z3.And(z3.Not(in_v), z3.Not(in_p)) if ok else False
        return z3.And(z3.Or(in_v, in_p), to_term(out.value, "obj") == found)

    def p_frame(self, pre, out):
        st = out.st
        hv, hp = st.get(self.vars), st.get(self.parent)
        return hv.dom.eq(self.V[0]) and hv.val.eq(self.V[1]) and hp.dom.eq(self.Pm[0]) and hp.val.eq(self.Pm[1])

    posts = [("vars_then_parent_then_undefined", p_value), ("context_unchanged", p_frame)]

    def concretize(self, model, pre, out):
        k = self.key.t
        return {"fn": self.fn, "in_vars": bool(model_value(model, z3.Select(self.V[0], k))), "in_parent": bool(model_value(model, z3.Select(self.Pm[0], k)))}

    def replay(self, w):
        env = jinja2.Environment()
        parent = {"k": "from-parent"} if w.get("in_parent") else {}
        ctx = RT.Context(env, parent, "t", {})
        if w.get("in_vars"):
            ctx.vars["k"] = "from-vars"
        got = getattr(ctx, w.get("fn", "resolve"))("k")
        want = "from-vars" if w.get("in_vars") else ("from-parent" if w.get("in_parent") else None)
        if want is None:
            bad = not (got is missing if w.get("fn") == "resolve_or_missing" else (isinstance(got, jinja2.Undefined) and got._undefined_name == "k"))
        else:
            bad = got != want
        return (bad, f"Context.{w.get('fn')}('k') with vars={dict(ctx.vars)} parent={parent}: {got!r}")


# =====================================================================================================================

TASKS = (
    c02_parser.parser_tasks()
    + [FnTask(PROP, "C02.tables.operators", operator_tables, "table", native_expressions)]
    + emission_tasks()
    + [LookupOrder("getattr"), LookupOrder("getitem"), LookupOrder("getitem", "nonstr")]
    + [LookupOrder("getattr", sandbox=True), LookupOrder("getitem", sandbox=True), LookupOrder("getitem", "nonstr", sandbox=True)]
    + [CompileExpression(), ExprCall(), Resolve("resolve"), Resolve("resolve_or_missing")]
    + c02_eval.make_tasks(4) + c02_eval.EXTRA_TASKS
)

META = {
    "level": "other",
    "explanation": (
        "Proof of mechanism. Every step an expression takes is under contract on the real source: (1) each level of the parser's "
        "precedence chain against the documented grammar rule of that level (callee = next level, operator set, left fold, operands in "
        "source order; loops cut by induction over a generic loop-head state, the accumulator being identified from the result, not by "
        "name); (2) the operator tables from lexer symbol to Python operator, checked exhaustively; (3) the emission schema of every "
        "expression visitor (Python operator form, operands in source order, environment.getattr/getitem, literals, undefined(name=...), "
        "filter/test call shape, call signature); (4) Environment.getattr/getitem lookup order over the ghost trace of data-object lookups; "
        "(5) compile_expression / TemplateExpression.__call__ / Context.resolve. Composition (argued, not machine-checked): by structural "
        "induction on the expression tree - the parser builds for each construct the node the rule of its level prescribes with sub-trees "
        "produced by the next levels (1), the compiler emits for each node the documented Python form over the emitted forms of its "
        "children (3) using the agreed operator (2), Python evaluates that form with its own operator semantics (trusted), names and "
        "lookups go through (4)/(5). The bounded differential stand-in C02.bounded.eval exercises the composition on seeded whole "
        "expressions against an independent reference evaluator; it is reported as bounded, never as proved."),
    "assumptions": [
        "A-PY the emitted Python operator form means Python's operator semantics (trusted: CPython)",
        "token types come from the lexer's fixed vocabulary: no token TYPE is spelled `name:<word>` (C01 lexer facts)",
        "parse_* callees and TokenStream methods are used through their contracts (C01.parser.* / C01.stream.*): fresh operand node, stream left at an arbitrary token",
        "children's visit / as_const are used through abstract contracts (modular emission)",
        "stores never bind the `missing` sentinel into context.vars / parent (C03)",
        "built-in filters and tests themselves are C22 / C23",
        "docs are silent on: unary minus binding tighter than ** (taken from the property statement), `x[]` (empty subscript tuple), the "
        "precedence level of `~` (taken from the mechanism anchor: between +,- and *,/); every such decision of the reference evaluator is "
        "listed with the doc sentence it rests on in contracts.c02_eval.DOC_DECISIONS, every generator restriction in GENERATOR_RESTRICTIONS",
        "an expression hole of an emission schema is filled with text that is ONE Python operand: holds by construction for every visitor "
        "that opens with a parenthesis / call (checked by the schemas), checked on sample constants for visit_Const "
        "(C02.emit.Const.operand, bounded; it was refuted for negative numbers before /repo commit 78bbe8f)",
        "non-finite float constants nested inside folded containers are C08.const.roundtrip / has_safe_repr (F9); the bare ones are covered here",
    ],
    "findings": [
        "all repaired in /repo (known_findings.d/c02.json, list `fixed`): negative constant as left operand of ** (78bbe8f), keyword if / in / not "
        "after an argument-less test taken as its argument (a97bf40), And/Or/CondExpr/Concat.as_const raising at compile time under "
        "StrictUndefined (53bedfb); the obligations that found them are kept and now discharge",
    ],
    "trusted_base": ["pyvc symbolic executor and emission engine", "z3 / cvc5", "contracts.c01_parser abstract token stream model (shared with C01)",
                     "CPython ast module (parsing emitted text)"],
}
