"""C18  A sandboxed template never calls a callable the sandbox deems unsafe  (runtime half).

  C18.call.gate              SandboxedEnvironment.call(__context, __obj, *args, **kwargs) - for every number of positional and keyword
                             arguments: `__context.call(__obj, *args, **kwargs)` is invoked (once, with exactly these arguments, its
                             result returned) only after `is_safe_callable(__obj)` returned True; otherwise SecurityError is raised and
                             nothing is called.  is_safe_callable is abstract here, so an overridden check is covered.
  C18.is_safe_callable       False exactly when `unsafe_callable` or `alters_data` is present and truthy (documented default)
  C18.unsafe                 the decorator sets `unsafe_callable = True` on the function and returns the same function
  C18.context.call           runtime.Context.call calls exactly `__obj` (or its `__call__` when that carries a pass-arg marker) once,
                             with the documented first-argument injection, `_loop_vars`/`_block_vars` removed, StopIteration -> undefined
  C18.native.composition     table: the real pieces composed on live callables
  C18.native.every_call_checked  table: the verdict for one callable changes between successive calls on one environment
                             (flag set after first use, overriding check that looks at the receiver): every call is re-evaluated
  C18.is_safe_callable.*     false_when_marked / false_when_the_invoked_method_is_marked / true_otherwise (markers of obj and of the method the
                             call invokes: __call__, or __new__/__init__ of a class)
  C18.ext.gettext_alias[*]   the i18n alias `_` calls the `gettext` it resolves from the context through environment.call when sandboxed;
                             C18.scan.context_resolved_calls: no other library function calls a context-resolved value with context.call
  C18.namespace.special_names  Namespace.__getattribute__ never answers a special name `__x__` from the template-controlled attributes
  C18.native.context_resolved_calls / namespace_protocol / shared_bytecode_cache   native tables for the three families
C18.call.gate quantifies over ANY environment state (unknown attributes of the environment are opaque): no memo can replace the check.
"""
from __future__ import annotations

import z3

from pyvc.contract import VC, Res, FnTask
from pyvc.values import Sym, Ref, HObj, HDict, SSeq, Exc, Event, Obj, fresh, fresh_name, sym
from pyvc.interp import Raised, InterpBase
from pyvc.smt import to_term, model_value, host_const, str2obj
from pyvc.ops import attr_fn
from pyvc import abstract as A

from contracts import _sbx
from contracts._sbx import same, StarSeq, STARKW

import jinja2
import jinja2.sandbox as S
import jinja2.runtime as R
from jinja2.exceptions import SecurityError
from jinja2.utils import _PassArg

truthy = InterpBase.truthy_fn
NONE = host_const(None)


def calls(out, name):
    return [e for e in out.st.trace if e.kind == "call" and e.name == name]


def has_fn(name):
    return z3.Function(f"hasattr:{name}", Obj, z3.BoolSort())


def attr_presence_spec(I, names):
    """constant-name attribute reads on opaque values: present (value attr:<name>(o)) or AttributeError, decided by the
    predicate hasattr:<name>(o) so that repeated reads agree"""

    def getattr_obj(I_, st, args, kwargs, node):
        o, name = args
        if names is not None and name not in names:
            return None
        # attr:<name>(o) is an opaque object of its own: nothing relates ITS attributes to those of o (in particular the
        # markers of `o.__call__` are not the markers of o)
        out = []
        for s, b in I_.fork_bool(st, has_fn(name)(o.t)):
            if b:
                out.append((s, Sym(attr_fn(name)(o.t), "obj")))
            else:
                out.append((s, Raised(Exc(AttributeError, (name,), origin=getattr(node, "lineno", None)))))
        return out

    I.specs["getattr_obj"] = getattr_obj


# =====================================================================================================================
class CallGate(VC):
    prop = "C18"
    target = "jinja2.sandbox:SandboxedEnvironment.call"

    def __init__(self):
        super().__init__("C18", "C18.call.gate")

    def configure(self, I):
        _sbx.install_star_calls(I)
        I.specs["SandboxedEnvironment.is_safe_callable"] = A.abstract_fn("is_safe_callable", returns="bool")
        I.specs["Context.call"] = A.abstract_fn("context.call", returns="obj", raises=(("any", Exception),))
        # Everything else the method might consult is decided symbolically, so that the clause below is decided for ANY
        # environment state carried over from earlier calls: attributes of the callable are present-or-missing opaque
        # values, its type is an opaque class, unknown environment attributes (caches, memo sets ...) are opaque objects
        # whose membership tests / method calls return arbitrary results.
        attr_presence_spec(I, None)
        type_fn = z3.Function("py_type", Obj, Obj)
        from pyvc import models as M_

        def builtin_type(I_, st, args, kwargs, node):
            if len(args) == 1 and isinstance(args[0], Sym) and args[0].k == "obj":
                return [(st, Sym(type_fn(args[0].t), "obj"))]
            r = M_.instantiate(I_, st, type, args, kwargs, node)
            if r is None:
                from pyvc.values import Unsupported
                raise Unsupported("type(...)", node)
            return r

        I.specs[("fn", id(type))] = builtin_type
        I.specs["contains"] = lambda I_, st, args, kwargs, node: (
            [(st, fresh("opaque_contains", "bool"))] if isinstance(args[0], Sym) and args[0].k == "obj" else None)
        I.specs["method_obj"] = lambda I_, st, args, kwargs, node: A.abstract_fn("opaque." + str(args[1]), returns="obj")(I_, st, [args[0]] + list(args[2:]), kwargs, node)
        I.specs["call_obj"] = A.abstract_fn("opaque_call", returns="obj")
        I.specs["getitem_obj"] = lambda I_, st, args, kwargs, node: [(st, fresh("opaque_item", "obj"))]
        I.specs["setitem_obj"] = lambda I_, st, args, kwargs, node: [(st, None)]

    def setup(self, I, st):
        self.env = A.obj(st, S.SandboxedEnvironment, "env", open=True)
        self.ctx = A.obj(st, R.Context, "context")
        self.obj = sym("obj", "obj")
        self.args = A.sseq(st, "args", "obj")
        self.kwargs = A.adict(st, "kwargs", "obj", "obj")
        return "locals", {"__self": self.env, "__context": self.ctx, "__obj": self.obj, "args": self.args, "kwargs": self.kwargs}

    def p_gate(self, pre, out):
        """on EVERY invocation: is_safe_callable(__obj) is evaluated for this very object, before __context.call, and the call
        proceeds only if THAT evaluation returned true; nothing else (in particular no state of the environment) decides it,
        and nothing else is called"""
        ic, cc = calls(out, "is_safe_callable"), calls(out, "context.call")
        if calls(out, "opaque_call"):
            return False
        if len(ic) != 1 or ic[0].args[0] != self.env or len(ic[0].args) != 2 or not same(ic[0].args[1], self.obj) or ic[0].kwargs:
            return False
        r = to_term(ic[0].result, "bool")
        if cc:
            if len(cc) != 1 or out.st.trace.index(cc[0]) < out.st.trace.index(ic[0]):
                return False
            e = cc[0]
            a = e.args
            fwd = (len(a) == 3 and a[0] == self.ctx and same(a[1], self.obj) and isinstance(a[2], StarSeq)
                   and a[2].seq.arr.eq(self.args.arr) and a[2].seq.n.eq(self.args.n)
                   and set(e.kwargs) == {STARKW} and e.kwargs[STARKW] == self.kwargs)
            if not fwd:
                return False
            # the keyword dictionary is passed on unchanged
            h0, h1 = pre.get(self.kwargs), out.st.get(self.kwargs)
            if not (h1.dom.eq(h0.dom) and h1.val.eq(h0.val)):
                return False
            if out.raised:
                return r if out.value is e.result else False
            return r if same(out.value, e.result) else False
        if not out.raised or out.value.cls is not SecurityError:
            return False
        return z3.Not(r)

    posts = [("checked_before_called", p_gate)]

    def concretize(self, model, pre, out):
        ic = calls(out, "is_safe_callable")
        safe = True
        if ic:
            v = model_value(model, to_term(ic[0].result, "bool"))
            safe = v if isinstance(v, bool) else True
        n = model_value(model, self.args.n)
        return {"safe": safe, "n_args": max(0, min(3, n if isinstance(n, int) else 1)), "kwargs": ["k", "obj", "self", "context"]}

    def replay(self, w):
        return replay_call_gate(w)


def replay_call_gate(w):
    """The real SandboxedEnvironment.call, invoked repeatedly on ONE environment with the verdict of is_safe_callable changing
    between the calls (first accepted, then as in the witness), for a plain function, for fresh bound methods of one function
    and for a callable instance: every invocation must evaluate the check for its object and obey that evaluation."""
    probs, detail = [], ""

    class K:
        def m(self, *a, **k):
            ran.append("ran")

    class Inst:
        def __call__(self, *a, **k):
            ran.append("ran")

    def plain(*a, **k):
        ran.append("ran")

    carriers = [("plain function", lambda: plain), ("bound method (new bound method object per call)", lambda: K().m), ("callable instance", Inst)]
    args = tuple(range(w.get("n_args", 1)))
    kwargs = {k: i for i, k in enumerate(w.get("kwargs", ["k"]))}
    for desc, mk in carriers:
        for verdicts in ([w["safe"]], [True, w["safe"]], [True, True, w["safe"]], [False, w["safe"]]):
            log, ran = [], []
            it = iter(verdicts)
            cur = {}

            class Env(S.SandboxedEnvironment):
                def is_safe_callable(self, obj):
                    log.append(("check", obj))
                    return cur["v"]

            class Ctx:
                def call(_ctx, *a, **k):  # noqa: N805 (keyword arguments named `self` must pass through)
                    log.append(("context.call", a, k))
                    return "RESULT"

            env = Env()
            for i, v in enumerate(verdicts):
                cur["v"] = v
                del log[:]
                target = mk()
                try:
                    r = env.call(Ctx(), target, *args, **kwargs)
                    err = None
                except SecurityError:
                    r, err = None, "SecurityError"
                except Exception as ex:
                    r, err = None, type(ex).__name__
                if v:
                    want = [("check", target), ("context.call", (target,) + args, kwargs)]
                    bad = log != want or r != "RESULT" or err is not None
                else:
                    want = [("check", target)]
                    bad = log != want or err != "SecurityError"
                if bad:
                    probs.append(f"{desc}, invocation {i + 1} of verdicts {verdicts}: events {[l[0] for l in log]}, result {r!r}, error {err}; "
                                 f"contract: {[x[0] for x in want]}" + ("" if v else " then SecurityError"))
    return (bool(probs), "SandboxedEnvironment.call: " + ("; ".join(probs[:3]) if probs else "every invocation evaluated is_safe_callable for its object and obeyed it"))


# =====================================================================================================================
TYPE_FN = z3.Function("py_type", Obj, Obj)


class IsSafeCallable(VC):
    """"By default callables are considered safe unless decorated with unsafe.  This also recognizes the Django convention of
    setting func.alters_data = True."  `unsafe` "marks a function or method as unsafe" and the sandbox documentation says
    "Decorate methods with unsafe to prevent calling them from templates": calling an object runs its __call__ method, calling a
    class runs __new__ / __init__, so a marker on the method that the call invokes counts like a marker on the object.

      M(x)            x.unsafe_callable or x.alters_data is present and truthy
      invoked(obj)    obj.__new__, obj.__init__ for a class;  obj.__call__ otherwise (the bound method shows the function's markers)
      is_safe_callable(obj)  ==  not (M(obj) or M(some invoked(obj)))
    """
    prop = "C18"
    target = "jinja2.sandbox:SandboxedEnvironment.is_safe_callable"

    def __init__(self):
        super().__init__("C18", "C18.is_safe_callable")

    def configure(self, I):
        # every constant-name attribute of the opaque callable can be read (present or AttributeError); isinstance tests on
        # it are uninterpreted predicates, so the contract holds for functions, methods, classes and callable instances alike
        attr_presence_spec(I, None)

        def any_spec(I_, st, args, kwargs, node):
            items = I_.iter_concrete(st, args[0], node)
            ts = []
            for x in items:
                t = I_.truth_term(st, x)
                if t is None:
                    from pyvc.values import Unsupported
                    raise Unsupported("any() over a value with __bool__", node)
                ts.append(z3.BoolVal(t) if isinstance(t, bool) else t)
            return [(st, Sym(z3.Or(*ts) if ts else z3.BoolVal(False), "bool"))]

        I.specs[("fn", id(any))] = any_spec
        from pyvc import models as M_

        def builtin_type(I_, st, args, kwargs, node):
            if len(args) == 1 and isinstance(args[0], Sym) and args[0].k == "obj":
                return [(st, Sym(TYPE_FN(args[0].t), "obj"))]
            return M_.instantiate(I_, st, type, args, kwargs, node)

        I.specs[("fn", id(type))] = builtin_type

    def setup(self, I, st):
        from pyvc.ops import isinst_fn
        self.env = A.obj(st, S.SandboxedEnvironment, "env")
        self.obj = sym("obj", "obj")
        o = self.obj.t
        self.istype = isinst_fn(type)(o)
        # every class has __new__ and __init__
        st.assume(z3.Implies(self.istype, z3.And(has_fn("__new__")(o), has_fn("__init__")(o))))
        return [self.env, self.obj], {}

    def M(self, x):
        return z3.Or(z3.And(has_fn("unsafe_callable")(x), truthy(attr_fn("unsafe_callable")(x))),
                     z3.And(has_fn("alters_data")(x), truthy(attr_fn("alters_data")(x))))

    def marked(self):
        return self.M(self.obj.t)

    def invoked_marked(self):
        o = self.obj.t
        return z3.If(self.istype, z3.Or(self.M(attr_fn("__new__")(o)), self.M(attr_fn("__init__")(o))),
                     z3.And(has_fn("__call__")(o), self.M(attr_fn("__call__")(o))))

    def type_call_marked(self):
        """`obj(...)` runs type(obj).__call__ - for a class that is the metaclass's __call__, for an instance the class's __call__ even
        when an instance attribute of that name shadows it (hunt i2/C18_2)"""
        t = TYPE_FN(self.obj.t)
        return z3.And(has_fn("__call__")(t), self.M(attr_fn("__call__")(t)))

    def p_marked(self, pre, out):
        if out.raised:
            return False
        return z3.Implies(self.marked(), z3.Not(_sbx.ret_term(out.value)))

    def p_invoked(self, pre, out):
        if out.raised:
            return False
        return z3.Implies(self.invoked_marked(), z3.Not(_sbx.ret_term(out.value)))

    def p_type_call(self, pre, out):
        if out.raised:
            return False
        return z3.Implies(self.type_call_marked(), z3.Not(_sbx.ret_term(out.value)))

    def p_otherwise(self, pre, out):
        if out.raised:
            return False
        return z3.Implies(z3.Not(z3.Or(self.marked(), self.invoked_marked(), self.type_call_marked())), _sbx.ret_term(out.value))

    posts = [("false_when_marked", p_marked), ("false_when_the_invoked_method_is_marked", p_invoked),
             ("false_when_the_call_method_of_its_type_is_marked", p_type_call), ("true_otherwise", p_otherwise)]

    def concretize(self, model, pre, out):
        o = self.obj.t

        def b(t):
            v = model_value(model, t)
            return v if isinstance(v, bool) else False
        import types as _t
        from pyvc.ops import isinst_fn
        kind = "instance"
        if any(b(isinst_fn(c)(o)) for c in (_t.FunctionType, _t.MethodType, _t.BuiltinFunctionType, _t.BuiltinMethodType)):
            kind = "function"
        elif b(isinst_fn(type)(o)):
            kind = "class"
        return {"unsafe_callable": (b(truthy(attr_fn("unsafe_callable")(o))) if b(has_fn("unsafe_callable")(o)) else None),
                "alters_data": (b(truthy(attr_fn("alters_data")(o))) if b(has_fn("alters_data")(o)) else None), "kind": kind,
                # markers carried by obj.__call__ (a different object): they say nothing about obj
                "call_marked": bool(b(has_fn("__call__")(o)) and any(
                    b(has_fn(k)(attr_fn("__call__")(o))) and b(truthy(attr_fn(k)(attr_fn("__call__")(o)))) for k in ("unsafe_callable", "alters_data"))),
                "type_call_marked": bool(b(has_fn("__call__")(TYPE_FN(o))) and any(
                    b(has_fn(k)(attr_fn("__call__")(TYPE_FN(o)))) and b(truthy(attr_fn(k)(attr_fn("__call__")(TYPE_FN(o))))) for k in ("unsafe_callable", "alters_data"))),
                "init_marked": bool(kind == "class" and any(
                    b(has_fn(k)(attr_fn(m)(o))) and b(truthy(attr_fn(k)(attr_fn(m)(o)))) for k in ("unsafe_callable", "alters_data") for m in ("__init__", "__new__")))}

    def finding_key(self, res):
        w = res.witness or {}
        own = bool(w.get("unsafe_callable")) or bool(w.get("alters_data"))
        if "call_method_of_its_type" in res.name:
            return "type(obj).__call__ marked"
        return f"own markers={own}/invoked method marked={bool(w.get('call_marked') or w.get('init_marked'))}"

    def replay(self, w):
        return replay_is_safe_callable(w)


def marked_carriers(marks):
    """live callables of every kind carrying the given markers {name: value}: plain function, bound method (marker on the
    function), callable instance (marker on the instance / on its class), functools.partial, class"""
    import functools

    def f(*a, **k):
        return 1

    class K:
        def m(self, *a, **k):
            return 1

    class OnInstance:
        def __call__(self, *a, **k):
            return 1

    class OnClass:
        def __call__(self, *a, **k):
            return 1

    class AClass:
        pass

    inst = OnInstance()
    part = functools.partial(f, 1)
    for k, v in marks.items():
        setattr(f, k, v)
        setattr(K.m, k, v)
        setattr(inst, k, v)
        setattr(OnClass, k, v)
        setattr(part, k, v)
        setattr(AClass, k, v)
    return {"function": [("plain function", f), ("bound method", K().m)],
            "instance": [("callable instance, marker on the instance", inst), ("callable instance, marker on its class", OnClass()),
                         ("functools.partial", part)],
            "class": [("class", AClass)]}


def replay_is_safe_callable(w):
    marks = {k: w[k] for k in ("unsafe_callable", "alters_data") if w.get(k) is not None}
    want = not any(bool(v) for v in marks.values())
    env = S.SandboxedEnvironment()
    carriers = marked_carriers(marks)
    order = [w.get("kind", "instance")] + [k for k in carriers if k != w.get("kind", "instance")]
    probs = []
    # the inputs of hunt report C18_2: the marker sits on the method that the call invokes
    class FlaggedCall:
        @S.unsafe
        def __call__(self, *a, **k):
            return 1

    class Dj:
        def __call__(self):
            return 1
    Dj.__call__.alters_data = True

    class FlaggedInit:
        @S.unsafe
        def __init__(self):
            pass

    class Meta(type):
        @S.unsafe
        def __call__(cls, *a):
            return "made"

    class Registry(metaclass=Meta):
        pass

    class Job:
        def __call__(self):
            return "ran"
    Job.__call__.alters_data = True
    job = Job()
    job.__dict__["__call__"] = lambda: "harmless"
    if not any(bool(v) for v in marks.values()):
        for desc, c in (("class whose metaclass __call__ is decorated with unsafe", Registry), ("instance whose marked class __call__ is shadowed by an instance attribute", job)):
            got = env.is_safe_callable(c)
            if bool(got):
                probs.append(f"is_safe_callable({desc}) = {got}: calling it runs the marked type(obj).__call__; expected False")
    if not any(bool(v) for v in marks.values()):
        for desc, c in (("instance whose __call__ method is decorated with unsafe", FlaggedCall()), ("instance whose __call__ has alters_data", Dj()),
                        ("class whose __init__ is decorated with unsafe", FlaggedInit)):
            got = env.is_safe_callable(c)
            if bool(got):
                probs.append(f"is_safe_callable({desc}) = {got}: the call written in a template runs the marked method; documented: False")
    for kind in order:
        for desc, c in carriers[kind]:
            got = env.is_safe_callable(c)
            if bool(got) != want:
                probs.append(f"is_safe_callable({desc}) with {marks} = {got}; documented: {want}")
    return (bool(probs), "; ".join(probs[:3]) if probs else f"is_safe_callable agrees with the documentation for every carrier of {marks}")


class UnsafeDecorator(VC):
    """"Marks a function or method as unsafe": sets unsafe_callable = True on it and returns it"""
    prop = "C18"
    target = "jinja2.sandbox:unsafe"

    def __init__(self):
        super().__init__("C18", "C18.unsafe")

    def configure(self, I):
        def setattr_obj(I_, st, args, kwargs, node):
            st.trace.append(Event("write", "setattr_obj", args, lineno=getattr(node, "lineno", None)))
            return [(st, None)]
        I.specs["setattr_obj"] = setattr_obj

    def setup(self, I, st):
        self.f = sym("f", "obj")
        return [self.f], {}

    def p_post(self, pre, out):
        if out.raised or not same(out.value, self.f):
            return False
        ws = [e for e in out.st.trace if e.kind == "write"]
        return len(ws) == 1 and same(ws[0].args[0], self.f) and ws[0].args[1] == "unsafe_callable" and ws[0].args[2] is True

    posts = [("marks_and_returns_same", p_post)]

    def concretize(self, model, pre, out):
        return {}

    def replay(self, w):
        def f():
            return 1
        g = S.unsafe(f)
        ok = g is f and getattr(f, "unsafe_callable", None) is True and set(vars(f)) == {"unsafe_callable"}
        return (not ok, f"unsafe(f) is f: {g is f}; vars(f) = {vars(f)}")


# =====================================================================================================================
K_LV = str2obj(z3.StringVal("_loop_vars"))
K_BV = str2obj(z3.StringVal("_block_vars"))
MARKERS = {"context": _PassArg.context, "eval_context": _PassArg.eval_context, "environment": _PassArg.environment}


class ContextCall(VC):
    """Context.call(__obj, *args, **kwargs): "Call the callable with the arguments and keyword arguments provided but inject the
    active context or environment as first argument if the callable has pass_context or pass_environment."  For every number of
    positional / keyword arguments."""
    prop = "C18"
    target = "jinja2.runtime:Context.call"
    timeout_quick = 20000
    expect_paths_min = 6

    def __init__(self):
        super().__init__("C18", "C18.context.call")

    def configure(self, I):
        _sbx.install_star_calls(I)
        I.inline.add("jinja2.utils:_PassArg.from_obj")
        attr_presence_spec(I, ("__call__", "jinja_pass_arg"))
        I.specs["Environment.undefined"] = A.abstract_fn("environment.undefined", returns="obj", tags=("undefined",))

        def derived(I_, st, args, kwargs, node):
            ref = st.alloc(HObj(R.Context, fields={"environment": self.env, "eval_ctx": self.eval_ctx}, path="derived"))
            A.call_event(st, "derived", args, kwargs, ref, node)
            return [(st, ref)]

        I.specs["Context.derived"] = derived

        def call_obj(I_, st, args, kwargs, node):
            ln = getattr(node, "lineno", None)
            h = st.get(kwargs[STARKW]) if STARKW in kwargs else None
            snap = (h.dom, h.val) if h is not None else None
            out = []
            for cls, within, excl in ((StopIteration, None, ()), (None, Exception, (StopIteration,))):
                s = st.fork()
                e = Exc(cls, (), tag="callee", within=within or BaseException, origin=ln)
                e.excluded = excl
                e.from_call = "call_obj"
                s.trace.append(Event("call", "call_obj", args, kwargs, e, lineno=ln, held=(snap,)))
                out.append((s, Raised(e)))
            r = fresh("callee_result", "obj")
            st.trace.append(Event("call", "call_obj", args, kwargs, r, lineno=ln, held=(snap,)))
            out.append((st, r))
            return out

        I.specs["call_obj"] = call_obj

    def setup(self, I, st):
        self.env = A.obj(st, jinja2.Environment, "environment")
        self.eval_ctx = sym("eval_ctx", "obj")
        self.ctx = A.obj(st, R.Context, "context", fields={"environment": self.env, "eval_ctx": self.eval_ctx})
        self.obj = sym("obj", "obj")
        self.args = A.sseq(st, "args", "obj")
        self.kwargs = A.adict(st, "kwargs", "obj", "obj")
        h = st.get(self.kwargs)
        self.dom0, self.val0 = h.dom, h.val
        return "locals", {"__self": self.ctx, "__obj": self.obj, "args": self.args, "kwargs": self.kwargs}

    # ---- spec vocabulary ----------------------------------------------------------------------------------------
    def marker(self, x):
        return z3.If(has_fn("jinja_pass_arg")(x), attr_fn("jinja_pass_arg")(x), NONE)

    def spec_callee(self):
        o = self.obj.t
        c = attr_fn("__call__")(o)
        use_call = z3.And(has_fn("__call__")(o), self.marker(c) != NONE)
        return z3.If(use_call, c, o)

    def p_once(self, pre, out):
        co = calls(out, "call_obj")
        if len(co) != 1:
            return False
        e = co[0]
        callee = e.args[0]
        if not isinstance(callee, Sym):
            return False
        want = self.spec_callee()
        pa = self.marker(want)
        fs = [callee.t == want]
        # ---- positional arguments
        if len(e.args) != 2 or not isinstance(e.args[1], StarSeq):
            return False
        seq = e.args[1].seq
        dv = calls(out, "derived")
        member = {k: host_const(v) for k, v in MARKERS.items()}
        if seq.arr.eq(self.args.arr) and seq.n.eq(self.args.n):
            fs.append(z3.And(*[pa != m for m in member.values()]))
            if dv:
                return False
        else:
            cat = [c for c in out.st.ghost.get("concat", []) if c[0].arr.eq(seq.arr)]
            if len(cat) != 1 or len(cat[0][1]) != 1 or not cat[0][2].arr.eq(self.args.arr) or not cat[0][2].n.eq(self.args.n) or not seq.n.eq(self.args.n + 1):
                return False
            x = cat[0][1][0]
            if isinstance(x, Ref) and x == self.env:
                fs.append(pa == member["environment"])
                if dv:
                    return False
            elif isinstance(x, Sym) and same(x, self.eval_ctx):
                fs.append(pa == member["eval_context"])
                if dv:
                    return False
            elif isinstance(x, Ref) and (x == self.ctx or any(x == d.result for d in dv)):
                fs.append(pa == member["context"])
                # "the active context should have access to variables set in loops and blocks without mutating the context itself"
                lv = z3.And(z3.Select(self.dom0, K_LV), truthy(z3.Select(self.val0, K_LV)))
                bv = z3.And(z3.Select(self.dom0, K_BV), truthy(z3.Select(self.val0, K_BV)))
                prev = self.ctx
                seen_lv = seen_bv = False
                for d in dv:
                    if d.args[0] != prev or len(d.args) != 2 or not isinstance(d.args[1], Sym):
                        return False
                    if d.args[1].t.eq(z3.Select(self.val0, K_LV)) and not seen_lv and not seen_bv:
                        seen_lv = True
                    elif d.args[1].t.eq(z3.Select(self.val0, K_BV)) and not seen_bv:
                        seen_bv = True
                    else:
                        return False
                    prev = d.result
                if x != prev:
                    return False
                fs.append(lv if seen_lv else z3.Not(lv))
                fs.append(bv if seen_bv else z3.Not(bv))
            else:
                return False
        # ---- keyword arguments: the given ones minus the two internal keys
        if set(e.kwargs) != {STARKW} or e.kwargs[STARKW] != self.kwargs:
            return False
        dom1, val1 = e.held[0]
        s = z3.Const("kw_q", Obj)
        fs.append(z3.ForAll([s], z3.Select(dom1, s) == z3.And(z3.Select(self.dom0, s), s != K_LV, s != K_BV)))
        fs.append(z3.ForAll([s], z3.Implies(z3.Select(dom1, s), z3.Select(val1, s) == z3.Select(self.val0, s))))
        # ---- result
        ud = calls(out, "environment.undefined")
        if isinstance(e.result, Exc):
            if e.result.cls is StopIteration:
                if out.raised or len(ud) != 1 or not same(out.value, ud[0].result) or ud[0].args[0] != self.env:
                    return False
            else:
                src = getattr(out.value, "src", out.value) if out.raised else None
                if not out.raised or ud or not (out.value is e.result or src is e.result):
                    return False
        else:
            if out.raised or ud or not same(out.value, e.result):
                return False
        return z3.And(*fs)

    posts = [("calls_exactly_the_callable_once", p_once)]

    def concretize(self, model, pre, out):
        o = self.obj.t
        c = attr_fn("__call__")(o)
        # prefer a counterexample that is observable natively: calling obj and calling an unmarked obj.__call__ cannot be told
        # apart from outside, so ask for a model in which the markers of the two differ
        try:
            from pyvc.smt import check_sat
            f = self.p_once(pre, out)
            if f is not False and f is not True and f is not None:
                for pref in (z3.And(self.marker(o) == host_const(_PassArg.context), self.marker(c) == NONE, has_fn("__call__")(o)),
                             z3.And(self.marker(o) != self.marker(c), has_fn("__call__")(o))):
                    r = check_sat(list(out.st.pc) + [z3.Not(f), pref], 3000, 0, use_cvc5=False)
                    if r.status == "sat":
                        model = r.model
                        break
        except Exception:
            pass

        def b(t):
            v = model_value(model, t)
            return v if isinstance(v, bool) else False

        def mk(x):
            if not b(has_fn("jinja_pass_arg")(x)):
                return None
            v = str(model.eval(attr_fn("jinja_pass_arg")(x), model_completion=True))
            for k, m in MARKERS.items():
                if v == str(model.eval(host_const(m), model_completion=True)):
                    return k
            return "other"

        n = model_value(model, self.args.n)
        co = calls(out, "call_obj")
        return {"has_call": b(has_fn("__call__")(o)), "call_marker": mk(c), "obj_marker": mk(o),
                "n_args": max(0, min(3, n if isinstance(n, int) else 1)),
                "loop_vars": b(z3.And(z3.Select(self.dom0, K_LV), truthy(z3.Select(self.val0, K_LV)))),
                "block_vars": b(z3.And(z3.Select(self.dom0, K_BV), truthy(z3.Select(self.val0, K_BV)))),
                "stop_iteration": bool(co and isinstance(co[0].result, Exc) and co[0].result.cls is StopIteration)}

    def replay(self, w):
        return replay_context_call(w)


def replay_context_call(w):
    """real Context.call on a live callable built from the witness, against the documented behaviour"""
    env = jinja2.Environment()
    ctx = env.from_string("").new_context({"base": 1})
    log = []

    def body(tag):
        def run(*a, **k):
            log.append((tag, a, k))
            if w.get("stop_iteration"):
                raise StopIteration
            return "R"
        return run

    def mark(f, m):
        if m in MARKERS:
            f.jinja_pass_arg = MARKERS[m]
        elif m == "other":
            f.jinja_pass_arg = "something-else"
        return f

    if w.get("has_call", True):
        class C:
            pass
        C.__call__ = mark((lambda self, *a, **k: body("__call__")(*a, **k)), w.get("call_marker"))
        obj = C()
        if w.get("obj_marker"):
            mark(obj, w.get("obj_marker"))
        eff_marker = w.get("call_marker") if w.get("call_marker") else w.get("obj_marker")
    else:
        # a callable without __call__ does not exist natively; the nearest: a plain function (its __call__ has no marker)
        obj = mark(body("obj"), w.get("obj_marker"))
        eff_marker = w.get("obj_marker")
    args = tuple("a%d" % i for i in range(w.get("n_args", 1)))
    kwargs = {"k": 1}
    if w.get("loop_vars"):
        kwargs["_loop_vars"] = {"lv": 1}
    if w.get("block_vars"):
        kwargs["_block_vars"] = {"bv": 2}
    try:
        r = ctx.call(obj, *args, **kwargs)
        err = None
    except Exception as ex:
        r, err = None, type(ex).__name__
    probs = []
    if len(log) != 1:
        probs.append(f"the callable ran {len(log)} times")
    else:
        tag, a, k = log[0]
        if k != {"k": 1}:
            probs.append(f"keyword arguments {k}")
        if eff_marker == "context":
            if not a or not isinstance(a[0], R.Context) or a[1:] != args:
                probs.append(f"positional arguments {a}")
            else:
                if bool(w.get("loop_vars")) != ("lv" in a[0]) or bool(w.get("block_vars")) != ("bv" in a[0]) or "lv" in ctx or "bv" in ctx:
                    probs.append("loop/block variables not visible in (only) the derived context")
        elif eff_marker == "eval_context":
            if a != (ctx.eval_ctx,) + args:
                probs.append(f"positional arguments {a}")
        elif eff_marker == "environment":
            if a != (env,) + args:
                probs.append(f"positional arguments {a}")
        elif a != args:
            probs.append(f"positional arguments {a}")
    if w.get("stop_iteration"):
        if not isinstance(r, jinja2.Undefined):
            probs.append(f"StopIteration gave {r!r} / {err}")
    elif r != "R":
        probs.append(f"result {r!r} / {err}")
    return (bool(probs), "Context.call: " + ("; ".join(probs) if probs else "as documented") + f" [{w}]")


# =====================================================================================================================
def native_composition(task, tier, seed):
    """table: the real pieces composed - a callable marked by the real decorator / by alters_data is refused by the real
    environment.call before it runs, in the default and in an overriding environment; unmarked callables run exactly once"""
    out = []
    ran = []

    def plain(*a, **k):
        ran.append("plain")
        return "ok"

    @S.unsafe
    def marked(*a, **k):
        ran.append("marked")

    def django(*a, **k):
        ran.append("django")
    django.alters_data = True

    class Obj:
        @S.unsafe
        def method(self):
            ran.append("method")

        def fine(self):
            ran.append("fine")
            return "ok"

    class Action:  # Django style: the callable object itself is flagged, on the class
        alters_data = True

        def __call__(self, *a, **k):
            ran.append("action")

    class Hook:
        def __call__(self, *a, **k):
            ran.append("hook")
            return "ok"

    class MarkedCall:  # hunt C18_2: the __call__ method itself is decorated
        @S.unsafe
        def __call__(self, *a, **k):
            ran.append("markedcall")

    class MarkedInit:
        @S.unsafe
        def __init__(self, *a, **k):
            ran.append("markedinit")

    class Meta(type):  # hunt i2/C18_2: what a call really runs is type(obj).__call__
        @S.unsafe
        def __call__(cls, *a, **k):
            ran.append("metacall")

    class Registry(metaclass=Meta):
        pass

    class Job:
        def __call__(self, *a, **k):
            ran.append("shadowed")
    Job.__call__.alters_data = True
    job = Job()
    job.__dict__["__call__"] = lambda *a, **k: "harmless"

    flagged_hook = Hook()
    flagged_hook.unsafe_callable = True
    import functools
    part = functools.partial(plain)
    part.alters_data = True
    ok_part = functools.partial(Obj().fine)

    class Deny(S.SandboxedEnvironment):
        def is_safe_callable(self, obj):
            return False

    bad = []
    for envcls in (S.SandboxedEnvironment, S.ImmutableSandboxedEnvironment, Deny):
        env = envcls()
        ctx = env.from_string("").new_context({})
        for name, fn, safe in (("plain", plain, True), ("marked", marked, False), ("django", django, False), ("method", Obj().method, False), ("fine", Obj().fine, True),
                               ("action", Action(), False), ("hook", flagged_hook, False), ("hook", Hook(), True), ("plain", part, False), ("fine", ok_part, True),
                               ("markedcall", MarkedCall(), False), ("markedinit", MarkedInit, False),
                               ("metacall", Registry, False), ("shadowed", job, False)):
            del ran[:]
            want_run = safe and envcls is not Deny
            try:
                r = env.call(ctx, fn)
                err = None
            except SecurityError:
                err = "SecurityError"
            except Exception as ex:
                err = type(ex).__name__
            if want_run and (ran != [name] or err):
                bad.append((envcls.__name__, name, list(ran), err))
            if not want_run and (ran or err != "SecurityError"):
                bad.append((envcls.__name__, name, list(ran), err))
    nm = "C18.native.composition"
    if bad:
        out.append(Res(nm, "refuted", "table", 0, f"{bad[:4]}", "table", {"cases": [list(map(str, b)) for b in bad]}))
    else:
        out.append(Res(nm, "discharged", "table", 0, "3 environments x 12 callables (functions, methods, callable instances flagged on instance / class / __call__, class with flagged __init__, partials): refused ones never ran, allowed ones ran once", "table"))
    return out


def native_every_call_checked(task, tier, seed):
    """table: on one real environment the verdict for a callable legitimately changes between two template calls - a function
    flagged alters_data after its first use; an overriding is_safe_callable that looks at the receiver of a bound method; a
    callable instance flagged later - and the later call is refused before the callable runs (sync and async templates)"""
    bad = []
    for is_async in (False, True):
        ran = []

        def fn():
            ran.append("fn")
            return "ok"

        class Account:
            def __init__(self, locked):
                self.locked = locked

            def withdraw(self):
                ran.append("withdraw:%s" % self.locked)
                return "ok"

        class Hook:
            def __call__(self):
                ran.append("hook")
                return "ok"

        class Env(S.SandboxedEnvironment):
            def is_safe_callable(self, obj):
                recv = getattr(obj, "__self__", None)
                if isinstance(recv, Account) and recv.locked:
                    return False
                return super().is_safe_callable(obj)

        env = Env(enable_async=is_async)
        t = env.from_string("{{ f() }}")

        def attempt(label, **ctx):
            del ran[:]
            try:
                t.render(**ctx)
                return (label, "rendered", list(ran))
            except SecurityError:
                return (label, "SecurityError", list(ran))
            except Exception as ex:
                return (label, type(ex).__name__, list(ran))

        seq = []
        seq.append((attempt("function, unflagged", f=fn), "rendered"))
        fn.alters_data = True
        seq.append((attempt("same function after alters_data = True", f=fn), "SecurityError"))
        del fn.alters_data
        seq.append((attempt("same function, flag removed", f=fn), "rendered"))
        seq.append((attempt("bound method, open account", f=Account(False).withdraw), "rendered"))
        seq.append((attempt("same method, locked account", f=Account(True).withdraw), "SecurityError"))
        acc = Account(False)
        seq.append((attempt("method of one account, open", f=acc.withdraw), "rendered"))
        acc.locked = True
        seq.append((attempt("method of the same account after locking", f=acc.withdraw), "SecurityError"))
        h = Hook()
        seq.append((attempt("callable instance, unflagged", f=h), "rendered"))
        h.unsafe_callable = True
        seq.append((attempt("same instance after unsafe_callable = True", f=h), "SecurityError"))
        for (label, got, ran_), want in seq:
            if got != want or (want == "SecurityError" and ran_):
                bad.append(f"{'async' if is_async else 'sync'}: {label}: {got}, ran {ran_} (expected {want}{' before anything runs' if want == 'SecurityError' else ''})")
    nm = "C18.native.every_call_checked"
    if bad:
        return [Res(nm, "refuted", "table", 0, "; ".join(bad[:3]), "table", {"cases": bad[:6]})]
    return [Res(nm, "discharged", "table", 0, "9 successive calls x sync/async on one environment: every verdict re-evaluated", "table")]


def replay_every_call(w):
    rs = native_every_call_checked(None, "quick", 0)
    return (rs[0].status == "refuted", rs[0].detail)


# =====================================================================================================================
# library functions of jinja2 itself that call a value taken from the template-controlled context
# =====================================================================================================================
class GettextAlias(VC):
    """ext._gettext_alias (the global `_` of the i18n extension) looks `gettext` up in the CONTEXT - a top-level {% set %} of the
    template writes there - and calls it.  In a sandboxed environment that call must pass the same gate as a call written in the
    template: environment.call(context, func, *args, **kwargs), never context.call directly."""
    prop = "C18"
    target = "jinja2.ext:_gettext_alias"

    def __init__(self, sandboxed):
        self.sandboxed = sandboxed
        super().__init__("C18", f"C18.ext.gettext_alias[{'sandboxed' if sandboxed else 'plain'} environment]")

    def configure(self, I):
        _sbx.install_star_calls(I)
        I.specs["Context.resolve"] = A.abstract_fn("context.resolve", returns="obj")
        I.specs["Context.call"] = A.abstract_fn("context.call", returns="obj", raises=(("any", Exception),))
        cls = "SandboxedEnvironment" if self.sandboxed else "Environment"
        I.specs[f"{cls}.call"] = A.abstract_fn("environment.call", returns="obj", raises=((SecurityError if self.sandboxed else ("any", Exception)),))

    def setup(self, I, st):
        ecls = S.SandboxedEnvironment if self.sandboxed else jinja2.Environment
        self.env = A.obj(st, ecls, "environment", fields={"sandboxed": self.sandboxed})
        self.ctx = A.obj(st, R.Context, "context", fields={"environment": self.env})
        self.args = A.sseq(st, "args", "obj")
        self.kwargs = A.adict(st, "kwargs", "obj", "obj")
        return "locals", {"__context": self.ctx, "args": self.args, "kwargs": self.kwargs}

    def p_gated(self, pre, out):
        rs, cc, ec = calls(out, "context.resolve"), calls(out, "context.call"), calls(out, "environment.call")
        if len(rs) != 1 or rs[0].args[1:] != ("gettext",):
            return False
        func = rs[0].result
        if self.sandboxed:
            if cc or len(ec) != 1:
                return False  # the resolved value is called without the gate
            e, a = ec[0], ec[0].args
            pos = a[1:]
            shape = len(pos) == 3 and pos[0] == self.ctx and same(pos[1], func) and isinstance(pos[2], StarSeq) and pos[2].seq.arr.eq(self.args.arr)
        else:
            if ec or len(cc) != 1:
                return False
            e, a = cc[0], cc[0].args
            pos = a[1:]
            shape = a[0] == self.ctx and len(pos) == 2 and same(pos[0], func) and isinstance(pos[1], StarSeq) and pos[1].seq.arr.eq(self.args.arr)
        if not shape or set(e.kwargs) != {STARKW} or e.kwargs[STARKW] != self.kwargs:
            return False
        if out.raised:
            return out.value is e.result
        return same(out.value, e.result)

    posts = [("resolved_callable_goes_through_the_gate", p_gated)]

    def concretize(self, model, pre, out):
        return {"family": "gettext_alias"}

    def finding_key(self, res):
        return "gettext_alias"

    def replay(self, w):
        return replay_context_resolved_calls(w)


def replay_context_resolved_calls(w=None):
    """the input of hunt report C18_1: `gettext` assigned by the template, called through the alias `_`"""
    ran = []

    @S.unsafe
    def danger(*a, **k):
        ran.append("danger")
        return "RAN"

    class Obj:
        def delete(self, *a):
            ran.append("delete")
            return "deleted"
        delete.alters_data = True

    def rejected(*a):
        ran.append("rejected")
        return "RAN2"

    class Env(S.SandboxedEnvironment):
        def is_safe_callable(self, obj):
            return obj is not rejected and super().is_safe_callable(obj)

    probs = []
    for is_async in (False, True):
        for newstyle in (None, False, True):
            env = Env(extensions=["jinja2.ext.i18n"], enable_async=is_async)
            if newstyle is not None:
                env.install_null_translations(newstyle=newstyle)
            for src in ("{% set gettext = danger %}{{ _('x') }}", "{% set gettext = obj.delete %}{{ _('all') }}", "{% set gettext = rejected %}{{ _('x') }}",
                        "{% with gettext = danger %}{{ _('x') }}{% endwith %}"):
                del ran[:]
                try:
                    r = env.from_string(src).render(danger=danger, obj=Obj(), rejected=rejected)
                except SecurityError:
                    r = "<SecurityError>"
                except Exception as ex:
                    r = f"<{type(ex).__name__}>"
                if ran:
                    probs.append(f"{'async' if is_async else 'sync'}, newstyle={newstyle}: {src} -> {r!r}, ran {ran}")
            if newstyle is not None:
                ok = env.from_string("{{ _('hello') }}").render()
                if ok != "hello":
                    probs.append(f"ordinary use of _ broken: {ok!r}")
    return (bool(probs), "; ".join(probs[:3]) or "callables resolved from the context by library functions pass the sandbox gate")


def native_context_resolved(task, tier, seed):
    v, d = replay_context_resolved_calls({})
    nm = "C18.native.context_resolved_calls"
    if v:
        return [Res(nm, "refuted", "table", 0, d, "table", {"family": "gettext_alias"})]
    return [Res(nm, "discharged", "table", 0, "4 templates x sync/async x (no translations, old style, new style): nothing ran", "table")]


def scan_context_calls(task, tier, seed):
    """table (syntactic, whole package): a `<context>.call(<callee>, ...)` in library code outside runtime.py / sandbox.py whose callee
    comes from `<context>.resolve(...)` / `<context>[...]` / `.get(...)` - i.e. from the template-controlled namespace - is dominated
    by a `sandboxed` test that routes it to environment.call; the known sites are listed with the VC that covers them"""
    import ast as _ast
    import inspect as _inspect
    import os
    import jinja2 as _j
    root = os.path.dirname(_inspect.getsourcefile(_j))
    allowed = {("ext.py", "_gettext_alias"): "C18.ext.gettext_alias[*]"}
    bad, n = [], 0
    for fn in sorted(os.listdir(root)):
        if not fn.endswith(".py") or fn in ("runtime.py", "sandbox.py", "compiler.py"):
            continue
        tree = _ast.parse(open(os.path.join(root, fn), encoding="utf-8").read())
        for f in _ast.walk(tree):
            if not isinstance(f, (_ast.FunctionDef, _ast.AsyncFunctionDef)):
                continue
            tainted = set()
            for node in _ast.walk(f):
                if isinstance(node, _ast.Assign) and any(isinstance(c, _ast.Call) and isinstance(c.func, _ast.Attribute) and c.func.attr in ("resolve", "resolve_or_missing", "get")
                                                         and "context" in _ast.unparse(c.func.value).lower() for c in _ast.walk(node.value)):
                    tainted |= {t.id for t in node.targets if isinstance(t, _ast.Name)}
            for c in _ast.walk(f):
                if isinstance(c, _ast.Call) and isinstance(c.func, _ast.Attribute) and c.func.attr == "call" and "context" in _ast.unparse(c.func.value).lower() and c.args:
                    n += 1
                    callee = c.args[0]
                    from_ctx = (isinstance(callee, _ast.Name) and callee.id in tainted) or any(
                        isinstance(x, _ast.Call) and isinstance(x.func, _ast.Attribute) and x.func.attr in ("resolve", "resolve_or_missing", "get") for x in _ast.walk(callee))
                    if from_ctx and (fn, f.name) not in allowed:
                        bad.append({"file": fn, "function": f.name, "line": c.lineno, "code": _ast.unparse(c)[:100]})
    nm = "C18.scan.context_resolved_calls"
    if bad:
        return [Res(nm, "refuted", "table", 0, f"{b['file']}:{b['line']} {b['function']}: {b['code']} calls a value taken from the context without the sandbox gate", "table", b) for b in bad]
    return [Res(nm, "discharged", "table", 0, f"{n} context.call sites in library modules; callee from the context only at {sorted(allowed)} (own VC)", "table")]


# =====================================================================================================================
# objects a template can build: special names are not served from template-controlled data
# =====================================================================================================================
class NamespaceSpecialNames(VC):
    """utils.Namespace.__getattribute__(name): a template chooses the attribute names of a namespace (namespace(**kw),
    {% set ns.attr = v %}).  Library code invokes protocol methods by explicit attribute lookup (obj.__html__(), obj.__html_format__(spec),
    iterable.__aiter__() ...); a special name `__x__` is therefore never answered from the attribute dictionary."""
    prop = "C18"
    target = "jinja2.utils:Namespace.__getattribute__"
    timeout_quick = 30000

    def __init__(self):
        super().__init__("C18", "C18.namespace.special_names")

    def configure(self, I):
        I.specs[("fn", id(object.__getattribute__))] = A.abstract_fn("object.__getattribute__", returns="obj", raises=(AttributeError,))

    def setup(self, I, st):
        import jinja2.utils as U
        self.attrs = A.adict(st, "attrs", "str", "obj")
        self.ns = st.alloc(HObj(U.Namespace, fields={"__attrs": self.attrs}, path="ns"), initial=True)
        self.name_ = sym("name", "str")
        return [self.ns, self.name_], {}

    def p_special(self, pre, out):
        n = self.name_.t
        special = z3.And(z3.PrefixOf(z3.StringVal("__"), n), z3.SuffixOf(z3.StringVal("__"), n), z3.Length(n) >= 4)
        og = calls(out, "object.__getattribute__")
        if out.raised:
            return out.value.cls is AttributeError or (og and out.value is og[0].result)
        if og and same(out.value, og[0].result):
            return True
        # the value comes from the template-controlled dictionary
        # (string goals are slow under load: first try the protocol names themselves, a ground query)
        from pyvc.smt import check_sat
        for probe in ("__html__", "__html_format__", "__aiter__", "__iter__", "__call__"):
            if check_sat(list(out.st.pc) + [n == z3.StringVal(probe)], 5000, 0, use_cvc5=False).status == "sat":
                return n != z3.StringVal(probe)
        return z3.Not(special)

    posts = [("never_from_the_attribute_dict", p_special)]

    def concretize(self, model, pre, out):
        from contracts._sbx import model_str, unescape_z3
        return {"family": "namespace_protocol", "name": unescape_z3(model_str(model, self.name_.t, "__html__"))}

    def finding_key(self, res):
        return "namespace_protocol"

    def replay(self, w):
        return replay_namespace_protocol(w)


def replay_namespace_protocol(w=None):
    """the inputs of hunt report C18_4"""
    ran = []

    @S.unsafe
    def danger(*a, **k):
        ran.append(("danger", a))
        return "RAN"

    class User:
        def delete(self):
            ran.append(("delete",))
            return "deleted"
        delete.alters_data = True

    srcs = ["{{ namespace(__html__=danger)|e }}", "{{ namespace(__html__=user.delete)|e }}", "{% set ns = namespace() %}{% set ns.__html__ = danger %}{{ ns|safe }}",
            "{{ namespace(__html__=danger) }}", "{{ namespace(__html__=danger)|striptags }}", "{{ namespace(__html__=danger)|urlize }}", "{{ namespace(__html__=danger)|forceescape }}",
            "{{ ('%s'|safe) % namespace(__html__=danger) }}", "{{ ('{0}'|safe).format(namespace(__html__=danger)) }}", "{{ ('{0:spec}'|safe).format(namespace(__html_format__=danger)) }}",
            "{{ namespace(items=danger)|dictsort }}", "{{ namespace(items=danger)|xmlattr }}", "{% for x in namespace(__aiter__=danger) %}{% endfor %}",
            "{% for x in namespace(__iter__=danger) %}{% endfor %}", "{{ namespace(__len__=danger)|length }}", "{{ namespace(__str__=danger)|string }}"]
    nm = (w or {}).get("name")
    if nm and nm.startswith("__") and nm.endswith("__") and nm.isidentifier():
        srcs.insert(0, "{{ namespace(%s=danger)|e }}{{ namespace(%s=danger) }}" % (nm, nm))
    probs = []
    for kw in ({}, {"autoescape": True}, {"enable_async": True}):
        env = S.SandboxedEnvironment(**kw)
        for src in srcs:
            del ran[:]
            try:
                r = env.from_string(src).render(danger=danger, user=User())
            except SecurityError:
                r = "<SecurityError>"
            except Exception as ex:
                r = f"<{type(ex).__name__}>"
            if ran:
                probs.append(f"{kw}: {src} -> {r!r}, ran {ran}")
    return (bool(probs), "; ".join(probs[:3]) or "no protocol method lookup on a template-built namespace ran a stored callable")


def native_namespace_protocol(task, tier, seed):
    v, d = replay_namespace_protocol({})
    nm = "C18.native.namespace_protocol"
    if v:
        return [Res(nm, "refuted", "table", 0, d, "table", {"family": "namespace_protocol"})]
    return [Res(nm, "discharged", "table", 0, "16 templates x (plain, autoescape, async): no stored callable ran", "table")]


# =====================================================================================================================
# a sandboxed environment must run sandboxed code
# =====================================================================================================================
def native_shared_bytecode_cache(task, tier, seed):
    """table: a SandboxedEnvironment that shares a BytecodeCache with a differently configured environment (the default
    FileSystemBytecodeCache directory is shared by every environment of a user) still refuses unsafe callables: the code it runs
    was generated for a sandboxed environment"""
    import jinja2.bccache as B
    from jinja2 import DictLoader, Environment

    class MemCache(B.BytecodeCache):
        def __init__(self):
            self.store = {}

        def load_bytecode(self, bucket):
            if bucket.key in self.store:
                bucket.bytecode_from_string(self.store[bucket.key])

        def dump_bytecode(self, bucket):
            self.store[bucket.key] = bucket.bytecode_to_string()

    ran = []

    @S.unsafe
    def danger():
        ran.append("danger")
        return "RAN"

    bad = []
    for first in (Environment, S.SandboxedEnvironment):
        cache = MemCache()
        loader = DictLoader({"page": "{{ danger() }}"})
        try:
            first(loader=loader, bytecode_cache=cache).get_template("page").render(danger=lambda: "ok")
        except SecurityError:
            pass
        del ran[:]
        try:
            r = S.SandboxedEnvironment(loader=loader, bytecode_cache=cache).get_template("page").render(danger=danger)
        except SecurityError:
            r = "<SecurityError>"
        if ran:
            bad.append(f"cache filled by {first.__name__}: the sandboxed render gave {r!r}, ran {ran}")
    nm = "C18.native.shared_bytecode_cache"
    if bad:
        return [Res(nm, "refuted", "table", 0, "; ".join(bad), "table", {"family": "F19"})]
    return [Res(nm, "discharged", "table", 0, "cache shared with a plain and with a sandboxed environment: the unsafe callable never ran", "table")]


def replay_namespace_mapping(w=None):
    """hunt i2/C18_1: `f(**x)` and dict(x) call x.keys() while the argument list is built; a template-built namespace serves `keys`
    (not a special name) from its attributes"""
    ran = []

    class User:
        @S.unsafe
        def delete(self, *a):
            ran.append("delete")
            return ["a"]

        def wipe(self, *a):
            ran.append("wipe")
            return []
        wipe.alters_data = True

    srcs = ["{{ lipsum(**namespace(keys=user.delete)) }}", "{{ dict(**namespace(keys=user.wipe)) }}", "{{ dict(namespace(keys=user.delete)) }}",
            "{% macro m() %}{% endmacro %}{{ m(**namespace(keys=user.delete)) }}", "{{ 1|default(**namespace(keys=user.delete)) }}",
            "{{ 1 is eq(**namespace(keys=user.delete)) }}", "{% set k = user.delete %}{% call lipsum(**namespace(keys=k)) %}{% endcall %}",
            "{% set ns = namespace() %}{% set ns.keys = user.wipe %}{{ lipsum(**ns) }}"]
    probs = []
    for kw in ({}, {"enable_async": True}):
        env = S.SandboxedEnvironment(**kw)
        for src in srcs:
            del ran[:]
            try:
                r = env.from_string(src).render(user=User())
            except SecurityError:
                r = "<SecurityError>"
            except Exception as ex:
                r = f"<{type(ex).__name__}>"
            if ran:
                probs.append(f"{kw}: {src} -> {r[:30]!r}, ran {ran}")
    return (bool(probs), "; ".join(probs[:3]) or "no mapping-protocol lookup on a template-built namespace ran a stored callable")


def native_namespace_mapping(task, tier, seed):
    v, d = replay_namespace_mapping({})
    nm = "C18.native.namespace_mapping_protocol"
    if v:
        return [Res(nm, "refuted", "table", 0, d, "table", {"family": "namespace_mapping_protocol"})]
    return [Res(nm, "discharged", "table", 0, "8 templates x sync/async: no stored callable ran", "table")]


class F19Task(FnTask):
    def finding_key(self, res):
        return "F19"


class FamilyTable(FnTask):
    def finding_key(self, res):
        return (res.witness or {}).get("family", "")


class CompositionTask(FnTask):
    def finding_key(self, res):
        """the callables of the table that misbehave"""
        cases = (res.witness or {}).get("cases") or []
        return ",".join(sorted({c[1] for c in cases if len(c) > 1}))


def replay_composition(w):
    rs = native_composition(None, "quick", 0)
    return (rs[0].status == "refuted", rs[0].detail)


TASKS = [CallGate(), IsSafeCallable(), UnsafeDecorator(), ContextCall(),
         CompositionTask("C18", "C18.native.composition", native_composition, "table", replay_composition),
         FnTask("C18", "C18.native.every_call_checked", native_every_call_checked, "table", replay_every_call),
         GettextAlias(True), GettextAlias(False),
         FamilyTable("C18", "C18.native.context_resolved_calls", native_context_resolved, "table", replay_context_resolved_calls),
         FnTask("C18", "C18.scan.context_resolved_calls", scan_context_calls, "table", replay_context_resolved_calls),
         FamilyTable("C18", "C18.native.namespace_mapping_protocol", native_namespace_mapping, "table", replay_namespace_mapping),
         NamespaceSpecialNames(), FamilyTable("C18", "C18.native.namespace_protocol", native_namespace_protocol, "table", replay_namespace_protocol),
         F19Task("C18", "C18.native.shared_bytecode_cache", native_shared_bytecode_cache, "table",
                 lambda w: (lambda rs: (rs[0].status == "refuted", rs[0].detail))(native_shared_bytecode_cache(None, "quick", 0)))]

META = {
    "level": "proof",
    "explanation": "Runtime gate of sandboxed calls: the real SandboxedEnvironment.call (symbolic *args/**kwargs of any size, is_safe_callable "
                   "abstract so that overriding checks are covered) reaches context.call only after the check returned True and raises "
                   "SecurityError otherwise without calling anything; the default is_safe_callable is False exactly for callables marked "
                   "unsafe_callable / alters_data ON THE OBJECT ITSELF (attribute reads of the opaque callable are modelled so that obj.__call__ is a "
                   "different object with unrelated attributes: function, method, class, callable instance and partial alike); the decorator sets that mark; Context.call invokes exactly the callable (or its marked "
                   "__call__) once with the documented injected first argument. The compiler half (every template call is emitted as "
                   "environment.call) is discharged by the emission obligations of this module when present.",
    "assumptions": ["A7 await transparent", "callables invoked by safe callables or by filters are outside the statement (DESIGN C18 gap)",
                    "derived contexts share environment and eval context with their parent (Context.derived, new_context)",
                    "truthiness of an opaque value is a fixed predicate of the value (no side effects in __bool__)"],
    "trusted_base": ["z3 5.1 / cvc5", "pyvc symbolic executor", "dict.get / dict.pop / tuple concatenation dependency specs",
                     "star-call splicing of symbolic argument sequences (contracts/_sbx.py)"],
}

try:
    from contracts import c18_emit as _e
    TASKS += _e.TASKS
except ImportError:
    pass
