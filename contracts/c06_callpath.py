"""C06, the call path from a template to the macro (hunt round, reports C06_1 .. C06_6).

The runtime half proves Macro.__call__ against the binding rules and the compiler half what macro_body emits; a macro call
written in a template additionally goes through  CodeGenerator.visit_Call/signature -> context.call (sandbox:
environment.call -> context.call) -> Macro.__call__,  and `the body uses varargs / kwargs / caller` is decided by
compiler.find_undeclared.  The statement ("keyword arguments fill the remaining parameters by name, unconsumed keywords go to
kwargs ...; calling the macro from Python ... behaves identically to calling it from a template") needs on that path:

  C06.call_path.Context.call.forwards_all_keywords      Context.call hands the callable exactly the positional and keyword
                                                        arguments it was given (plus the injected first argument)   [C06_1]
  C06.call_path.positional_only[...]                    every function of the path that forwards **kwargs takes its own
                                                        parameters positionally only: no keyword name is reserved   [C06_2, C06_4]
  C06.emit.keyword_names[...]                           a keyword written in the template reaches the call under the same
                                                        string (Python normalises identifiers in source to NFKC)    [C06_3]
  C06.uses_special.differential                         (bounded) find_undeclared(body, (caller, kwargs, varargs)) against the
                                                        scope- and evaluation-order-aware specification             [C06_5, C06_6]
"""
from __future__ import annotations

import ast
import inspect
import itertools
import time
import unicodedata
import z3

from pyvc.contract import Res, FnTask, Task, VC
from pyvc import emit
from pyvc.values import HList, HObj, HDict, Unsupported, Sym, Ref, Event, Exc, State, SSeq, fresh, fresh_name, sym, Obj
from pyvc.interp import Raised
from pyvc.smt import to_term, model_value, str2obj, check_sat
from pyvc import abstract as A

import jinja2
import jinja2.nodes as N
import jinja2.compiler as C
import jinja2.runtime as R
import jinja2.sandbox as SB
from jinja2.utils import _PassArg

PROP = "C06"


def _render(env, src, **ctx):
    try:
        return env.from_string(src).render(**ctx)
    except Exception as ex:  # noqa
        return f"{type(ex).__name__}: {ex}"


def _module_call(env, src, name, *args, **kwargs):
    try:
        return str(getattr(env.from_string(src).module, name)(*args, **kwargs))
    except Exception as ex:  # noqa
        return f"{type(ex).__name__}: {ex}"


def template_vs_python(keys, envs=None):
    """Native oracle shared by the call-path obligations: for each keyword name k, a macro that declares k and a macro that
    collects kwargs, called with k=5 from a template (`m(**{k: 5})` and, when k is an identifier, `m(k=5)`) and from Python
    through template.module, must bind k (the binding rules of the statement) -- and both ways must agree."""
    problems = []
    for env in envs or (jinja2.Environment(), SB.SandboxedEnvironment()):
        for k in keys:
            ident = k.isidentifier()
            defs = {"kw": ("{% macro m(a=0) %}[{{ a }}|{% for p, q in kwargs|dictsort %}{{ p }}={{ q }}{% endfor %}]{% endmacro %}", f"[0|{k}=5]")}
            if ident:
                defs["param"] = ("{% macro m(" + k + "='default') %}[{{ " + k + " }}]{% endmacro %}", "[5]")
            for what, (d, want) in defs.items():
                got_py = _module_call(env, d, "m", **{k: 5})
                if got_py != want:
                    problems.append(f"{type(env).__name__}: {d} called from Python as m(**{{{k!r}: 5}}) gives {got_py!r}, binding rules {want!r}")
                calls = ["{{ m(**{" + repr(k) + ": 5}) }}"] + (["{{ m(" + k + "=5) }}"] if ident else [])
                for c in calls:
                    got = _render(env, d + c)
                    if got != want:
                        problems.append(f"{type(env).__name__}: {d}{c} renders {got!r}, binding rules {want!r} (from Python: {got_py!r})")
    return problems


# ------------------------------------------------------------------------------------------- Context.call

class ContextCallForwards(VC):
    """runtime.Context.call(obj, *args, **kwargs) for a callable that wants the eval context (a Macro: Macro.__call__ is
    @pass_eval_context), no injected argument, or the environment: obj is called with (injected?,) + args and with exactly
    the keyword arguments given -- none added, none dropped, none renamed."""
    prop = PROP
    target = "jinja2.runtime:Context.call"

    def __init__(self, pass_arg):
        self.pass_arg = pass_arg
        super().__init__(PROP, f"C06.call_path.Context.call[{pass_arg.name if pass_arg else 'plain'}]")

    def configure(self, I):
        c = self
        I.specs["star_kwargs_abstract"] = True
        I.specs["jinja2.utils:_PassArg.from_obj"] = lambda I_, st, args, kwargs, node: [(st, c.pass_arg)]
        I.specs["_PassArg.from_obj"] = I.specs["jinja2.utils:_PassArg.from_obj"]

        def hasattr_spec(I_, st, args, kwargs, node):
            return [(st, True)]

        I.specs[("fn", id(hasattr))] = hasattr_spec

        def getattr_obj(I_, st, args, kwargs, node):
            o, name = args
            if name == "__call__":
                return [(st, c.bound_call)]
            return None

        I.specs["getattr_obj"] = getattr_obj

        def call_obj(I_, st, args, kwargs, node):
            s2 = st.fork()
            e = Exc(StopIteration, (), origin=getattr(node, "lineno", None))
            kw = dict(kwargs)
            snap = None
            if "**" in kw:
                h = st.get(kw["**"])
                snap = (h.dom, h.val) if h.items is None else dict(h.items)
            st.trace.append(Event("call", "callee", list(args), dict(kw, __snap__=snap), fresh("result", "obj")))
            s2.trace.append(Event("call", "callee", list(args), {}, e))
            return [(st, st.trace[-1].result), (s2, Raised(e))]

        I.specs["call_obj"] = call_obj
        I.specs["Environment.undefined"] = A.abstract_fn("environment.undefined", returns="obj")
        I.specs["Context.derived"] = A.abstract_fn("context.derived", returns="obj")

    def setup(self, I, st):
        self.obj = sym("callee", "obj")
        self.bound_call = sym("callee.__call__", "obj")
        self.env = A.obj(st, jinja2.Environment, "environment")
        self.eval_ctx = sym("eval_ctx", "obj")
        self.ctx = A.obj(st, R.Context, "self", fields={"environment": self.env, "eval_ctx": self.eval_ctx})
        self.args = (sym("arg0", "obj"), sym("arg1", "obj"))  # two arbitrary positional arguments (the obligation is about keywords)
        self.kw = A.adict(st, "kwargs", "obj", "obj")
        h = st.get(self.kw)
        self.Kdom, self.Kval = h.dom, h.val
        return "locals", {"__self": self.ctx, "__obj": self.obj, "args": self.args, "kwargs": self.kw}

    def p_forwards(self, pre, out):
        calls = [e for e in out.st.trace if e.kind == "call" and e.name == "callee"]
        if len(calls) != 1:
            return False
        e = calls[0]
        if isinstance(e.result, Exc):
            return None  # the StopIteration branch: what was passed is checked on the other outcome
        if out.raised:
            return False
        fn = e.args[0]
        if not (isinstance(fn, Sym) and (fn.t.eq(self.obj.t) or fn.t.eq(self.bound_call.t))):
            return False
        snap = e.kwargs.get("__snap__")
        if set(e.kwargs) != {"**", "__snap__"} or snap is None or isinstance(snap, dict):
            return False
        dom, val = snap
        s = z3.Const(fresh_name("s"), Obj)
        same_kw = z3.ForAll([s], z3.And(z3.Select(dom, s) == z3.Select(self.Kdom, s), z3.Implies(z3.Select(self.Kdom, s), z3.Select(val, s) == z3.Select(self.Kval, s))))
        # positional: [injected] + args
        inj = {None: [], _PassArg.eval_context: [self.eval_ctx], _PassArg.environment: [self.env]}.get(self.pass_arg)
        pos = list(e.args[1:])
        want = inj + list(self.args)
        if len(pos) != len(want) or not all(a_ is b_ or a_ == b_ for a_, b_ in zip(pos, want)):
            return False
        return same_kw

    posts = [("forwards_all_keywords", p_forwards)]

    def concretize(self, model, pre, out):
        w = {"keys": []}
        for k in ("_loop_vars", "_block_vars"):
            try:
                if z3.is_true(model.eval(z3.Select(self.Kdom, str2obj(z3.StringVal(k))), model_completion=True)):
                    w["keys"].append(k)
            except Exception:  # noqa
                pass
        return w

    def finding_key(self, res):
        keys = (res.witness or {}).get("keys") or []
        return "reserved_keyword:_loop_vars/_block_vars" if keys and set(keys) <= {"_loop_vars", "_block_vars"} else (res.detail or "")[:80]

    def replay(self, w):
        keys = list((w or {}).get("keys") or []) or ["_loop_vars", "_block_vars"]
        probs = template_vs_python(keys + ["zz"])
        return (bool(probs), "; ".join(probs[:3]) or "keywords reach the macro from a template as they do from Python")



# ------------------------------------------------------------------------------------------- positional-only receivers

CALL_PATH = [("runtime.Context.call", lambda: R.Context.call), ("sandbox.SandboxedEnvironment.call", lambda: SB.SandboxedEnvironment.call),
             ("runtime.Macro.__call__", lambda: R.Macro.__call__)]


def positional_only_table(task, tier, seed):
    """Every function between the generated call and the macro function that forwards **kwargs must take its own parameters
    positionally only; otherwise Python itself rejects (or mis-binds) a template keyword of that name before any binding code
    runs (`self`, and the name-mangled `_Context__obj`, `_SandboxedEnvironment__context`, ...)."""
    rs = []
    for label, get in CALL_PATH:
        fn = get()
        sig = inspect.signature(fn)
        params = list(sig.parameters.values())
        if not any(p.kind is p.VAR_KEYWORD for p in params):
            rs.append(Res(f"C06.call_path.positional_only[{label}]", "refuted", "table", 0, f"{label}{sig} does not forward **kwargs any more: re-establish the call path", "table",
                          {"function": label, "names": []}))
            continue
        bad = [p.name for p in params if p.kind is p.POSITIONAL_OR_KEYWORD or p.kind is p.KEYWORD_ONLY]
        ok = not bad
        rs.append(Res(f"C06.call_path.positional_only[{label}]", "discharged" if ok else "refuted", "table", 0,
                      f"{label}{sig}: " + ("own parameters are positional-only" if ok else f"parameters {bad} can be hit by a keyword argument meant for the macro"),
                      "table", None if ok else {"function": label, "names": bad}))
    return rs


def positional_only_replay(w):
    names = list((w or {}).get("names") or ["self", "_Context__obj"])
    envs = (SB.SandboxedEnvironment(),) if "Sandboxed" in (w or {}).get("function", "") else None
    probs = template_vs_python(names, envs)
    return (bool(probs), "; ".join(probs[:3]) or f"keywords {names} reach the macro from a template as they do from Python")


class PositionalOnly(FnTask):
    def finding_key(self, res):
        w = res.witness or {}
        return f"{w.get('function')}:{','.join(w.get('names') or [])}"


# ------------------------------------------------------------------------------------------- keyword names in the generated call

KEYWORD_KEYS = ["a", "class", "__debug__", "None", "self", "µ", "ﬁ", "ａ", "ǆ", "é", "μ", "Ⅰ"]


def _emitted_keywords(tree):
    """keyword strings a parsed call `f(x, ...)` carries statically: plain keywords (as Python's parser delivers them, i.e.
    NFKC-normalised) and the constant keys of `**{...}` displays"""
    out = []
    for kw in tree.keywords:
        if kw.arg is not None:
            out.append(("plain", kw.arg))
        elif isinstance(kw.value, ast.Dict):
            for k in kw.value.keys:
                if isinstance(k, ast.Constant) and isinstance(k.value, str):
                    out.append(("display", k.value))
    return out


class KeywordNames(Task):
    """CodeGenerator.signature run on a Call node with one template keyword of a CONCRETE name (the table KEYWORD_KEYS:
    ASCII, Python keywords, and identifiers that differ from their NFKC form), value / other arguments abstract: the call Python
    compiles from the emitted text must carry the keyword under exactly the name written in the template."""
    kind = "emission"
    prop = PROP

    def __init__(self):
        self.name = "C06.emit.keyword_names"
        self.bound_text = "keyword name from a table of 12 representative identifiers (ASCII, Python keywords, non-NFKC-stable, NFKC-stable non-ASCII); value, positional and dynamic arguments abstract"

    def run(self, tier, seed):
        res = []
        for key in KEYWORD_KEYS:
            for extra in (None, {"caller": "caller"}):
                def fields(st, key=key):
                    kw = emit.make_node(st, N.Keyword, "node.kwargs[0]", fields={"key": key})
                    return {"args": st.alloc(HList(items=[]), initial=True), "kwargs": st.alloc(HList(items=[kw]), initial=True)}
                tag = f"C06.emit.keyword_names[{key.encode('unicode_escape').decode()}{',caller' if extra else ''}]"
                def configure(I):
                    import typing
                    I.specs[("fn", id(typing.cast))] = lambda I_, st, args, kwargs, node: [(st, args[1])]

                try:
                    scs, I = emit.run_visitor("jinja2.compiler:CodeGenerator.signature", N.Call, node_fields=fields, extra_args=(extra,) if extra else (),
                                              install_opts={"modular_signature": False}, configure=configure)
                except Unsupported as ex:
                    res.append(Res(tag + ".engine", "unknown", "pyvc-emit", 0, f"unsupported: {ex}", self.kind))
                    continue
                for i, sc in enumerate(scs):
                    fails = []
                    if sc.outcome == "raise":
                        fails.append(f"raises {sc.value!r}")
                    else:
                        txt, ph = sc.texts()[0]
                        try:
                            tree = emit.parse_expr(f"f(x{txt})")
                        except SyntaxError as ex:
                            fails.append(f"emitted call does not parse: {txt!r} ({ex.msg})")
                            tree = None
                        if tree is not None:
                            got = [k for _, k in _emitted_keywords(tree)]
                            want = [key] + (["caller"] if extra else [])
                            if sorted(got) != sorted(want):
                                fails.append(f"the generated call `f(x{txt})` carries the keywords {got!r}; the template wrote {want!r}")
                    res.append(Res(f"{tag}#p{i}", "refuted" if fails else "discharged", "pyvc-emit", 0, "; ".join(fails), self.kind,
                                   {"key": key} if fails else None))
        return res

    def finding_key(self, res):
        return "keyword:" + ((res.witness or {}).get("key") or "").encode("unicode_escape").decode()

    def replay(self, w):
        key = (w or {}).get("key") or "µ"
        probs = template_vs_python([key])
        return (bool(probs), "; ".join(probs[:3]) or f"keyword {key!r} binds from a template as it does from Python")



# ------------------------------------------------------------------------------------------- "the body uses varargs / kwargs / caller"

SPECIAL = ("caller", "kwargs", "varargs")


def _children(n, fields=None):
    for f in (fields or n.fields):
        v = getattr(n, f, None)
        for c in (v if isinstance(v, list) else [v]):
            if isinstance(c, N.Node):
                yield c


def uses_reference(nodes, names):
    """The specification, executable: a name is USED by the body iff some read of it can refer to the body's own variable of
    that name, i.e. occurs, in evaluation order, where no assignment visible at that place has declared it.  Scopes as in the
    template documentation ("Assignments", "For", "With Statement", "Block Assignments", macros): a for loop's target is
    declared for its filter and body only (not for the iterable, not for the else branch); a with statement's targets for its
    body only (the values are evaluated outside); the body of a set block / filter block and a nested macro / call block
    (parameters, defaults, body) are scopes of their own; `{% set x = e %}` evaluates e before it declares x; nested Block
    nodes are not searched.  An assignment in one branch of an `if` is conditional: it declares the name for the rest of that
    branch only (the other branches and what follows the endif may still read the body's own variable).  A nested macro
    definition declares its NAME in the enclosing scope, an import / from-import its target(s); inside a nested macro / call
    block caller, kwargs and varargs are that macro's own."""
    found = set()

    def walk(n, watched):
        if isinstance(n, N.Block):
            return
        if isinstance(n, N.Name):
            if n.ctx == "load":
                if n.name in watched:
                    found.add(n.name)
            else:
                watched.discard(n.name)
            return
        if isinstance(n, N.Assign):
            walk(n.node, watched)
            walk(n.target, watched)
            return
        if isinstance(n, N.AssignBlock):
            inner = set(watched)
            for c in list(n.body) + ([n.filter] if n.filter is not None else []):
                walk(c, inner)
            walk(n.target, watched)
            return
        if isinstance(n, N.FilterBlock):
            inner = set(watched)
            for c in _children(n):
                walk(c, inner)
            return
        if isinstance(n, N.With):
            for c in n.values:
                walk(c, watched)
            inner = set(watched)
            for c in list(n.targets) + list(n.body):
                walk(c, inner)
            return
        if isinstance(n, N.For):
            walk(n.iter, watched)
            inner = set(watched)
            for c in [n.target] + ([n.test] if n.test is not None else []) + list(n.body):
                walk(c, inner)
            inner = set(watched)
            for c in n.else_:
                walk(c, inner)
            return
        if isinstance(n, (N.Macro, N.CallBlock)):
            if isinstance(n, N.CallBlock):
                walk(n.call, watched)
            inner = set(watched) - set(SPECIAL)
            for c in _children(n, ("args", "defaults", "body")):
                walk(c, inner)
            if isinstance(n, N.Macro):
                watched.discard(n.name)
            return
        if isinstance(n, N.If):
            walk(n.test, watched)
            for branch in [list(n.body)] + [[e] for e in n.elif_] + [list(n.else_)]:
                inner = set(watched)
                for c in branch:
                    walk(c, inner)
            return
        if isinstance(n, N.Import):
            walk(n.template, watched)
            watched.discard(n.target)
            return
        if isinstance(n, N.FromImport):
            walk(n.template, watched)
            for nm in n.names:
                watched.discard(nm[1] if isinstance(nm, tuple) else nm)
            return
        for c in _children(n):
            walk(c, watched)

    watched = set(names)
    for n in nodes:
        walk(n, watched)
    return found


def _nm(n, ctx="load"):
    return N.Name(n, ctx)


def _out(n):
    return N.Output([_nm(n)])


def uses_bodies():
    """macro bodies: [<a statement that declares or reads v in a scope or order of its own>, ..., {{ v }}] and permutations,
    for v in the special names; label -> body factory"""
    out = []
    flt = lambda e: N.Filter(e, "list", [], [], None, None)  # noqa: E731
    for v in SPECIAL:
        first = {
            f"for {v} in [0]": lambda v=v: N.For(_nm(v, "store"), N.List([N.Const(0)]), [], [], None, False),
            f"for {v} in {v}": lambda v=v: N.For(_nm(v, "store"), _nm(v), [_out(v)], [], None, False),
            f"for x in [0] if {v}": lambda v=v: N.For(_nm("x", "store"), N.List([N.Const(0)]), [], [], _nm(v), False),
            f"for {v} in [] else {{{{ {v} }}}}": lambda v=v: N.For(_nm(v, "store"), N.List([]), [], [_out(v)], None, False),
            f"for x in [0]: set {v} = 0": lambda v=v: N.For(_nm("x", "store"), N.List([N.Const(0)]), [N.Assign(_nm(v, "store"), N.Const(0))], [], None, False),
            f"with {v} = 0": lambda v=v: N.With([_nm(v, "store")], [N.Const(0)], []),
            f"with {v} = {v}|list": lambda v=v: N.With([_nm(v, "store")], [flt(_nm(v))], [_out(v)]),
            f"with x = 0: set {v} = 0": lambda v=v: N.With([_nm("x", "store")], [N.Const(0)], [N.Assign(_nm(v, "store"), N.Const(0))]),
            f"macro inner({v})": lambda v=v: N.Macro("inner", [_nm(v, "param")], [], []),
            f"call({v}) w()": lambda v=v: N.CallBlock(N.Call(_nm("w"), [], [], None, None), [_nm(v, "param")], [], []),
            f"set t: set {v} = 0": lambda v=v: N.AssignBlock(_nm("t", "store"), None, [N.Assign(_nm(v, "store"), N.Const(0))]),
            f"filter upper: set {v} = 0": lambda v=v: N.FilterBlock([N.Assign(_nm(v, "store"), N.Const(0))], N.Filter(None, "upper", [], [], None, None)),
            f"set {v} = {v}|list": lambda v=v: N.Assign(_nm(v, "store"), flt(_nm(v))),
            f"set {v} = 0": lambda v=v: N.Assign(_nm(v, "store"), N.Const(0)),
            f"set {v}: body reads {v}": lambda v=v: N.AssignBlock(_nm(v, "store"), None, [_out(v)]),
            f"set {v}: body": lambda v=v: N.AssignBlock(_nm(v, "store"), None, [N.Output([N.TemplateData("x")])]),
            f"if c: {{{{ other }}}}": lambda v=v: N.If(_nm("c"), [_out("other")], [], []),
            f"if c: set {v} = 1": lambda v=v: N.If(_nm("c"), [N.Assign(_nm(v, "store"), N.Const(1))], [], []),
            f"if c: set {v} = 1 else: {{{{ {v} }}}}": lambda v=v: N.If(_nm("c"), [N.Assign(_nm(v, "store"), N.Const(1))], [], [_out(v)]),
            f"if c: pass elif d: set {v} = 1 else: pass": lambda v=v: N.If(_nm("c"), [], [N.If(_nm("d"), [N.Assign(_nm(v, "store"), N.Const(1))], [], [])], [_out("other")]),
            f"macro {v}()": lambda v=v: N.Macro(v, [], [], [N.Output([N.TemplateData("k")])]),
            f"from lib import {v}": lambda v=v: N.FromImport(N.Const("lib"), [v], False),
            f"from lib import q as {v}": lambda v=v: N.FromImport(N.Const("lib"), [("q", v)], False),
            f"import lib as {v}": lambda v=v: N.Import(N.Const("lib"), v, False),
            f"macro n(): {{{{ {v} }}}}": lambda v=v: N.Macro("n", [], [], [_out(v)]),
            f"call w(): {{{{ {v} }}}}": lambda v=v: N.CallBlock(N.Call(_nm("w"), [], [], None, None), [], [], [_out(v)]),
        }
        for lab, mk in first.items():
            out.append((f"[{lab}; {{{{ {v} }}}}]", lambda mk=mk, v=v: [mk(), _out(v)]))
            out.append((f"[{lab}]", lambda mk=mk: [mk()]))
            out.append((f"[{{{{ other }}}}; {lab}; {{{{ {v} }}}}; {{{{ other }}}}]", lambda mk=mk, v=v: [_out("other"), mk(), _out(v), _out("other")]))
        for (l1, m1), (l2, m2) in itertools.permutations(list(first.items())[:9], 2):
            out.append((f"[{l1}; {l2}; {{{{ {v} }}}}]", lambda m1=m1, m2=m2, v=v: [m1(), m2(), _out(v)]))
    return out


def uses_failure_class(label):
    import re
    lab = re.sub(r"caller|kwargs|varargs", "V", label)
    kinds = []
    for k, pat in (("for_target", "for V in"), ("for_body_set", "for x in [0]: set V"), ("with_target", "with V ="), ("with_body_set", "with x = 0: set V"),
                   ("set_block_body", "set t: set V"), ("filter_block_body", "filter upper: set V"), ("value_before_target", "= V|list"), ("set_block_target", "set V: body reads V"), ("if_branch", "if c: set V"), ("if_branch", "elif d: set V"),
                   ("macro_name", "macro V()"), ("import_target", "import V"), ("import_target", " as V"), ("nested_macro_own_special", "macro n(): {{ V }}"),
                   ("nested_macro_own_special", "call w(): {{ V }}")):
        if pat in lab and k not in kinds:
            kinds.append(k)
    return "+".join(kinds) or lab[:60]


class UsesDifferential(Task):
    kind = "bounded"
    prop = PROP

    def __init__(self):
        self.name = "C06.uses_special.differential"
        self.bound_text = ("macro bodies of up to 4 statements built from 26 statement shapes (for / with / if / set / set block / filter block / import / nested macro / call block "
                           "that declare or read a special name in a scope or evaluation order of their own) followed by a read, for caller, kwargs, varargs")

    def run(self, tier, seed):
        t0 = time.time()
        res = {}
        n = 0
        for lab, mk in uses_bodies():
            n += 1
            try:
                got = set(C.find_undeclared(mk(), SPECIAL))
            except Exception as ex:  # noqa
                got = f"{type(ex).__name__}: {ex}"
            want = uses_reference(mk(), SPECIAL)
            if got != want:
                k = uses_failure_class(lab)
                res.setdefault(k, (lab, got, want))
        self.stats = {"bodies": n}
        # a body that combines several shapes is explained by its shapes when each of them fails on its own
        base = {k for k in res if "+" not in k}
        res = {k: v for k, v in res.items() if "+" not in k or not set(k.split("+")) <= base}
        if not res:
            return [Res(self.name, "bounded-ok", "bounded", time.time() - t0, f"{n} macro bodies agree with the specification", self.kind)]
        out = []
        for i, (k, (lab, got, want)) in enumerate(sorted(res.items())):
            out.append(Res(f"{self.name}#p{i}", "refuted", "bounded", time.time() - t0,
                           f"find_undeclared(body, (caller, kwargs, varargs)) for the macro body {lab} reports {sorted(got) if isinstance(got, set) else got}, "
                           f"the body uses {sorted(want)}", self.kind, witness={"body": lab, "class": k}))
        return out

    def finding_key(self, res):
        return "scope_or_order:" + ((res.witness or {}).get("class") or "")

    def replay(self, w):
        return uses_replay(w)


USES_TEMPLATES = [
    ("{% macro m() %}{% for varargs in [0] %}{% endfor %}{{ varargs }}{% endmacro %}{{ m(1, 2) }}", "(1, 2)", "for_target"),
    ("{% macro m() %}{% with kwargs = 0 %}{% endwith %}{{ kwargs }}{% endmacro %}{{ m(a=1) }}", "{'a': 1}", "with_target"),
    ("{% macro m() %}{% macro inner(kwargs) %}{% endmacro %}{{ kwargs }}{% endmacro %}{{ m(a=1) }}", "{'a': 1}", "nested_macro"),
    ("{% macro m() %}{% with caller = 0 %}{% endwith %}[{{ caller() }}]{% endmacro %}{% call m() %}X{% endcall %}", "[X]", "with_target"),
    ("{% macro m() %}{% set t %}{% set varargs = 0 %}{% endset %}{{ varargs }}{% endmacro %}{{ m(1) }}", "(1,)", "set_block_body"),
    ("{% macro m() %}{% filter upper %}{% set varargs = 0 %}{% endfilter %}{{ varargs }}{% endmacro %}{{ m(1) }}", "(1,)", "filter_block_body"),
    ("{% macro m() %}{% for x in [0] %}{% set kwargs = 0 %}{% endfor %}{{ kwargs }}{% endmacro %}{{ m(a=1) }}", "{'a': 1}", "for_body_set"),
    ("{% macro m() %}{% set varargs = varargs|list %}{{ varargs }}{% endmacro %}{{ m(1, 2) }}", "[1, 2]", "value_before_target"),
    ("{% macro m() %}{% with varargs = varargs|list %}{{ varargs }}{% endwith %}{% endmacro %}{{ m(1) }}", "[1]", "value_before_target"),
    ("{% macro m() %}{% for varargs in varargs %}{{ varargs }}{% endfor %}{% endmacro %}{{ m(1, 2) }}", "12", "for_target"),
    ("{% macro m() %}{% with x = 0 %}{% set kwargs = 0 %}{% endwith %}{{ kwargs }}{% endmacro %}{{ m(a=1) }}", "{'a': 1}", "with_body_set"),
    ("{% macro m() %}{% set varargs %}{{ varargs }}{% endset %}{{ varargs }}{% endmacro %}{{ m(1) }}", "(1,)", "set_block_target"),
    ("{% macro m() %}{% if x %}{% set varargs = 1 %}{% else %}[{{ varargs }}]{% endif %}{% endmacro %}{{ m(5) }}", "[(5,)]", "if_branch"),
    ("{% macro m() %}{% if x %}{% set kwargs = 1 %}{% endif %}[{{ kwargs }}]{% endmacro %}{{ m(z=5) }}", "[{'z': 5}]", "if_branch"),
    ("{% macro m() %}{% if x %}{% set caller = 1 %}{% endif %}[{{ caller() }}]{% endmacro %}{% call m() %}c{% endcall %}", "[c]", "if_branch"),
    ("{% macro m() %}{% macro kwargs() %}k{% endmacro %}{{ kwargs() }}{% endmacro %}{{ m(zz=1) }}", "TypeError: macro 'm' takes no keyword argument 'zz'", "macro_name"),
    ("{% macro m() %}{% macro varargs() %}v{% endmacro %}{{ varargs() }}{% endmacro %}{{ m(1, 2) }}", "TypeError: macro 'm' takes not more than 0 argument(s)", "macro_name"),
    ("{% macro m() %}{% from 'lib' import kwargs %}{{ kwargs() }}{% endmacro %}{{ m(zz=1) }}", "TypeError: macro 'm' takes no keyword argument 'zz'", "import_target"),
    ("{% macro m() %}{% import 'lib' as varargs %}{{ varargs.kwargs() }}{% endmacro %}{{ m(1) }}", "TypeError: macro 'm' takes not more than 0 argument(s)", "import_target"),
    ("{% macro m() %}{% macro n() %}{{ varargs }}{% endmacro %}{{ n(1) }}{% endmacro %}{{ m(2) }}", "TypeError: macro 'm' takes not more than 0 argument(s)", "nested_macro_own_special"),
    ("{% macro m() %}{% macro n() %}{{ varargs }}{% endmacro %}{{ n(1) }}{% endmacro %}{{ m() }}", "(1,)", ""),
    ("{% macro m() %}{% set varargs = 0 %}{{ varargs }}{% endmacro %}{{ m() }}", "0", ""),
    ("{% macro m() %}{% set varargs = 0 %}{{ varargs }}{% endmacro %}{{ m(1) }}", "TypeError: macro 'm' takes not more than 0 argument(s)", ""),
]


def uses_replay(w=None):
    """the hunt inputs C06_5 / C06_6 (and their siblings) rendered natively"""
    env = jinja2.Environment(loader=jinja2.DictLoader({"lib": "{% macro kwargs() %}K{% endmacro %}"}))
    cls = (w or {}).get("class") or ""
    probs = []
    for src, want, k in USES_TEMPLATES:
        if cls and k and k not in cls.split("+"):
            continue
        got = _render(env, src)
        if got != want:
            probs.append(f"{src} renders {got!r}, binding rules {want!r}")
    return (bool(probs), "; ".join(probs[:3]) or "macros that read varargs / kwargs / caller after a nested scope or on the value side of an assignment bind them")


class UsesHandler(VC):
    """A scope / evaluation-order handler of UndeclaredNameVisitor (visit_For, visit_With, visit_Assign, visit_AssignBlock,
    visit_FilterBlock; generated when the visitor has it): every child node is visited exactly once, the side that is
    evaluated first is visited first, and what the walk of a scoped part takes out of consideration is looked for again
    afterwards.  The walk of a child is abstract: it may report and un-watch arbitrary names or stop (VisitorExit)."""
    prop = PROP
    S_ARR = z3.ArraySort(z3.StringSort(), z3.BoolSort())

    def __init__(self, which):
        self.which = which
        self.target = f"jinja2.compiler:UndeclaredNameVisitor.visit_{which}"
        super().__init__(PROP, f"C06.uses_special.handler[{which}]")

    def configure(self, I):
        c = self
        I.inline.add("jinja2.compiler:UndeclaredNameVisitor._visit_scope")
        from contracts.c07_emit import _set_eq_hook
        _set_eq_hook(I)

        def visit(I_, st, args, kwargs, node):
            f = st.get(c.visitor).fields
            hn, hu = st.get(f["names"]), st.get(f["undeclared"])
            k = len([e for e in st.trace if e.kind == "call" and e.name == "visit"]) + 1
            hn.dom, hn.size = z3.Const(f"names_after_{k}", c.S_ARR), z3.Int(f"n_names_after_{k}")
            hu.dom, hu.size = z3.Const(f"undeclared_after_{k}", c.S_ARR), z3.Int(f"n_undeclared_after_{k}")
            s2 = st.fork()
            st.trace.append(Event("call", "visit", list(args), dict(kwargs), None))
            s2.trace.append(Event("call", "visit", list(args), dict(kwargs), "exit"))
            return [(s2, Raised(Exc(C.VisitorExit, (), origin=getattr(node, "lineno", None)))), (st, None)]

        I.specs["NodeVisitor.visit"] = visit

        def chain_spec(I_, st, args, kwargs, node):
            items = []
            for a_ in args:
                items += list(I_.iter_concrete(st, a_, node))
            return [(st, tuple(items))]

        I.specs[("fn", id(itertools.chain))] = chain_spec

        def iter_child_nodes(I_, st, args, kwargs, node):
            return [(st, tuple(c.children()))]

        I.specs["Node.iter_child_nodes"] = iter_child_nodes

    def children(self):
        out = []
        for f in getattr(N, self.which).fields:
            v = self.fields.get(f)
            if isinstance(v, list):
                out += v
            elif isinstance(v, Ref):
                out.append(v)
        return out

    def setup(self, I, st):
        from pyvc.values import HSet
        self.N0, self.U0 = z3.Const("names0", self.S_ARR), z3.Const("undeclared0", self.S_ARR)
        self.names = st.alloc(HSet(dom=self.N0, size=z3.Int("n_names"), kk="str"), initial=True)
        self.undeclared = st.alloc(HSet(dom=self.U0, size=z3.Int("n_undeclared"), kk="str"), initial=True)
        self.visitor = st.alloc(HObj(C.UndeclaredNameVisitor, fields={"names": self.names, "undeclared": self.undeclared}, path="self"), initial=True)
        mk = lambda p: st.alloc(HObj(N.Node, path=p), initial=True)  # noqa: E731
        shapes = {
            "Assign": {"target": mk("target"), "node": mk("node")},
            "AssignBlock": {"target": mk("target"), "filter": mk("filter"), "body": [mk("body0"), mk("body1")]},
            "FilterBlock": {"body": [mk("body0"), mk("body1")], "filter": mk("filter")},
            "With": {"targets": [mk("target0"), mk("target1")], "values": [mk("value0"), mk("value1")], "body": [mk("body0")]},
            "For": {"target": mk("target"), "iter": mk("iter"), "body": [mk("body0"), mk("body1")], "else_": [mk("else0")], "test": mk("test"), "recursive": False},
        }
        self.fields = shapes[self.which]
        hf = {k: (st.alloc(HList(items=list(v)), initial=True) if isinstance(v, list) else v) for k, v in self.fields.items()}
        self.node = st.alloc(HObj(getattr(N, self.which), fields=hf, path="node"), initial=True)
        return [self.visitor, self.node], {}

    # evaluation structure: children evaluated in the enclosing scope ("outer") and groups evaluated in a scope of their own
    ORDER = {
        "Assign": [("outer", "node"), ("outer", "target")],
        "AssignBlock": [("scope", ["body0", "body1", "filter"]), ("outer", "target")],
        "FilterBlock": [("scope", ["body0", "body1", "filter"])],
        "With": [("outer", "value0"), ("outer", "value1"), ("scope", ["target0", "target1", "body0"])],
        "For": [("outer", "iter"), ("scope", ["target", "test", "body0", "body1"]), ("scope", ["else0"])],
    }

    def p_order(self, pre, out):
        st = out.st
        calls = [e for e in st.trace if e.kind == "call" and e.name == "visit"]
        if any(e.args[0] != self.visitor or len(e.args) != 2 or e.kwargs or not isinstance(e.args[1], Ref) for e in calls):
            return False
        seen = [(st.get(e.args[1]).path, e.result == "exit") for e in calls]
        if out.raised and out.value.cls is not C.VisitorExit:
            return False
        f = st.get(self.visitor).fields
        if f.get("undeclared") != self.undeclared or not isinstance(f.get("names"), Ref):
            return False
        hn, hu = st.get(f["names"]), st.get(self.undeclared)
        x = z3.String(fresh_name("s"))
        complete = lambda dom: z3.ForAll([x], z3.Implies(z3.Select(dom, x), z3.Select(hu.dom, x)))  # noqa: E731
        k = 0          # events consumed
        cur = self.N0  # what is looked for in the enclosing scope
        for kind, what in self.ORDER[self.which]:
            if kind == "outer":
                if k >= len(seen):
                    return False
                path, ex = seen[k]
                if path != what:
                    return False
                k += 1
                if ex:
                    # the child itself found everything that was still looked for: the search stops here
                    return out.raised and k == len(seen)
                cur = z3.Const(f"names_after_{k}", self.S_ARR)
                continue
            ended = False
            for j, want in enumerate(what):
                if k >= len(seen) or seen[k][0] != want:
                    return False
                ended = seen[k][1]
                k += 1
                if ended:
                    break
            # the scope is over: `cur` is looked for again; the search may stop only if all of that was found
            if k == len(seen) and out.raised:
                return complete(cur)
        if out.raised or k != len(seen):
            return False
        return hn.dom == cur

    posts = [("all_children_in_evaluation_order_scopes_restored", p_order)]

    def concretize(self, model, pre, out):
        return {"class": {"For": "for_target", "With": "with_target", "Assign": "value_before_target", "AssignBlock": "set_block_body", "FilterBlock": "filter_block_body"}[self.which]}

    def replay(self, w):
        return uses_replay(w)


def _handler_tasks():
    return [UsesHandler(w) for w in ("Assign", "AssignBlock", "FilterBlock", "With", "For") if hasattr(C.UndeclaredNameVisitor, f"visit_{w}")]


TASKS = [ContextCallForwards(_PassArg.eval_context), ContextCallForwards(None),
         PositionalOnly(PROP, "C06.call_path.positional_only", positional_only_table, "table", positional_only_replay),
         KeywordNames(), UsesDifferential()] + _handler_tasks()
