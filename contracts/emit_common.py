"""Shared helpers for the emission obligations of several properties: the list of code
generator visitors, how each one's output is parsed, and predicate combinators."""
from __future__ import annotations

import ast
import re

from pyvc.emitcheck import EmitTask
from pyvc import emit

import jinja2.nodes as N
import jinja2.compiler as C

# visitors whose output is an expression / a statement list / a fragment that needs a wrapper to parse
EXPR = ["Add", "Sub", "Mul", "Div", "FloorDiv", "Mod", "Pow", "And", "Or", "Not", "Neg", "Pos", "Call", "Filter", "Test",
        "Getattr", "Getitem", "Compare", "CondExpr", "Concat", "Const", "TemplateData", "Tuple", "List", "Dict", "Name",
        "MarkSafe", "MarkSafeIfAutoescape", "EnvironmentAttribute", "ExtensionAttribute", "ImportedName", "InternalName",
        "ContextReference", "DerivedContextReference"]
STMT = ["Output", "If", "For", "Assign", "AssignBlock", "With", "FilterBlock", "Block", "Extends", "Include", "Import",
        "FromImport", "ExprStmt", "Scope", "OverlayScope", "EvalContextModifier", "ScopedEvalContextModifier", "Break",
        "Continue", "Macro", "CallBlock", "Template", "NSRef"]
FRAGMENT = {"Keyword": ("f({})", "expr"), "Slice": ("x[{}]", "expr"), "Operand": ("(x {})", "expr")}

# visitors that the emission engine cannot yet summarise for arbitrary children (loops with growing state)
SKIP = {"Macro", "CallBlock", "Template", "FromImport"}


def visitors():
    out = []
    for nm in EXPR:
        out.append((nm, "expr", None))
    for nm in STMT:
        out.append((nm, "stmts", None))
    for nm, (wrap, mode) in FRAGMENT.items():
        out.append((nm, mode, wrap))
    return [(nm, mode, wrap) for nm, mode, wrap in out if nm not in SKIP and hasattr(C.CodeGenerator, f"visit_{nm}")]


def wrap_predicate(pred, wrap, mode):
    """predicate over the wrapped+parsed text of a fragment visitor"""

    def p(sc, tree, ph, txt):
        if sc.outcome == "raise":
            return pred(sc, None, ph, txt)
        t2 = wrap.format(txt)
        try:
            tree2 = emit.parse_expr(t2) if mode == "expr" else emit.parse_stmts(t2)
        except SyntaxError as ex:
            return [f"fragment does not parse inside {wrap!r}: {txt!r} ({ex.msg})"]
        return pred(sc, tree2, ph, t2)

    return p


def all_visitor_tasks(prop, name, predicate, replay_fn=None, only=None, buffers=(None, "t_buf"), generator_cls=None, configure=None):
    tasks = []
    for nm, mode, wrap in visitors():
        if only and nm not in only:
            continue
        pred = predicate if wrap is None else wrap_predicate(predicate, wrap, mode)
        tasks.append(EmitTask(prop, f"{name}.visit_{nm}", f"jinja2.compiler:CodeGenerator.visit_{nm}", getattr(N, nm), pred,
                              mode=("raw" if wrap else mode), buffers=buffers, replay_fn=replay_fn, generator_cls=generator_cls,
                              configure=configure))
    return tasks


def hole_of(n, ph):
    """the Hole a placeholder Name stands for, else None"""
    if isinstance(n, ast.Name) and n.id in ph and isinstance(ph[n.id], emit.Hole):
        return ph[n.id]
    return None


def is_hole(n, ph, path=None):
    h = hole_of(n, ph)
    return h is not None and (path is None or h.path == path)


def strip_async(n):
    return emit.unwrap_await(n)
