"""C21  Undefined values behave as documented for every undefined type.

Spec table (TABLE below; DESIGN Appendix A.2, written from the class docstrings of jinja2.runtime,
docs/api.rst "Undefined Types" and docs/templates.rst "Variables"): undefined type x operation ->
documented result or "raises the configured exception (UndefinedError by default)".

For every cell
  1. the method the LIVE class uses for the operation is resolved through the class dictionaries along
     the MRO (this evaluates the alias chains of the class bodies such as
     `__add__ = __radd__ = ... = _fail_with_undefined_error`; protocol fallbacks of assumption A3:
     `in` falls back to iteration, truth to `__len__`, `!=` to the inverse of `==`),
  2. the real source of that method is executed symbolically on an instance whose payload
     (hint / obj / name / exc) is symbolic, and the table entry is proved for all payloads
     (both operand orders of the binary operators are separate cells: `__op__` and `__rop__`),
  3. the cell is executed natively on the real class for a set of payloads and other operands
     (replay oracle).
The logging variants (`make_logging_undefined` over each of the four base types) must behave as their
base and emit one log record on what the factory documents: printing, iteration (sync and async) and the
truth test ("It will log iterations and printing" plus the `__bool__` override), and one error record when a
failure goes through the class's own `_fail_with_undefined_error` override, i.e. a missing-attribute access
(`Undefined.__getattr__` calls `self._fail_with_undefined_error()`; "log certain failures").  Operators that the
base classes alias directly to `Undefined._fail_with_undefined_error` bypass that override; the documentation
does not promise a record for them (DESIGN A.2 over-read "every failing operation"; corrected here), only that
they never emit more than one.
"""
from __future__ import annotations

import ast
import copy
import pickle
import time
import types

import z3

from pyvc.contract import VC, Res, Task
from pyvc.values import State, Sym, Ref, HObj, HIter, HList, Exc, Closure, Event, Unsupported, Obj, sym, fresh
from pyvc.smt import to_term, model_value, host_const
from pyvc import models
from pyvc.models import py_repr_str, py_repr_obj, py_str_obj
from pyvc.ops import isinst_fn

import jinja2.runtime as R
import jinja2.tests as T
import jinja2.filters as F
from jinja2.exceptions import UndefinedError, TemplateRuntimeError
from jinja2.utils import missing

S_ = z3.StringSort()


# --------------------------------------------------------------------------------------------
# the undefined types
# --------------------------------------------------------------------------------------------

class RecLogger:
    """Recording logger handed to the real make_logging_undefined (natively it records, in the
    symbolic runs its two methods are abstract callees that leave a `call` event)."""

    def __init__(self):
        self.records = []

    def warning(self, msg, *args):
        self.records.append(("warning", msg % args))

    def error(self, msg, *args):
        self.records.append(("error", msg % args))


class ConfiguredError(TemplateRuntimeError):
    """An arbitrary exception class configured through `exc=` (unknown to the code under contract)."""


LOGGER = RecLogger()
BASES = {
    "Undefined": R.Undefined,
    "ChainableUndefined": R.ChainableUndefined,
    "DebugUndefined": R.DebugUndefined,
    "StrictUndefined": R.StrictUndefined,
}
TYPES = dict(BASES)
LOGGING_BASE = {}
for _n, _b in BASES.items():
    TYPES["Logging" + _n] = R.make_logging_undefined(LOGGER, _b)
    LOGGING_BASE["Logging" + _n] = _n


# --------------------------------------------------------------------------------------------
# the spec table  (operation -> dunder, call shape;  type x operation -> entry)
# --------------------------------------------------------------------------------------------
# shapes: "0" no operand, "1" one operand, "call" u(*a, **kw), "name" attribute name (symbolic string)
OPS = {
    "str": ("__str__", "0"), "bool": ("__bool__", "0"), "iter": ("__iter__", "0"), "aiter": ("__aiter__", "0"),
    "len": ("__len__", "0"), "contains": ("__contains__", "1"),
    "eq": ("__eq__", "1"), "ne": ("__ne__", "1"), "hash": ("__hash__", "0"),
    "pos": ("__pos__", "0"), "neg": ("__neg__", "0"),
    "lt": ("__lt__", "1"), "le": ("__le__", "1"), "gt": ("__gt__", "1"), "ge": ("__ge__", "1"),
    "int": ("__int__", "0"), "float": ("__float__", "0"), "complex": ("__complex__", "0"),
    "call": ("__call__", "call"), "getattr": ("__getattr__", "name"), "getitem": ("__getitem__", "1"),
}
ARITH = ["add", "sub", "mul", "truediv", "floordiv", "mod", "pow"]
for _a in ARITH:
    OPS[_a] = (f"__{_a}__", "1")
    OPS["r" + _a] = (f"__r{_a}__", "1")

FAIL = ("fail",)  # raises the configured exception; the message names the missing variable / attribute
_ALWAYS_FAIL = [a for a in ARITH] + ["r" + a for a in ARITH] + ["pos", "neg", "lt", "le", "gt", "ge", "int", "float", "complex", "call"]


def _row(**over):
    row = {
        "str": ("const", ""), "bool": ("const", False), "iter": ("empty",), "aiter": ("empty",), "len": ("const", 0),
        "contains": ("const", False), "eq": ("type_identity",), "ne": ("not_type_identity",), "hash": ("hash_by_type",),
        "getattr": FAIL, "getitem": FAIL,
    }
    for op in _ALWAYS_FAIL:
        row[op] = FAIL
    row.update(over)
    return row


TABLE = {
    # "can be printed, iterated, and treated as a boolean. Any other operation will raise an UndefinedError"
    "Undefined": _row(),
    # "both __getattr__ and __getitem__ return itself rather than raising an UndefinedError"
    "ChainableUndefined": _row(getattr=("self",), getitem=("self",)),
    # "returns the debug info when printed"
    "DebugUndefined": _row(str=("debug_str",)),
    # "barks on print and iteration as well as boolean tests and all kinds of comparisons ...
    #  you can do nothing with it except checking if it's defined using the `defined` test"
    "StrictUndefined": _row(str=FAIL, bool=FAIL, iter=FAIL, len=FAIL, contains=FAIL, eq=FAIL, ne=FAIL, hash=FAIL,
                            aiter=FAIL),
}
LOGGED_PRINT = ("str", "iter", "aiter", "bool")  # "It will log iterations and printing" (+ the __bool__ override)
LOGGED_FAILURE = ("getattr",)  # failures that go through the class's own _fail_with_undefined_error override ("log certain failures")

PAYLOAD_CASES = [  # symbolic payload shapes: hint None | str, name None | str | non-str object; obj arbitrary (may be `missing`)
    {"hint": h, "name": n} for h in ("none", "str") for n in ("str", "none", "obj")
]


def entry(tkey, op):
    return TABLE[LOGGING_BASE.get(tkey, tkey)][op]


# --------------------------------------------------------------------------------------------
# method resolution on the live class (alias chains, MRO, protocol fallbacks of A3)
# --------------------------------------------------------------------------------------------

def class_lookup(cls, dunder):
    """(defining class, raw class-dict value) of the attribute the interpreter uses for type(u).<dunder>."""
    for k in cls.__mro__:
        if dunder in k.__dict__:
            return k, k.__dict__[dunder]
    return None, None


def resolve(cls, op):
    """-> (how, function) ; how in {"direct", "via_iter", "via_len", "via_eq"} or ("bad", reason)"""
    dunder = OPS[op][0]
    k, v = class_lookup(cls, dunder)
    if k is object or v is None and k is not None:
        # object's default (identity ==, default repr as str, ...) or `__hash__ = None`
        if op == "ne":
            kk, vv = class_lookup(cls, "__eq__")
            if kk is not object and isinstance(vv, types.FunctionType):
                return "via_eq", vv
        return ("bad", f"{cls.__name__}.{dunder} resolves to {'None' if v is None else 'object.' + dunder}"), None
    if k is None:
        if op == "contains":
            kk, vv = class_lookup(cls, "__iter__")
            if isinstance(vv, types.FunctionType):
                return "via_iter", vv
        if op == "bool":
            kk, vv = class_lookup(cls, "__len__")
            if isinstance(vv, types.FunctionType):
                return "via_len", vv
        return ("bad", f"{cls.__name__} has no {dunder}"), None
    if not isinstance(v, types.FunctionType):
        return ("bad", f"{cls.__name__}.{dunder} is {type(v).__name__}, not a function"), None
    return "direct", v


# --------------------------------------------------------------------------------------------
# symbolic vocabulary
# --------------------------------------------------------------------------------------------
OTR = z3.Function("object_type_repr", Obj, S_)  # jinja2.utils.object_type_repr (own obligation C21.message.object_type_repr)
TYPE_OF = z3.Function("py_type", Obj, Obj)
TYPE_NAME = z3.Function("py_type.__name__", Obj, S_)
TYPE_MODULE = z3.Function("py_type.__module__", Obj, S_)
MISSING = host_const(missing)


def is_dunder(name_t):
    return z3.And(z3.PrefixOf(z3.StringVal("__"), name_t), z3.SuffixOf(z3.StringVal("__"), name_t))


class SuperProxy:
    """Value of a zero-argument `super()` in an inlined method: attribute access continues the MRO of the
    receiver's class after `__class__`."""

    def __init__(self, I, objcls, cls, selfv):
        object.__setattr__(self, "_sp", (I, objcls, cls, selfv))

    def __getattribute__(self, name):
        if name in ("_sp", "__class__", "__dict__"):
            return object.__getattribute__(self, name)
        I, objcls, cls, selfv = object.__getattribute__(self, "_sp")
        mro = objcls.__mro__
        for k in mro[mro.index(cls) + 1:]:
            if name in k.__dict__:
                fn = k.__dict__[name]
                if isinstance(fn, types.FunctionType) and fn.__module__.startswith("jinja2"):
                    c = I.closure_of_function(fn)
                    c.self_val = selfv
                    return c
                raise Unsupported(f"super().{name} resolves to {fn!r}")
        raise AttributeError(name)


def install_common(I):
    """Engine configuration shared by all C21 contracts."""
    I.inline.add("*")

    orig_call = I.ev_Call

    def ev_Call(e, st, fr):
        if isinstance(e.func, ast.Name) and e.func.id == "super" and not e.args and not e.keywords:
            frame = st.frames[fr.fid]
            selfv = frame[fr.fn_node.args.args[0].arg]
            return [(st, SuperProxy(I, st.get(selfv).cls, frame["__class__"], selfv))]
        return orig_call(e, st, fr)

    I.ev_Call = ev_Call

    def type_spec(I_, st, args, kwargs, node):
        if len(args) == 1 and isinstance(args[0], Sym) and args[0].k == "obj":
            return [(st, Sym(TYPE_OF(args[0].t), "obj"))]
        r = models.instantiate(I_, st, type, args, kwargs, node)
        if r is None:
            raise Unsupported("type() form", node)
        return r

    I.specs[("fn", id(type))] = type_spec

    def getattr_obj(I_, st, args, kwargs, node):
        o, name = args
        if name == "__name__":
            return [(st, Sym(TYPE_NAME(o.t), "str"))]
        if name == "__module__":
            return [(st, Sym(TYPE_MODULE(o.t), "str"))]
        return None

    I.specs["getattr_obj"] = getattr_obj

    def log(level):
        def h(I_, st, args, kwargs, node):
            st.trace.append(Event("call", "logger." + level, args, kwargs, None, lineno=getattr(node, "lineno", None)))
            return [(st, None)]
        return h

    I.specs[("fn", id(RecLogger.warning))] = log("warning")
    I.specs[("fn", id(RecLogger.error))] = log("error")


def abstract_object_type_repr(I):
    def otr(I_, st, args, kwargs, node):
        return [(st, Sym(OTR(to_term(args[0], "obj")), "str"))]

    I.specs["jinja2.utils:object_type_repr"] = otr


class Payload:
    """Symbolic payload of one undefined instance."""

    def __init__(self, st, tkey, case, suffix=""):
        self.case = case
        self.hint = None if case["hint"] == "none" else sym("hint" + suffix, "str")
        self.name = {"none": None, "str": sym("name" + suffix, "str"), "obj": sym("name_obj" + suffix, "obj")}[case["name"]]
        self.obj = sym("obj" + suffix, "obj")
        self.exc = UndefinedError if case["hint"] == "none" else ConfiguredError
        if case["name"] == "obj":
            st.assume(z3.Not(isinst_fn(str)(self.name.t)))  # the non-string name case (missing item)
        self.cls = TYPES[tkey]
        self.ref = st.alloc(HObj(self.cls, fields={
            "_undefined_hint": self.hint, "_undefined_obj": self.obj, "_undefined_name": self.name, "_undefined_exception": self.exc,
        }, path="u" + suffix), initial=True)

    # ---- spec terms -------------------------------------------------------------------------
    def repr_name(self):
        if self.name is None:
            return z3.StringVal("None")
        if self.name.k == "str":
            return py_repr_str(self.name.t)
        return py_repr_obj(self.name.t)

    def str_name(self):
        if self.name is None:
            return z3.StringVal("None")
        if self.name.k == "str":
            return self.name.t
        return py_str_obj(self.name.t)

    def names_the_variable(self, msg):
        """The error message names the missing variable / attribute (and the holder's type)."""
        otr = OTR(self.obj.t)
        named = z3.If(self.obj.t == MISSING, z3.Contains(msg, self.repr_name()),
                      z3.And(z3.Contains(msg, self.repr_name()), z3.Or(z3.Contains(msg, otr), z3.Contains(msg, py_repr_str(otr)))))
        if self.hint is None:
            return named
        return z3.If(z3.Length(self.hint.t) > 0, msg == self.hint.t, z3.Or(msg == self.hint.t, named))

    def debug_str(self):
        named = z3.If(self.obj.t == MISSING, self.str_name(),
                      z3.Concat(z3.StringVal("no such element: "), OTR(self.obj.t), z3.StringVal("["), self.repr_name(), z3.StringVal("]")))
        wrap = lambda x: z3.Concat(z3.StringVal("{{ "), x, z3.StringVal(" }}"))  # noqa: E731
        if self.hint is None:
            return [wrap(named)]
        hinted = wrap(z3.Concat(z3.StringVal("undefined value printed: "), self.hint.t))
        return [z3.If(z3.Length(self.hint.t) > 0, hinted, wrap(named)), hinted]  # an empty hint: either reading

    # ---- concretisation ---------------------------------------------------------------------------
    def concretize(self, model):
        def s(v):
            return model_value(model, v.t) if v is not None else None

        out = {"hint": s(self.hint) if self.hint is not None else None,
               "obj": "missing" if model_value(model, self.obj.t == MISSING) is True else "object",
               "exc": self.exc.__name__}
        if self.name is None:
            out["name"] = None
        elif self.name.k == "str":
            out["name"] = s(self.name)
        else:
            out["name"] = {"nonstr": 0}
        return out


# --------------------------------------------------------------------------------------------
# one table cell as a VC
# --------------------------------------------------------------------------------------------

def log_events(out):
    return [e for e in out.st.trace if e.kind == "call" and e.name.startswith("logger.")]


class Cell(VC):
    prop = "C21"
    timeout_quick = 10000

    def __init__(self, tkey, op, case, how, fn, other="obj"):
        self.tkey, self.op, self.case, self.how, self.fn, self.other_kind = tkey, op, case, how, fn, other
        self.ent = entry(tkey, op)
        cname = f"{case['hint'][0]}{case['name'][0]}" + ("" if other == "obj" else "," + other)
        self.casename = f"hint={case['hint']},name={case['name']},other={other}"
        VC.__init__(self, "C21", f"C21.table.{tkey}.{op}[{cname}]")
        self.logging = tkey in LOGGING_BASE

    def closure(self, I):
        return I.closure_of_function(self.fn)

    def configure(self, I):
        install_common(I)
        abstract_object_type_repr(I)

    def setup(self, I, st):
        self.p = Payload(st, self.tkey, self.case)
        shape = OPS[self.op][1]
        if self.how in ("via_iter", "via_len"):
            shape = "0"
        self.other = None
        args = [self.p.ref]
        if shape == "1":
            if self.other_kind == "obj":
                self.other = sym("other", "obj")
            elif self.other_kind == "same":
                self.other = Payload(st, self.tkey, PAYLOAD_CASES[0], "2").ref
            else:
                self.other = Payload(st, self.other_kind, PAYLOAD_CASES[0], "2").ref
            args.append(self.other)
        elif shape == "name":
            self.attr = sym("attr", "str")
            args.append(self.attr)
        kwargs = {}
        if shape == "call":
            args += [sym("a0", "obj"), sym("a1", "obj")]
            kwargs = {"k": sym("kw0", "obj")}
        return args, kwargs

    # ---- postconditions ----------------------------------------------------------------------
    def fails(self, out):
        """raises the configured exception with a message that names the variable"""
        if not out.raised or out.value.cls is not self.p.exc or len(out.value.args) != 1:
            return False
        return self.p.names_the_variable(to_term(out.value.args[0], "str"))

    def empty_iteration(self, out):
        if not out.returned:
            return False
        if out.value is None:
            return len(out.st.yields) == 0
        if isinstance(out.value, Ref):
            h = out.st.get(out.value)
            return isinstance(h, HIter) and isinstance(h.items, list) and len(h.items) - h.cursor == 0 and not out.st.yields
        return False

    def const(self, out, want):
        if not out.returned:
            return False
        v = out.value
        if isinstance(v, Sym):
            if type(want) is bool and v.k == "bool":
                return v.t == z3.BoolVal(want)
            if type(want) is int and v.k == "int":
                return v.t == want
            if type(want) is str and v.k == "str":
                return v.t == z3.StringVal(want)
            return False
        return type(v) is type(want) and v == want

    def same_type_term(self):
        """type(other) is type(u), as a z3 Bool / host bool"""
        if isinstance(self.other, Ref):
            return self.other_kind == "same"
        return TYPE_OF(self.other.t) == host_const(self.p.cls)

    def p_result(self, pre, out):
        ent, how = self.ent, self.how
        kind = ent[0]
        if self.op == "getattr":
            # dunder names are protocol probes: AttributeError; everything else follows the table
            dunder = is_dunder(self.attr.t)
            if out.raised and out.value.cls is AttributeError:
                return dunder
            rest = self.fails(out) if kind == "fail" else (out.returned and out.value == self.p.ref)
            if rest is False:
                return False
            return z3.And(z3.Not(dunder), rest) if rest is not True else z3.Not(dunder)
        if kind == "fail":
            return self.fails(out)
        if kind == "self":
            return out.returned and out.value == self.p.ref
        if kind == "const":
            if how == "via_iter":  # `x in u` through iteration: False iff nothing is produced
                return self.empty_iteration(out) if ent[1] is False else False
            if how == "via_len":
                return self.const(out, 0) if ent[1] is False else False
            return self.const(out, ent[1])
        if kind == "empty":
            return self.empty_iteration(out)
        if kind == "debug_str":
            if not out.returned:
                return False
            got = to_term(out.value, "str")
            return z3.Or(*[got == w for w in self.p.debug_str()])
        if kind in ("type_identity", "not_type_identity"):
            if not out.returned:
                return False
            want = self.same_type_term()
            neg = (kind == "not_type_identity") != (how == "via_eq")
            v = out.value
            if isinstance(want, bool) and isinstance(v, bool):
                return v == (want != neg)
            w = want if not isinstance(want, bool) else z3.BoolVal(want)
            return to_term(v, "bool") == (z3.Not(w) if neg else w)
        if kind == "hash_by_type":
            # a host integer on a symbolic payload: the same for every instance of the type
            return out.returned and type(out.value) is int
        raise AssertionError(kind)

    def p_log(self, pre, out):
        """logging variants: one record on print / iterate / truth test, one error record on a failing attribute access;
        never more than one record per operation"""
        if not self.logging:
            return None
        evs = log_events(out)
        if self.op in LOGGED_PRINT:
            if len(evs) != 1:
                return False
            if not out.raised and evs[0].name != "logger.warning":
                return False
            return self.record_names_variable(evs[0], out)
        if self.op in LOGGED_FAILURE and out.raised and out.value.cls is self.p.exc:
            if len(evs) != 1 or evs[0].name != "logger.error":
                return False
            return self.record_names_variable(evs[0], out)
        return len(evs) <= 1

    def record_names_variable(self, ev, out):
        if len(ev.args) < 2:
            return False
        a = ev.args[1]
        if isinstance(a, Exc):
            return a is out.value or len(a.args) == 1 and self.p.names_the_variable(to_term(a.args[0], "str"))
        return self.p.names_the_variable(to_term(a, "str"))

    def p_frame(self, pre, out):
        """no operation changes the payload of the undefined value"""
        return not any(i == self.p.ref.id for (i, _f) in out.st.written)

    posts = [("result", p_result), ("log", p_log), ("frame", p_frame)]

    def concretize(self, model, pre, out):
        w = {"type": self.tkey, "op": self.op, "payload": self.p.concretize(model)}
        if self.op == "getattr":
            w["attr"] = model_value(model, self.attr.t)
        if self.other is not None:
            w["other"] = self.other_kind
        return w

    def replay(self, w):
        return replay_cell(w)


# --------------------------------------------------------------------------------------------
# native execution of a cell (replay oracle)
# --------------------------------------------------------------------------------------------

class Holder:
    """holder object of a missing attribute / item"""


class NativeTimeout(BaseException):
    pass


TIMEOUTS = []  # native executions cut off by the wall-clock limit in this process: reported as undecided, never as violations


def time_limited(fn, seconds=30.0):
    """Run fn() natively with a wall-clock limit (a broken __getattr__ can recurse exponentially)."""
    import signal
    import threading
    if threading.current_thread() is not threading.main_thread():
        return fn()

    def handler(signum, frame):
        raise NativeTimeout(f"no result within {seconds} s")

    old = signal.signal(signal.SIGALRM, handler)
    signal.setitimer(signal.ITIMER_REAL, seconds)
    try:
        return fn()
    finally:
        signal.setitimer(signal.ITIMER_REAL, 0)
        signal.signal(signal.SIGALRM, old)


NATIVE_OPS = {
    "str": lambda u: str(u), "bool": lambda u: bool(u), "iter": lambda u: list(iter(u)), "len": lambda u: len(u),
    "contains": lambda u, x: x in u, "eq": lambda u, x: u == x, "ne": lambda u, x: u != x, "hash": lambda u: hash(u),
    "pos": lambda u: +u, "neg": lambda u: -u,
    "lt": lambda u, x: u < x, "le": lambda u, x: u <= x, "gt": lambda u, x: u > x, "ge": lambda u, x: u >= x,
    "int": lambda u: int(u), "float": lambda u: float(u), "complex": lambda u: complex(u),
    "call": lambda u: u(1, k=2), "getitem": lambda u, x: u[x],
    "add": lambda u, x: u + x, "sub": lambda u, x: u - x, "mul": lambda u, x: u * x, "truediv": lambda u, x: u / x,
    "floordiv": lambda u, x: u // x, "mod": lambda u, x: u % x, "pow": lambda u, x: u ** x,
    "radd": lambda u, x: x + u, "rsub": lambda u, x: x - u, "rmul": lambda u, x: x * u, "rtruediv": lambda u, x: x / u,
    "rfloordiv": lambda u, x: x // u, "rmod": lambda u, x: x % u, "rpow": lambda u, x: x ** u,
}


def _aiter_list(u):
    """`[x async for x in u]` driven by hand (the iterators of the undefined types never suspend; no event loop is needed)."""
    ait = type(u).__aiter__(u)
    out = []
    while True:
        step = type(ait).__anext__(ait)
        try:
            step.send(None)
        except StopAsyncIteration:
            return out
        except StopIteration as item:
            out.append(item.value)
        else:
            raise RuntimeError("async iteration of an undefined value suspended")


NATIVE_OPS["aiter"] = _aiter_list

NATIVE_PAYLOADS = [
    {"name": "foo"},  # missing name
    {"obj": "holder", "name": "bar"},  # missing attribute
    {"obj": "dict", "name": {"nonstr": 0}},  # missing item
    {"hint": "explicit hint", "name": "x"},  # explicit hint
    {"hint": "explicit hint", "obj": "holder", "name": "n", "exc": "ConfiguredError"},
    {},
]


def build_payload(p):
    kw = {}
    if p.get("hint") is not None:
        kw["hint"] = p["hint"]
    o = p.get("obj", "missing")
    if o == "holder" or o == "object":
        kw["obj"] = Holder()
    elif o == "dict":
        kw["obj"] = {}
    n = p.get("name")
    if isinstance(n, dict):
        kw["name"] = n["nonstr"]
    elif n is not None:
        kw["name"] = n
    if p.get("exc") == "ConfiguredError":
        kw["exc"] = ConfiguredError
    return kw


def others_for(tkey, op):
    cls = TYPES[tkey]
    # an undefined of another type that does not override the comparison methods (a subclass that does is asked first, A3)
    other_cls = TYPES["DebugUndefined" if "Debug" not in tkey else "ChainableUndefined"]
    d = {"int": 42, "float": 1.5, "str": "s", "none": None, "list": [1], "same": cls(name="y"), "other_undefined": other_cls(name="z")}
    if op in ("eq", "ne"):
        d["subclass"] = type("Sub" + cls.__name__, (cls,), {"__slots__": ()})(name="s")
    return d


def reflected_applies(op, x, u):
    """`x <op> u` reaches type(u).__rop__ only when x's own forward method declines (A3)."""
    fwd = getattr(type(x), f"__{op[1:]}__", None)
    if fwd is None:
        return True
    try:
        return fwd(x, u) is NotImplemented
    except Exception:
        return False


def message_names(kw, msg):
    """native oracle for 'the error message names the missing variable or attribute'"""
    if kw.get("hint"):
        return msg == kw["hint"]
    ok = repr(kw.get("name")) in msg
    if "obj" in kw:
        ok = ok and type(kw["obj"]).__name__ in msg
    return ok


def native_cell(tkey, op, payload, other_key=None, attr=None, check="both"):
    """Run one cell on the real class: -> (violated, detail).  check: "result" | "log" | "both"."""
    cls = TYPES[tkey]
    ent = entry(tkey, op)
    kw = build_payload(payload)
    exc = kw.get("exc", UndefinedError)
    u = cls(**kw)
    shape = OPS[op][1]
    args = []
    if shape == "1":
        x = others_for(tkey, op)[other_key or "int"]
        if op.startswith("r") and op[1:] in ARITH and not reflected_applies(op, x, u):
            return (False, "reflected method not reached for this operand (the other operand handles the operation)")
        if op in ("lt", "le", "gt", "ge") and type(x) is not type(u) and isinstance(x, type(u)):
            return (False, "the other operand is an instance of a subclass: Python asks it first (A3)")
        args = [x]
    del LOGGER.records[:]
    if op == "getattr":
        call = lambda: getattr(u, attr or "missing_attribute")  # noqa: E731
    elif op in ("eq", "ne") and other_key == "subclass":
        call = lambda: getattr(type(u), OPS[op][0])(u, *args)  # noqa: E731  (the operator would ask the subclass operand first, A3)
    else:
        call = lambda: NATIVE_OPS[op](u, *args)  # noqa: E731
    try:
        got = ("value", time_limited(call))
    except BaseException as e:  # noqa: B902
        got = ("raise", e)
    recs = list(LOGGER.records)
    if got[0] == "raise" and isinstance(got[1], NativeTimeout):
        TIMEOUTS.append(f"{tkey}.{op}")
        return (False, f"{tkey} {op}: undecided, {got[1]}")
    what = f"{tkey}({', '.join(f'{k}={v!r}' for k, v in kw.items())}) {op}" + (f" other={args[0]!r}" if args else "") + (f" attr={attr!r}" if op == "getattr" else "")
    kind = ent[0]
    bad = None
    if op == "getattr" and attr and attr[:2] == "__" and attr[-2:] == "__":
        if not (got[0] == "raise" and type(got[1]) is AttributeError):
            bad = f"dunder probe must raise AttributeError, got {got!r}"
        return (bad is not None, f"{what}: {bad or 'ok'}")
    if kind == "fail":
        if got[0] != "raise" or type(got[1]) is not exc:
            bad = f"expected {exc.__name__}, got {got!r}"
        elif not message_names(kw, str(got[1])):
            # comparing / combining with another undefined value: Python may ask that operand first (A3)
            if not (args and isinstance(args[0], R.Undefined) and repr(args[0]._undefined_name) in str(got[1])):
                bad = f"message {str(got[1])!r} does not name the variable"
    elif kind == "self":
        if got != ("value", u) or got[1] is not u:
            bad = f"expected the undefined itself, got {got!r}"
    elif kind == "const":
        if got[0] != "value" or type(got[1]) is not type(ent[1]) or got[1] != ent[1]:
            bad = f"expected {ent[1]!r}, got {got!r}"
    elif kind == "empty":
        if got != ("value", []):
            bad = f"expected an empty iteration, got {got!r}"
    elif kind == "debug_str":
        if kw.get("hint"):
            want = "{{ undefined value printed: %s }}" % kw["hint"]
        elif "obj" not in kw:
            want = "{{ %s }}" % (kw.get("name"),)
        else:
            want = None
        if got[0] != "value" or (want is not None and got[1] != want):
            bad = f"expected {want!r}, got {got!r}"
        elif want is None and not (got[1].startswith("{{ no such element: ") and got[1].endswith(" }}") and type(kw["obj"]).__name__ in got[1]
                                   and f"[{kw.get('name')!r}]" in got[1]):
            bad = f"expected '{{{{ no such element: T[name] }}}}', got {got!r}"
    elif kind in ("type_identity", "not_type_identity"):
        want = (type(args[0]) is cls) == (kind == "type_identity")
        if got[0] != "value" or got[1] is not want:
            bad = f"expected {want!r}, got {got!r}"
    elif kind == "hash_by_type":
        if got[0] != "value" or got[1] != hash(cls(name="another")) or got[1] != hash(cls()):
            bad = f"hash differs between instances of the type: {got!r}"
    if check == "log":
        bad = None
    if bad is None and tkey in LOGGING_BASE and check != "result":
        if op in LOGGED_PRINT:
            if len(recs) != 1 or (got[0] == "value" and recs[0][0] != "warning") or not message_names(kw, recs[0][1].split(": ", 1)[-1]):
                bad = f"expected one log record naming the variable, got {recs!r}"
        elif op in LOGGED_FAILURE and got[0] == "raise" and type(got[1]) is exc:
            if len(recs) != 1 or recs[0][0] != "error" or not message_names(kw, recs[0][1].split(": ", 1)[-1]):
                bad = f"expected one error record for the failing attribute access, got {recs!r}"
        elif len(recs) > 1:
            bad = f"more than one log record for one operation: {recs!r}"
    return (bad is not None, f"{what}: {bad or 'ok'}")


def native_sweep(tkey, op, check="result"):
    """All native instances of one cell: -> list of (violated, detail, witness)"""
    out = []

    shape = OPS[op][1]
    for p in NATIVE_PAYLOADS:
        if shape == "1":
            for ok in others_for(tkey, op):
                w = {"type": tkey, "op": op, "payload": p, "other": ok, "check": check}
                v, d = native_cell(tkey, op, p, ok, check=check)
                out.append((v, d, w))
        elif shape == "name":
            for attr in ("missing_attribute", "_private", "__", "__json__", "__deepcopy__", "__x", "x__"):
                w = {"type": tkey, "op": op, "payload": p, "attr": attr, "check": check}
                v, d = native_cell(tkey, op, p, attr=attr, check=check)
                out.append((v, d, w))
        else:
            w = {"type": tkey, "op": op, "payload": p, "check": check}
            v, d = native_cell(tkey, op, p, check=check)
            out.append((v, d, w))
    return out


def replay_cell(w):
    if w.get("kind") == "roundtrip":
        return native_roundtrip(w["type"], w["how"], w["payload"], w.get("protocol"))
    if w.get("kind") == "tests":
        return native_tests(w["type"], w["payload"])
    ok = w.get("other")
    if ok == "obj" and w.get("op") in ("eq", "ne"):
        ok = "subclass"
    if ok not in (None, "int", "float", "str", "none", "list", "same", "other_undefined", "subclass"):
        ok = "other_undefined" if ok in TYPES else "int"
    return native_cell(w["type"], w["op"], w["payload"], ok, w.get("attr"), check=w.get("check", "both"))


# --------------------------------------------------------------------------------------------
# defined / undefined / default; copy / deepcopy / pickle
# --------------------------------------------------------------------------------------------

class TestsVC(VC):
    """test_defined / test_undefined / do_default decide by isinstance(value, Undefined) only."""
    prop = "C21"

    def __init__(self, which, tkey):
        self.which, self.tkey = which, tkey
        self.target = {"defined": "jinja2.tests:test_defined", "undefined": "jinja2.tests:test_undefined", "default": "jinja2.filters:do_default"}[which]
        VC.__init__(self, "C21", f"C21.tests.{which}[{tkey}]")

    def configure(self, I):
        install_common(I)
        abstract_object_type_repr(I)

    def setup(self, I, st):
        if self.tkey == "opaque":
            self.value = sym("value", "obj")
            self.is_undef = isinst_fn(R.Undefined)(self.value.t)
        else:
            self.p = Payload(st, self.tkey, PAYLOAD_CASES[0])
            self.value = self.p.ref
            self.is_undef = True
        if self.which != "default":
            return [self.value], {}
        self.default = sym("default_value", "obj")
        self.boolean = sym("boolean", "bool")
        return [self.value, self.default, self.boolean], {}

    def p_result(self, pre, out):
        if not out.returned:
            return False
        v = out.value
        if self.which in ("defined", "undefined"):
            want_undef = self.which == "undefined"
            if isinstance(self.is_undef, bool):
                return isinstance(v, bool) and v == (self.is_undef == want_undef)
            return to_term(v, "bool") == (self.is_undef if want_undef else z3.Not(self.is_undef))
        # default: undefined -> the default (whatever `boolean`); a defined value -> itself, unless boolean and the value is false
        if self.is_undef is True:
            return v is self.default
        I_truthy = type(self).truthy(self.value.t)
        use_default = z3.Or(self.is_undef, z3.And(self.boolean.t, z3.Not(I_truthy)))
        return to_term(v, "obj") == z3.If(use_default, self.default.t, self.value.t)

    @staticmethod
    def truthy(t):
        from pyvc.interp import InterpBase
        return InterpBase.truthy_fn(t)

    def p_no_touch(self, pre, out):
        """the value is only inspected by isinstance: nothing is logged, called or raised (strict values included)"""
        return not out.raised and not log_events(out) and not out.st.written

    posts = [("result", p_result), ("no_touch", p_no_touch)]

    def concretize(self, model, pre, out):
        return {"kind": "tests", "type": self.tkey if self.tkey != "opaque" else "Undefined", "payload": {"name": "foo"}}

    def replay(self, w):
        return replay_cell(w)


def native_tests(tkey, payload):
    cls = TYPES[tkey]
    kw = build_payload(payload)
    u = cls(**kw)
    del LOGGER.records[:]
    bad = []
    try:
        if T.test_defined(u) is not False:
            bad.append("defined")
        if T.test_undefined(u) is not True:
            bad.append("undefined")
        sentinel = object()
        for b in (False, True):
            if F.do_default(u, sentinel, b) is not sentinel:
                bad.append(f"default(boolean={b})")
        for v in (0, "", None, "x", 1, [], Holder()):
            if T.test_defined(v) is not True or T.test_undefined(v) is not False:
                bad.append(f"defined/undefined on {v!r}")
            if F.do_default(v, sentinel) is not v or F.do_default(v, sentinel, True) is not (v if v else sentinel):
                bad.append(f"default on {v!r}")
    except Exception as e:
        bad.append(f"raised {e!r}")
    if LOGGER.records:
        bad.append(f"logged {LOGGER.records!r}")
    return (bool(bad), f"{tkey}({kw}) defined/undefined/default: {'wrong: ' + ', '.join(bad) if bad else 'ok'}")


SLOTS = ("_undefined_hint", "_undefined_obj", "_undefined_name", "_undefined_exception")


def native_roundtrip(tkey, how, payload, protocol=None):
    cls = TYPES[tkey]
    kw = build_payload(payload)
    if "obj" in kw and how == "pickle":
        kw["obj"] = {"k": 1}  # a picklable holder
    u = cls(**kw)
    # the copy / pickle protocols probe optional dunder methods with getattr: that must give AttributeError (checked first,
    # on the initialised instance, because a broken probe recurses without bound on the half-built copy)
    for probe in ("__deepcopy__", "__copy__", "__setstate__", "__getnewargs_ex__"):
        try:
            getattr(u, probe, None)
        except BaseException as e:  # noqa: B902
            return (True, f"{how}({tkey}({kw})): protocol probe getattr(u, {probe!r}) raised {e!r} instead of AttributeError")
    try:
        if how == "copy":
            v = time_limited(lambda: copy.copy(u))
        elif how == "deepcopy":
            v = time_limited(lambda: copy.deepcopy(u))
        else:
            v = time_limited(lambda: pickle.loads(pickle.dumps(u, pickle.HIGHEST_PROTOCOL if protocol is None else protocol)))
    except NativeTimeout as e:
        TIMEOUTS.append(f"{tkey}.{how}")
        return (False, f"{how}({tkey}({kw})): undecided, {e}")
    except Exception as e:
        return (True, f"{how}({tkey}({kw})) raised {e!r}")
    bad = []
    if type(v) is not cls:
        bad.append(f"type {type(v).__name__}")
    for s in SLOTS:
        a, b = object.__getattribute__(u, s), object.__getattribute__(v, s)
        same = (a is b) if how == "copy" or s in ("_undefined_exception",) or a is missing else (type(a) is type(b) and (a == b or isinstance(a, Holder)))
        if not same:
            bad.append(f"{s}: {a!r} -> {b!r}")
    how = how if protocol is None else f"{how}[protocol {protocol}]"
    return (bool(bad), f"{how}({tkey}({kw})): {'payload changed: ' + ', '.join(bad) if bad else 'same type and payload'}")


# --------------------------------------------------------------------------------------------
# _undefined_message, object_type_repr, dunder probing
# --------------------------------------------------------------------------------------------

class MessageVC(VC):
    """_undefined_message: repr(name) for a missing name; the holder's type name and repr(name) for a missing
    attribute / item; the hint when one is given."""
    prop = "C21"

    def __init__(self, case):
        self.case = case
        VC.__init__(self, "C21", f"C21.message[{case['hint'][0]}{case['name'][0]}]")

    def closure(self, I):
        return I.closure_of_function(R.Undefined.__dict__["_undefined_message"].fget)

    def configure(self, I):
        install_common(I)
        abstract_object_type_repr(I)

    def setup(self, I, st):
        self.p = Payload(st, "Undefined", self.case)
        return [self.p.ref], {}

    def p_message(self, pre, out):
        if not out.returned:
            return False
        return self.p.names_the_variable(to_term(out.value, "str"))

    posts = [("names_variable", p_message)]

    def concretize(self, model, pre, out):
        return {"type": "Undefined", "op": "add", "payload": self.p.concretize(model), "other": "int"}

    def replay(self, w):
        return replay_cell(w)


class TypeReprVC(VC):
    """object_type_repr(obj) contains the name of obj's type (or is the name of the singleton None / Ellipsis)."""
    prop = "C21"
    target = "jinja2.utils:object_type_repr"

    def __init__(self):
        VC.__init__(self, "C21", "C21.message.object_type_repr")

    def configure(self, I):
        install_common(I)

    def setup(self, I, st):
        self.obj = sym("obj", "obj")
        return [self.obj], {}

    def p_names_type(self, pre, out):
        if not out.returned:
            return False
        r = to_term(out.value, "str")
        return z3.If(self.obj.t == host_const(None), r == z3.StringVal("None"),
                     z3.If(self.obj.t == host_const(Ellipsis), r == z3.StringVal("Ellipsis"),
                           z3.Contains(r, TYPE_NAME(TYPE_OF(self.obj.t)))))

    posts = [("names_type", p_names_type)]

    def concretize(self, model, pre, out):
        return {"obj": "None" if model_value(model, self.obj.t == host_const(None)) is True else "object"}

    def replay(self, w):
        from jinja2.utils import object_type_repr
        bad = []
        for o in (None, Ellipsis, 1, "s", {}, Holder(), LOGGER):
            r = object_type_repr(o)
            if not (r == "None" if o is None else r == "Ellipsis" if o is Ellipsis else type(o).__name__ in r):
                bad.append(f"{o!r} -> {r!r}")
        return (bool(bad), "object_type_repr: " + ("; ".join(bad) or "ok"))


# --------------------------------------------------------------------------------------------
# tasks: one per undefined type (cells share symbolic runs when they resolve to the same function)
# --------------------------------------------------------------------------------------------

def other_kinds(tkey, op):
    if op in ("eq", "ne") and entry(tkey, op)[0] != "fail":
        return ["obj", "same", "StrictUndefined" if tkey != "StrictUndefined" else "Undefined"]
    return ["obj"]


class TypeTask(Task):
    """All table cells of one undefined type."""
    kind = "vc"
    prop = "C21"

    def __init__(self, tkey, ops=None, part=""):
        self.tkey = tkey
        self.ops = ops or sorted(OPS)
        self.name = f"C21.table.{tkey}{part}"
        self.part_no = int(part.lstrip("#") or 0)

    def run(self, tier, seed):
        """Obligations
          C21.table.<T>.<op>.resolve     the operation resolves to a method of the class (table obligation, per cell)
          C21.method.<T>.<method>[<shape>:<entry>].<clause>   the resolved method satisfies the table entry shared by the
                                         cells that resolve to it, for all payloads (symbolic; the cells are listed in the detail)
          C21.native.<T>.cells           every cell executed on the real class agrees with the table
          C21.log.<T>.records            logging variants: one record per print / iteration / truth test / failing attribute access
        """
        res = []
        cls = TYPES[self.tkey]
        logging = self.tkey in LOGGING_BASE
        groups = {}
        t_start = time.time()
        for op in self.ops:
            t0 = time.time()
            how, fn = resolve(cls, op)
            base = f"C21.table.{self.tkey}.{op}"
            if isinstance(how, tuple):
                # the class does not even define the operation: take the first native failure as the witness
                fails = [x for x in native_sweep(self.tkey, op) if x[0]]
                wit = fails[0][2] if fails else {"type": self.tkey, "op": op, "payload": NATIVE_PAYLOADS[0], "other": "int"}
                res.append(Res(base + ".resolve", "refuted", "table", time.time() - t0, how[1], "table", wit))
                continue
            res.append(Res(base + ".resolve", "discharged", "table", 0.0, f"{how}: {fn.__qualname__} (line {fn.__code__.co_firstlineno})", "table"))
            shape = "0" if how in ("via_iter", "via_len") else OPS[op][1]
            ent = entry(self.tkey, op)
            key = (id(fn), how, shape, repr(ent), op in LOGGED_PRINT, tuple(other_kinds(self.tkey, op)), op in LOGGED_FAILURE)
            g = groups.setdefault(key, {"ops": [], "fn": fn, "how": how, "shape": shape, "ent": ent})
            g["ops"].append(op)
        # symbolic execution of each resolved method, all payload shapes
        log_bad, log_unknown, log_n, log_wit = [], [], 0, None
        for key, g in groups.items():
            fn, ops = g["fn"], g["ops"]
            via = "" if g["how"] == "direct" else "," + g["how"]
            label = f"C21.method.{self.tkey}.{fn.__qualname__.split('.')[-1]}[{g['shape']}:{g['ent'][0]}{'=' + repr(g['ent'][1]) if len(g['ent']) > 1 else ''}{via}]"
            if key[4]:
                label += "[logged]"
            counter = {}
            for case in PAYLOAD_CASES:
                for ok in other_kinds(self.tkey, ops[0]):
                    cell = Cell(self.tkey, ops[0], case, g["how"], fn, ok)
                    for r in cell.run(tier, seed):
                        clause = r.name[len(cell.name):].lstrip(".").split("#")[0]  # result | log | frame | engine | ...
                        detail = f"[cells: {', '.join(ops)}; payload {cell.casename}] {r.detail}"
                        if clause == "log":
                            # aggregated below into one obligation per logging type
                            log_n += 1
                            if r.status == "refuted":
                                log_bad += ops
                                log_wit = log_wit or dict(r.witness or {"type": self.tkey, "op": ops[0], "payload": NATIVE_PAYLOADS[0]}, check="log")
                            elif r.status != "discharged":
                                log_unknown.append(f"{ops[0]}: {r.detail}")
                            continue
                        k = counter[clause] = counter.get(clause, -1) + 1
                        res.append(Res(f"{label}.{clause}#p{k}", r.status, r.backend, r.seconds, detail, r.kind, r.witness))
        # native execution of every cell on the real class
        t1 = time.time()
        nat_bad, nat_wit, nat_first, n_nat = [], None, "", 0
        for op in self.ops:
            sweep = native_sweep(self.tkey, op)
            n_nat += len(sweep)
            fails = [x for x in sweep if x[0]]
            if fails:
                nat_bad.append(op)
                if nat_wit is None:
                    nat_wit, nat_first = fails[0][2], fails[0][1]
            if logging:
                lf = [x for x in native_sweep(self.tkey, op, check="log") if x[0]]
                log_n += 1
                if lf:
                    log_bad.append(op)
                    log_wit = log_wit or lf[0][2]
        nm = f"C21.native.{self.tkey}.cells#p{self.part_no}"
        if nat_bad:
            res.append(Res(nm, "refuted", "native", time.time() - t1, f"cells disagreeing with the table on the real class: {', '.join(nat_bad)}; first: {nat_first}",
                           "table", dict(nat_wit, failing_ops=sorted(nat_bad))))
        else:
            res.append(Res(nm, "discharged", "native", time.time() - t1, f"{n_nat} native executions of {len(self.ops)} cells agree with the table", "table"))
        if logging:
            ops = sorted(set(log_bad))
            nm = f"C21.log.{self.tkey}.records#p{self.part_no}"
            if ops:
                res.append(Res(nm, "refuted", "z3+native", time.time() - t_start,
                               "operations without their documented log record (print / iterate / truth test / failing attribute access): " + ", ".join(ops),
                               "vc", dict(log_wit, failing_ops=ops)))
            elif log_unknown:
                res.append(Res(nm, "unknown", "z3", time.time() - t_start, "; ".join(log_unknown)[:400], "vc"))
            else:
                res.append(Res(nm, "discharged", "z3+native", time.time() - t_start, f"{log_n} log obligations", "vc"))
        if TIMEOUTS:
            res.append(Res(f"C21.native.{self.tkey}.time_limit", "unknown", "native", 0.0, "native executions cut off by the time limit: " + ", ".join(sorted(set(TIMEOUTS))), "table"))
            del TIMEOUTS[:]
        return res

    def replay(self, w):
        return replay_cell(w)

    def finding_key(self, res):
        return finding_key(res)


def finding_key(res):
    """Aggregated obligations (native cells, log records): the exact set of failing operations.  Method obligations: how the
    method leaves (returns / raises <class>) where the table demands otherwise."""
    nm = res.name
    if nm.startswith(("C21.log.", "C21.native.")):
        w = res.witness or {}
        return ",".join(w.get("failing_ops", ["?"]))
    d = res.detail or ""
    if " returns" in d:
        return "returns"
    if " raises " in d:
        return "raises"
    return d[:40]


def run_misc(task, tier, seed):
    """copy / deepcopy / pickle round trips and the defined / undefined / default cells, natively on the real classes."""
    res = []
    for tkey in TYPES:
        for how in ("copy", "deepcopy", "pickle"):
            t0 = time.time()
            fails, bad_protocols = [], []
            # pickle: the statement names the operation without a protocol, so every protocol of the interpreter is a cell
            for proto in (range(pickle.HIGHEST_PROTOCOL + 1) if how == "pickle" else [None]):
                for p in NATIVE_PAYLOADS:
                    v, d = native_roundtrip(tkey, how, p, proto)
                    if v:
                        fails.append((d, {"kind": "roundtrip", "type": tkey, "how": how, "payload": p, "protocol": proto}))
                        bad_protocols.append(proto)
                        break
            nm = f"C21.table.{tkey}.{how}"
            if fails:
                wit = dict(fails[0][1], failing_protocols=bad_protocols)
                res.append(Res(nm, "refuted", "native", time.time() - t0, (f"protocols {bad_protocols}: " if how == "pickle" else "") + fails[0][0], "table", wit))
            else:
                res.append(Res(nm, "discharged", "native", time.time() - t0, f"{len(NATIVE_PAYLOADS)} payloads: same type and payload", "table"))
        t0 = time.time()
        fails = []
        for p in NATIVE_PAYLOADS:
            v, d = native_tests(tkey, p)
            if v:
                fails.append((d, {"kind": "tests", "type": tkey, "payload": p}))
        nm = f"C21.tests.native[{tkey}]"
        res.append(Res(nm, "refuted" if fails else "discharged", "native", time.time() - t0, fails[0][0] if fails else "", "table", fails[0][1] if fails else None))
    if TIMEOUTS:
        res.append(Res("C21.table.roundtrips.time_limit", "unknown", "native", 0.0, "native executions cut off by the time limit: " + ", ".join(sorted(set(TIMEOUTS))), "table"))
        del TIMEOUTS[:]
    return res


# --------------------------------------------------------------------------------------------
# other operands: the binary operators (both orders) against a set of operands, on the real classes
# --------------------------------------------------------------------------------------------
# The cells above show that type(u).__op__ / __rop__ fail as documented.  Whether `x op u` ever reaches type(u).__rop__ is
# decided by the other operand (A3); the statement quantifies over "a set of other operands", so the operands a template
# actually produces are enumerated here: when x's own method handles the operation itself the table is NOT met.
BINARY = [a for a in ARITH] + ["r" + a for a in ARITH] + ["lt", "le", "gt", "ge"]


def operand_set():
    from markupsafe import Markup
    return {"int": 42, "float": 1.5, "bool": True, "none": None, "str": "abc", "str_format": "%s-%d", "empty_str": "",
            "markup": Markup("<b>"), "list": [1], "tuple": (1,), "dict": {"a": 1}, "set": {1}}


def operand_failures(op):
    """-> (failing {type: [operand keys]}, number of native executions, first detail)"""
    failing, n, first = {}, 0, ""
    for tkey in TYPES:
        if entry(tkey, op)[0] != "fail":
            continue
        for okey, x in operand_set().items():
            for p in (NATIVE_PAYLOADS[0], NATIVE_PAYLOADS[1]):
                kw = build_payload(p)
                u = TYPES[tkey](**kw)
                n += 1
                try:
                    got = ("value", time_limited(lambda: NATIVE_OPS[op](u, x)))
                except NativeTimeout:
                    continue
                except BaseException as e:  # noqa: B902
                    got = ("raise", e)
                ok = got[0] == "raise" and type(got[1]) is UndefinedError and message_names(kw, str(got[1]))
                if not ok:
                    failing.setdefault(tkey, [])
                    if okey not in failing[tkey]:
                        failing[tkey].append(okey)
                    if not first:
                        shown = f"{x!r} {op} u" if op.startswith("r") and op[1:] in ARITH else f"u {op} {x!r}"
                        first = f"{tkey}({kw}) [{shown}]: expected UndefinedError naming the variable, got {got!r}"
    return failing, n, first


def run_operands(task, tier, seed):
    res = []
    for op in BINARY:
        t0 = time.time()
        failing, n, first = operand_failures(op)
        nm = f"C21.operands.{op}"
        if failing:
            flat = sorted(f"{t}:{o}" for t, os_ in failing.items() for o in os_)
            t_first = sorted(failing)[0]
            wit = {"kind": "operand", "op": op, "type": t_first, "operand": failing[t_first][0], "failing": flat}
            res.append(Res(nm, "refuted", "native", time.time() - t0, f"{len(flat)} (type, operand) pairs: {first}", "table", wit))
        else:
            res.append(Res(nm, "discharged", "native", time.time() - t0, f"{n} native executions raise UndefinedError naming the variable", "table"))
    return res


def replay_operand(w):
    failing, n, first = operand_failures(w["op"])
    return (bool(failing), first or f"{w['op']}: all {n} executions raise UndefinedError")


class OperandTask(Task):
    kind = "table"
    prop = "C21"
    name = "C21.operands"

    def run(self, tier, seed):
        return run_operands(self, tier, seed)

    def replay(self, w):
        return replay_operand(w)

    def finding_key(self, res):
        w = res.witness or {}
        return ",".join(w.get("failing", []))


class MiscTask(Task):
    kind = "table"
    prop = "C21"
    name = "C21.table.roundtrips_and_tests"

    def finding_key(self, res):
        w = res.witness or {}
        if w.get("kind") == "roundtrip":
            return f"{w.get('type')}.{w.get('how')}:protocols=" + ",".join(str(x) for x in w.get("failing_protocols", []))
        return f"{w.get('type')}:{w.get('kind')}"

    def run(self, tier, seed):
        return run_misc(self, tier, seed)

    def replay(self, w):
        return replay_cell(w)


class Group(Task):
    """Several small VCs run in one worker."""
    kind = "vc"
    prop = "C21"

    def __init__(self, name, vcs):
        self.name = name
        self.vcs = vcs

    def run(self, tier, seed):
        out = []
        for v in self.vcs:
            out += v.run(tier, seed)
        return out

    def replay(self, w):
        if "obj" in w and "type" not in w:
            return TypeReprVC().replay(w)
        return replay_cell(w)


def _split(ops, n):
    ops = sorted(ops)
    return [ops[i::n] for i in range(n)]


TASKS = []
for _t in TYPES:
    for _i, _ops in enumerate(_split(OPS, 1)):
        TASKS.append(TypeTask(_t, _ops, f"#{_i}"))
TASKS.append(MiscTask())
TASKS.append(OperandTask())
TASKS.append(Group("C21.message", [MessageVC(c) for c in PAYLOAD_CASES] + [TypeReprVC()]))
TASKS.append(Group("C21.tests", [TestsVC(w, t) for w in ("defined", "undefined", "default") for t in list(TYPES) + ["opaque"]]))

META = {
    "level": "proof",
    "explanation": "Finite table (8 undefined types: the four documented classes and make_logging_undefined over each; 35 operations) x "
                   "symbolic payload: for every cell the method the live class resolves for the operation (class dictionaries along the MRO, "
                   "i.e. the alias chains of the class bodies) is executed symbolically from its real source on an instance with symbolic "
                   "hint/obj/name and the documented outcome (value, or the configured exception with a message naming the variable) is "
                   "discharged for all payloads; each cell is also run natively on the real class. copy/deepcopy/pickle and the "
                   "defined/undefined/default cells are run natively on the real classes (table obligations), the latter also symbolically.",
    "assumptions": [
        "A3 operator dispatch: `u op x` calls type(u).__op__, `x op u` reaches type(u).__rop__ when x's own method declines; `in` falls "
        "back to iteration, truth to __len__, != to the inverse of ==",
        "the configured exception class is represented by UndefinedError and by a private subclass of TemplateRuntimeError unknown to the code",
        "type names are identifier-like, so repr() of object_type_repr's result shows the type name verbatim",
        "A6 user subclasses respect the contracts of the methods they override",
        "logging variants: records are demanded only where make_logging_undefined documents them (print, iteration, truth test, failing "
        "attribute access); operator aliases that bypass the logging override are not required to log (correction of DESIGN A.2)",
    ],
    "trusted_base": ["z3 / cvc5", "pyvc symbolic executor", "CPython copy / pickle (round-trip cells are executed, not modelled)",
                     "dependency specs: repr/str of opaque values as uninterpreted functions, isinstance, id"],
}
