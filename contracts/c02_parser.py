"""C02.parser.precedence: every level of the expression grammar of jinja2.parser.Parser, run from its real source
over an abstract token stream and compared with the documented grammar rule of that level.

Model (shared with C01's parser half: `contracts.c01_parser.install`, helper contracts from the code):
  * `self.stream.current` is an abstract Token (symbolic type / value); `stream.skip_if / next_if / expect /
    __next__ / skip / look` are abstract callees that record a 'call' event with the consumed token;
  * the next-lower `parse_*` method is an abstract callee: it records a 'call' event, returns a fresh operand node
    and leaves the stream at an arbitrary token; node constructors run the real `Node.__init__`.

Specification style (top level, from docs/templates.rst "Expressions" + the property statement): for every method a
*reference rule* - a small nondeterministic recursive-descent rule written from the documented grammar - is run
against the ghost trace (token consumed, callee called, node built) of every path of the real method.  A real path
conforms when some run of the rule consumes exactly the path's events, builds exactly the returned node, and all
token guards the rule states (operator sets of the level, exit condition) are implied by the path condition.

Every operator-parsing rule states the returned node as the operator's node class applied to the parsed operands
(`Nd(cls, ...)`: a node built on this path, of exactly that class, every field given): an operand handed back in place
of an application ("expected a new Pos node, got an operand"), a different class, or a dropped / duplicated operand
fails the structure match on that path.  Operands are arbitrary Expr nodes: isinstance() on them forks (C01's model) and
type() of one of their opaque field values is an uninterpreted class, so special-casing on the operand's shape is
explored, not "unsupported".

Loops are cut by induction, without naming any local variable of the real code:
  base    the real loop is entered from the real pre-state (0 and 1 iterations are followed to the end of the method);
  step    a *generic* loop-head state G is built (everything the loop assigns / writes replaced by an arbitrary value of
          the same shape; the shape is checked to be a fixpoint, as in C01), and the method is followed from G through 0
          and 1 further iterations to its end;
  the rule starts from a hole `H` when the path started from G: the path with 0 iterations binds H (it must be one of
  G's arbitrary values, unchanged), the path with 1 iteration must return  step(H, operands...)  for the SAME H.
  With H = "the left fold of the operands seen so far" this is the loop invariant of the property statement:
  base: fold of one operand; step: fold_{k+1} = Cls[op](fold_k, operand_{k+1}); exit: the fold is returned.
The one loop that parses no operand and only glues adjacent string literals is followed for
at most 3 iterations; their obligations are reported as bounded, with the bound.
"""
from __future__ import annotations

import ast
import inspect
import itertools
import re
import time

import z3

from pyvc.contract import VC, Res, Outcome
from pyvc.values import (Obj, State, Sym, Ref, HObj, HList, HDict, Exc, Event, Unsupported, CheckerError, sym, fresh, fresh_name,
                         fresh_arr)
from pyvc.interp import Raised, Ctl, OK
from pyvc.smt import to_term, check_sat
from pyvc import abstract as A

import jinja2.lexer as L
import jinja2.nodes as N
import jinja2.parser as P
from jinja2.exceptions import TemplateSyntaxError

from contracts import c01_parser as CP

PROP = "C02"
PY_TYPE = z3.Function("py_type", Obj, Obj)
TOK_EVENTS = {"TokenStream.__next__", "TokenStream.expect", "TokenStream.next_if", "TokenStream.skip"}
STREAM_SPECS = ["TokenStream.__next__", "TokenStream.expect", "TokenStream.next_if", "TokenStream.skip_if", "TokenStream.look",
                "TokenStream.skip"]
UNROLL_BOUND = 3


# ------------------------------------------------------------------------------------------------
# ghost trace
# ------------------------------------------------------------------------------------------------

class HavocInfo:
    """the generic loop-head state G of one loop"""

    _uid = itertools.count()

    def __init__(self, key, snap, values, lists, entry_lists):
        self.key = key + (next(HavocInfo._uid),)   # one accumulator per generic state (a nested loop is cut once per outer path)
        self.snap = snap            # State snapshot of G
        self.values = values        # arbitrary values introduced by the havoc (Refs / Syms)
        self.lists = lists          # oid -> (arr, n) of every list havoced
        self.entry_lists = entry_lists


def cur_marker(st, stream):
    st.trace.append(Event("cur", "cur", [st.get(stream).fields["current"]]))


def wrap_with_cursor(I, name, world_of):
    h0 = I.specs[name]

    def h(I_, st, args, kwargs, node):
        out = h0(I_, st, args, kwargs, node)
        for s, v in out:
            if not isinstance(v, Raised):
                cur_marker(s, world_of().stream)
            elif name == "TokenStream.look":
                s.trace.append(Event("call", "TokenStream.look", [], {}, "raise"))
        return out

    I.specs[name] = h


def items_of(st, start=0):
    """ghost trace -> [("tok", ref) | ("tokraise",) | ("call", name, args, kwargs, result) | ("cur", ref) | ("havoc", info)]"""
    out = []
    for e in st.trace[start:]:
        if e.kind == "cur":
            out.append(("cur", e.args[0]))
        elif e.kind == "havoc":
            out.append(("havoc", e.args[0]))
        elif e.kind == "call" and e.name == "TokenStream.look":
            out.append(("lookraise",))
        elif e.kind == "call" and e.name in TOK_EVENTS:
            out.append(("tokraise",) if isinstance(e.result, str) else ("tok", e.result))
        elif e.kind == "call" and e.name.startswith("Parser."):
            out.append(("call", e.name[len("Parser."):], e.args, e.kwargs, e.result))
    return out


COLON_SPECS = ("name:or", "name:and", "name:not", "name:in", "name:if", "name:else", "name:is")


def tok_is(st, tok, spec):
    """token matches the token expression: `type`, or `type:value`"""
    f = st.get(tok).fields
    t = to_term(f["type"], "str")
    if ":" in spec:
        a, b = spec.split(":", 1)
        return z3.And(t == z3.StringVal(a), to_term(f["value"], "str") == z3.StringVal(b))
    return t == z3.StringVal(spec)


def vocabulary_axiom(st):
    """lexer fact (C01.tokeniter / lexer.operators): no token TYPE is spelled like a `type:value` token expression"""
    cs = []
    for t in st.ghost.get("tokens", []):
        ty = to_term(st.get(t).fields["type"], "str")
        cs += [ty != z3.StringVal(sp) for sp in COLON_SPECS]
    return cs


# ------------------------------------------------------------------------------------------------
# expected-structure terms
# ------------------------------------------------------------------------------------------------

class E:
    pass


class Is(E):
    def __init__(self, v):
        self.v = v

    def __repr__(self):
        return f"Is({self.v!r})"


class Const(E):
    def __init__(self, v):
        self.v = v

    def __repr__(self):
        return f"Const({self.v!r})"


class Nd(E):
    """a node built by this method: exactly class `cls`, every field given"""

    def __init__(self, cls, **fields):
        self.cls, self.fields = cls, fields

    def __repr__(self):
        return f"{self.cls.__name__}({', '.join(f'{k}={v!r}' for k, v in self.fields.items())})"


class ListOf(E):
    def __init__(self, elems):
        self.elems = list(elems)

    def __repr__(self):
        return f"[{', '.join(map(repr, self.elems))}]"


class Hole(E):
    """the accumulator of a loop at the generic head state"""

    def __init__(self, key, idx=0):
        self.key, self.idx = key, idx

    def __repr__(self):
        return f"H{self.idx}<{self.key[0].split('.')[-1]}#{self.key[1]}.{self.key[2]}>"


class ListExt(E):
    """the (havoced) list bound to `hole` extended by `extra`"""

    def __init__(self, hole, extra):
        self.hole, self.extra = hole, list(extra)

    def __repr__(self):
        return f"{self.hole!r} + {self.extra!r}"


class Tup(E):
    def __init__(self, elems):
        self.elems = list(elems)

    def __repr__(self):
        return f"({', '.join(map(repr, self.elems))})"


class TokVal(E):
    def __init__(self, tok):
        self.tok = tok

    def __repr__(self):
        return f"value({self.tok!r})"


class TokType(E):
    def __init__(self, tok):
        self.tok = tok

    def __repr__(self):
        return f"type({self.tok!r})"


class StrCat(E):
    def __init__(self, parts):
        self.parts = list(parts)

    def __repr__(self):
        return " + ".join(map(repr, self.parts))


class Cond(E):
    """value depends on a z3 condition: Cond(c, a, b)"""

    def __init__(self, c, a, b):
        self.c, self.a, self.b = c, a, b


class Mismatch(Exception):
    pass


class Deferred(Exception):
    """a hole is needed at a position where it cannot be bound structurally"""


class StopRule(Exception):
    """the real path ended (exception from a callee / the stream) - prefix conformance"""


def as_E(x):
    return x if isinstance(x, E) else (Is(x) if isinstance(x, (Ref, Sym)) else Const(x))


# ------------------------------------------------------------------------------------------------
# one run of a reference rule against one real path
# ------------------------------------------------------------------------------------------------

class _Conds(list):
    """guards of one run, each with the label of the rule clause that states it"""

    def __init__(self, run):
        list.__init__(self)
        self.run, self.labels = run, []

    def append(self, c):
        list.append(self, c)
        self.labels.append(self.run.cur_label)

    def __delitem__(self, k):
        list.__delitem__(self, k)
        del self.labels[k]


class Run:
    cur_label = "built-node"

    def __init__(self, vc, out, items, choices, bindings):
        self.vc, self.out, self.st = vc, out, out.st
        self.items = items
        self.pos = 0
        self.choices = choices
        self.ci = 0
        self.conds = _Conds(self)
        self.bindings = bindings          # (key, idx) -> value, shared over the paths of the method
        self.new_bindings = {}
        self.cur = None
        self.holes = {}
        self.havocs = {}
        self.arity = []
        self._skip_cur()

    # ---- nondeterminism
    def choose(self, n):
        if self.ci < len(self.choices):
            c = self.choices[self.ci]
        else:
            c = 0
            self.choices.append(0)
        if len(self.arity) <= self.ci:
            self.arity.append(n)
        self.ci += 1
        if self.ci > 64:
            raise Mismatch("rule does not terminate on this path")
        return c

    # ---- trace cursor
    def _skip_cur(self):
        while self.pos < len(self.items) and self.items[self.pos][0] == "cur":
            self.cur = self.items[self.pos][1]
            self.pos += 1

    def peek_item(self):
        return self.items[self.pos] if self.pos < len(self.items) else None

    def at_end(self):
        return self.pos >= len(self.items)

    def guard(self, *specs, label=None):
        """the current token is one of specs"""
        self.cur_label = label or "token-guard"
        self.conds.append(z3.Or(*[tok_is(self.st, self.cur, s) for s in specs]))
        self.cur_label = "built-node"

    def guard_not(self, *specs, label=None):
        self.cur_label = label or "token-guard"
        for s in specs:
            self.conds.append(z3.Not(tok_is(self.st, self.cur, s)))
        self.cur_label = "built-node"

    def guard_term(self, c, label=None):
        self.cur_label = label or "guard"
        self.conds.append(c)
        self.cur_label = "built-node"

    def tok(self, *specs):
        """the rule consumes the current token, which is one of specs"""
        it = self.peek_item()
        if it is None:
            raise Mismatch("rule consumes a token, real path has no further event")
        if it[0] == "tokraise":
            # the stream raised (lexer error, or `expect` found another token): the rule stops here
            self.pos += 1
            raise StopRule()
        if it[0] != "tok":
            raise Mismatch(f"rule consumes a token ({'|'.join(specs)}), real path does {it[0]} {it[1] if len(it) > 1 else ''}")
        if self.cur is not None and it[1] != self.cur:
            raise Mismatch("consumed token is not the current token")
        t = it[1]
        if specs:
            self.cur_label = "consumed-token"
            self.conds.append(z3.Or(*[tok_is(self.st, t, s) for s in specs]))
            self.cur_label = "built-node"
        self.pos += 1
        self.cur = None
        self._skip_cur()
        return t

    def call(self, name, **params):
        """the rule descends into parse_<name>(params): returns the operand node the callee produced"""
        it = self.peek_item()
        if it is None:
            raise Mismatch(f"rule calls {name}, real path has no further event")
        if it[0] != "call" or it[1] != name:
            raise Mismatch(f"rule calls {name}, real path does {it[0]} {it[1] if len(it) > 1 else ''}")
        sig = inspect.signature(getattr(P.Parser, name))
        try:
            ba = sig.bind(None, *it[2], **it[3])
        except TypeError as ex:
            raise Mismatch(f"{name}: {ex}")
        ba.apply_defaults()
        real = dict(ba.arguments)
        real.pop("self", None)
        want = {k: p.default for k, p in sig.parameters.items() if k != "self"}
        for k in params:
            if k not in want:
                raise CheckerError(f"rule passes unknown parameter {k} to {name}")
        want.update(params)
        for k in want:
            try:
                self.match(as_E(want[k]), real[k])
            except Mismatch as ex:
                raise Mismatch(f"{name}({k}=...): {ex}")
        self.pos += 1
        if isinstance(it[4], str):
            raise StopRule()
        self.cur = None
        self._skip_cur()
        return it[4]

    def look(self):
        """the rule looks at the token after the current one"""
        it = self.peek_item()
        if it is not None and it[0] == "lookraise":
            self.pos += 1
            raise StopRule()
        pk = self.peeked_at_guard()
        if pk is None:
            raise Mismatch("rule looks one token ahead, real path does not")
        return pk

    def loop_start(self, base, n=1):
        """the rule reaches a loop with accumulator(s) `base`: when the real path restarts here from the generic state,
        the accumulators become holes"""
        it = self.peek_item()
        if it is not None and it[0] == "havoc":
            info = it[1]
            self.pos += 1
            self._skip_cur()
            self.havocs[info.key] = info
            hs = [Hole(info.key, i) for i in range(n)]
            return hs if n > 1 else hs[0]
        return base

    # ---- structure matching
    def hole_value(self, h, v=None, structural=True):
        k = (h.key, h.idx)
        if k in self.bindings:
            return self.bindings[k]
        if k in self.new_bindings:
            return self.new_bindings[k]
        if not structural:
            raise Deferred()
        info = self.havocs[h.key]
        ok = any(CP_same(v, x) for x in info.values)
        if not ok:
            raise Mismatch(f"accumulator position holds {v!r}, which is not the loop's accumulated value")
        self.new_bindings[k] = v
        return v

    def match(self, e, v):
        st = self.st
        if isinstance(e, Is):
            x = e.v
            if isinstance(x, Ref) or isinstance(v, Ref):
                if isinstance(x, Ref) and isinstance(v, Ref):
                    if x != v:
                        raise Mismatch(f"expected {x!r}, got {v!r}")
                    return
                if isinstance(x, Sym) and x.k == "obj" or isinstance(v, Sym) and v.k == "obj":
                    self.conds.append(to_term(x, "obj") == to_term(v, "obj"))
                    return
                raise Mismatch(f"expected {x!r}, got {v!r}")
            if isinstance(x, Sym) and isinstance(v, Sym):
                if x.t.eq(v.t):
                    return
                if x.k != v.k:
                    raise Mismatch(f"expected {x!r}, got {v!r}")
                self.conds.append(x.t == v.t)
                return
            if isinstance(x, Sym) or isinstance(v, Sym):
                s, h = (x, v) if isinstance(x, Sym) else (v, x)
                if isinstance(h, (bool, int, str)) or h is None:
                    try:
                        self.conds.append(s.t == to_term(h, s.k))
                        return
                    except Unsupported:
                        pass
                raise Mismatch(f"expected {x!r}, got {v!r}")
            if x is v or (type(x) is type(v) and x == v):
                return
            raise Mismatch(f"expected {x!r}, got {v!r}")
        if isinstance(e, Const):
            return self.match(Is(e.v), v)
        if isinstance(e, TokVal):
            return self.match(Is(st.get(e.tok).fields["value"]), v)
        if isinstance(e, TokType):
            return self.match(Is(st.get(e.tok).fields["type"]), v)
        if isinstance(e, Hole):
            hv = self.hole_value(e, v)
            return self.match(Is(hv), v)
        if isinstance(e, Nd):
            if not isinstance(v, Ref) or not isinstance(st.get(v), HObj):
                raise Mismatch(f"expected a {e.cls.__name__} node, got {v!r}")
            h = st.get(v)
            if getattr(h, "abstract_node", False) or v.id not in st.allocated:
                raise Mismatch(f"expected a new {e.cls.__name__} node, got an operand")
            if h.cls is not e.cls:
                raise Mismatch(f"expected a {e.cls.__name__} node, got {getattr(h.cls, '__name__', h.cls)}")
            for f in e.cls.fields:
                if f not in e.fields:
                    raise CheckerError(f"rule does not give field {f} of {e.cls.__name__}")
                if f not in h.fields:
                    raise Mismatch(f"{e.cls.__name__}.{f} not set")
                try:
                    self.match(as_E(e.fields[f]), h.fields[f])
                except Mismatch as ex:
                    raise Mismatch(f"{e.cls.__name__}.{f}: {ex}")
            return
        if isinstance(e, ListOf):
            if not isinstance(v, Ref) or not isinstance(st.get(v), HList):
                raise Mismatch(f"expected a list, got {v!r}")
            h = st.get(v)
            if not h.concrete:
                raise Mismatch("expected a list built here, got an accumulated list")
            if len(h.items) != len(e.elems):
                raise Mismatch(f"list of {len(h.items)} items, rule gives {len(e.elems)}")
            for i, (x, y) in enumerate(zip(e.elems, h.items)):
                try:
                    self.match(as_E(x), y)
                except Mismatch as ex:
                    raise Mismatch(f"[{i}]: {ex}")
            return
        if isinstance(e, ListExt):
            if not isinstance(v, Ref) or not isinstance(st.get(v), HList):
                raise Mismatch(f"expected the accumulated list, got {v!r}")
            hv = self.hole_value(e.hole, v)
            if hv != v:
                raise Mismatch("a different list than the accumulated one")
            info = self.havocs[e.hole.key]
            arr0, n0 = info.lists[v.id]
            h = st.get(v)
            if h.concrete:
                raise Mismatch("accumulated list was replaced")
            want = arr0
            for i, x in enumerate(e.extra):
                want = z3.Store(want, n0 + i, self.elem_term(x, h, n0 + i))
            self.conds.append(h.n == n0 + len(e.extra))
            self.conds.append(h.arr == want)
            return
        if isinstance(e, Tup):
            if not isinstance(v, tuple) or len(v) != len(e.elems):
                raise Mismatch(f"expected a {len(e.elems)}-tuple, got {v!r}")
            for i, (x, y) in enumerate(zip(e.elems, v)):
                try:
                    self.match(as_E(x), y)
                except Mismatch as ex:
                    raise Mismatch(f"({i}): {ex}")
            return
        if isinstance(e, StrCat):
            parts = []
            for p in e.parts:
                if isinstance(p, str):
                    parts.append(z3.StringVal(p))
                elif isinstance(p, TokVal):
                    parts.append(to_term(st.get(p.tok).fields["value"], "str"))
                elif isinstance(p, Hole):
                    parts.append(to_term(self.hole_value(p, structural=False), "str"))
                elif isinstance(p, Sym):
                    parts.append(p.t)
                else:
                    raise CheckerError(f"StrCat part {p!r}")
            want = parts[0] if len(parts) == 1 else z3.Concat(*parts)
            if isinstance(v, str):
                v = Sym(z3.StringVal(v), "str")
            if not (isinstance(v, Sym) and v.k == "str"):
                raise Mismatch(f"expected a string, got {v!r}")
            self.conds.append(v.t == want)
            return
        raise CheckerError(f"expected-structure term {e!r}")

    def elem_term(self, x, h, idx):
        """z3 term of a list element described by x"""
        x = as_E(x)
        if isinstance(x, (Is, Const)):
            return to_term(x.v, h.k)
        if isinstance(x, Nd):
            # the node of that shape built on this path
            st = self.st
            cands = []
            for i in sorted(st.allocated):
                ho = st.heap[i]
                if isinstance(ho, HObj) and ho.cls is x.cls and not getattr(ho, "abstract_node", False):
                    save = len(self.conds)
                    try:
                        self.match(x, Ref(i))
                        cands.append(Ref(i))
                        break
                    except Mismatch:
                        del self.conds[save:]
            if not cands:
                raise Mismatch(f"no {x.cls.__name__} node of the expected content was built")
            return to_term(cands[0], "obj")
        raise CheckerError(f"list element {x!r}")


def CP_same(a, b):
    if isinstance(a, Ref) or isinstance(b, Ref):
        return isinstance(a, Ref) and isinstance(b, Ref) and a == b
    if isinstance(a, Sym) and isinstance(b, Sym):
        return a.t.eq(b.t)
    return a is b


# ------------------------------------------------------------------------------------------------
# loop handling: base / generic step (induction) or bounded unrolling
# ------------------------------------------------------------------------------------------------

def glues_literals(loop):
    """a loop that parses no operand and collects token values in a list (adjacent string literals)"""
    calls = [sub.func.attr for sub in ast.walk(loop) if isinstance(sub, ast.Call) and isinstance(sub.func, ast.Attribute)]
    return "append" in calls and not any(c.startswith("parse") for c in calls)


def install_loops(I, vc):
    def run_iter(n, s, fr, heads, exits):
        for s1, tv in I.ev(n.test, s, fr):
            if isinstance(tv, Raised):
                exits.append((s1, Ctl("raise", tv.exc)))
                continue
            for s2, b in I.truth(s1, tv, fr, n):
                if not b:
                    exits.extend(I.exec_block(n.orelse, s2, fr) if n.orelse else [(s2, OK)])
                    continue
                for s3, c in I.exec_block(n.body, s2, fr):
                    if c.kind in ("ok", "continue"):
                        heads.append(s3)
                    elif c.kind == "break":
                        exits.append((s3, OK))
                    else:
                        exits.append((s3, c))

    def unrolled(n, st, fr, key):
        active, exits = [st], []
        for _ in range(UNROLL_BOUND + 1):
            nxt = []
            for s in active:
                run_iter(n, s, fr, nxt, exits)
            active = nxt
        # paths that need more than UNROLL_BOUND iterations are cut: the obligation is bounded
        vc.cut_loops[key] = vc.cut_loops.get(key, 0) + len(active)
        for s, c in exits:
            s.ghost = dict(s.ghost)
            s.ghost["c02.bounded"] = True
        return exits

    def st_While(n, st, fr):
        ordinal = I.loop_ordinal(fr, n)
        key = (fr.qualname, ordinal)
        if glues_literals(n):
            return unrolled(n, st, fr, key)
        stream = vc.world.stream
        exits = []
        entry = st.fork()
        entry_ids = set(entry.heap)
        heads1 = []
        run_iter(n, st, fr, heads1, exits)
        # base cases: `entry_iters` iterations from the real entry state, then exit
        hs = heads1
        for _ in range(getattr(vc, "entry_iters", 1) - 1):
            nxt = []
            for h in [x.fork() for x in hs]:
                run_iter(n, h, fr, nxt, exits)
            hs = nxt
        for h in [x.fork() for x in hs]:
            run_iter(n, h, fr, [], exits)
        if not heads1:
            return exits
        names = sorted(CP._assigned_names(n))

        def collect(heads, shapes, written):
            for h in heads:
                loc = h.frames[fr.fid]
                for oid in entry_ids:
                    ho = h.heap.get(oid)
                    if isinstance(ho, HObj) and ho.cls is L.TokenStream:
                        written[(oid, "_peek:" + ("some" if ho.fields.get("_peek") is not None else "none"))] = ("mode",)
                for nm in names:
                    sh = shape_of(h, loc[nm]) if nm in loc else ("unbound",)
                    shapes[nm] = sh if nm not in shapes else shape_join(shapes[nm], sh)
                for (oid, fld) in h.written - entry.written:
                    if oid not in entry_ids:
                        continue
                    ho = h.heap[oid]
                    if isinstance(ho, HObj):
                        if fld == "*":
                            continue
                        sh = shape_of(h, ho.fields[fld]) if fld in ho.fields else ("unbound",)
                        k2 = (oid, fld)
                        written[k2] = sh if k2 not in written else shape_join(written[k2], sh)
                    else:
                        written[(oid, "*")] = ("havoc",)

        shapes, written = {}, {}
        collect(heads1, shapes, written)
        for rnd in range(5):
            heads2, exits2 = [], []
            n_obl = len(I.obligations)
            modes = [m for m in ("none", "some") if any(k[1] == "_peek:" + m for k in written)] or ["none"]
            for mode in modes:
                g = entry.fork()
                loc = g.frames[fr.fid]
                values, lists, entry_lists = [], {}, {}
                for nm, sh in shapes.items():
                    if sh == ("unbound",):
                        loc.pop(nm, None)
                    else:
                        loc[nm] = CP.materialise_shape(g, sh, nm)
                        values.append(loc[nm])
                for (oid, fld), sh in written.items():
                    ho = g.heap[oid]
                    if sh == ("mode",):
                        continue
                    if isinstance(ho, HList):
                        eh = entry.heap[oid]
                        n_entry = z3.IntVal(len(eh.items)) if eh.concrete else eh.n
                        ho.items, ho.arr, ho.k = None, fresh_arr("havoc_list", "obj"), "obj"
                        ho.n = z3.Int(fresh_name("havoc_n"))
                        # lists only grow in these loops: proved for every iteration below (list_grows)
                        g.assume(ho.n >= n_entry)
                        lists[oid] = (ho.arr, ho.n)
                        entry_lists[oid] = n_entry
                        values.append(Ref(oid))
                    elif isinstance(ho, HDict):
                        raise Unsupported("loop writes a dict", n)
                    elif isinstance(ho, HObj):
                        if sh == ("unbound",):
                            ho.fields.pop(fld, None)
                        elif ho.cls is L.TokenStream and fld == "current":
                            ho.fields["current"] = CP.fresh_token(g, "cur")
                            ho.fields["_peek"] = CP.fresh_token(g, "peek", after=ho.fields["current"]) if mode == "some" else None
                        else:
                            ho.fields[fld] = CP.materialise_shape(g, sh, f"{ho.path}.{fld}")
                info = HavocInfo(key, None, values, lists, entry_lists)
                g.trace.append(Event("havoc", "havoc", [info]))
                cur_marker(g, stream)
                info.snap = g.fork()
                h2 = []
                run_iter(n, g, fr, h2, exits2)
                for h in h2:
                    for oid, n_entry in entry_lists.items():
                        ho = h.heap[oid]
                        I.obligations.append((f"loop{ordinal}.list_grows", list(h.pc), (z3.IntVal(len(ho.items)) if ho.concrete else ho.n) >= n_entry, n.lineno))
                for h in [x.fork() for x in h2]:
                    run_iter(n, h, fr, [], exits2)   # 1 iteration from the generic state, then exit
                heads2 += h2
            shapes2, written2 = dict(shapes), dict(written)
            collect(heads2, shapes2, written2)
            if shapes2 == shapes and written2 == written:
                vc.inducted.add(key)
                return exits + exits2
            del I.obligations[n_obl:]
            shapes, written = shapes2, written2
        raise Unsupported("loop shape did not stabilise", n)

    I.st_While = st_While


# ------------------------------------------------------------------------------------------------
# shapes: as in C01, but boolean constants every reached loop head agrees on are kept
# ------------------------------------------------------------------------------------------------

_shape_of0, _shape_join0 = CP.shape_of, CP.shape_join


def shape_of(st, v, depth=0):
    if isinstance(v, bool) and depth == 0:
        return ("same", v)
    return _shape_of0(st, v, depth)


def shape_join(a, b):
    def isb(x):
        return x == ("bool",) or (x[0] == "same" and isinstance(x[1], bool))
    if a != b and isb(a) and isb(b):
        return ("bool",)
    return _shape_join0(a, b)


# ------------------------------------------------------------------------------------------------
# rule-side accumulators
# ------------------------------------------------------------------------------------------------

class RList:
    """a list accumulated by the rule: concrete items, or the loop's list hole plus items"""

    def __init__(self, items=(), hole=None):
        self.items, self.hole = list(items), hole

    def append(self, x):
        self.items.append(x)

    def expected(self):
        return ListOf(self.items) if self.hole is None else ListExt(self.hole, self.items)

    def len_is(self, R, k):
        """condition len(list) == k (Python bool or z3)"""
        if self.hole is None:
            return len(self.items) == k
        ref = R.hole_value(self.hole, structural=False)
        arr0, n0 = R.havocs[self.hole.key].lists[ref.id]
        return n0 + len(self.items) == k

    def first(self, R):
        if self.hole is None:
            return self.items[0]
        ref = R.hole_value(self.hole, structural=False)
        arr0, n0 = R.havocs[self.hole.key].lists[ref.id]
        arr = arr0
        for i, x in enumerate(self.items):
            if not isinstance(x, (Ref, Sym)):
                raise CheckerError("first element of a list of built nodes")
            arr = z3.Store(arr, n0 + i, to_term(x, "obj"))
        return Sym(z3.Select(arr, 0), "obj")


def is_none_cond(R, x):
    """condition `x is None` for an accumulator value"""
    if x is None:
        return True
    if isinstance(x, Hole):
        v = R.hole_value(x, structural=False)
        if v is None:
            return True
        if isinstance(v, Ref):
            return False
        from pyvc.smt import host_const
        return to_term(v, "obj") == host_const(None)
    return False


def require(R, cond, fail_here=True):
    """documented well-formedness condition: holds, or the method fails with a syntax error"""
    if cond is True:
        return
    if cond is False:
        R.fail()
    if R.choose(2) == 0:
        R.guard_term(cond)
    else:
        R.guard_term(z3.Not(cond))
        R.fail()


def Run_fail(self):
    self.failed = True
    raise StopRule()


Run.fail = Run_fail
Run.failed = False


def loop_list(R, lst):
    """rule reaches a loop accumulating into `lst`"""
    it = R.peek_item()
    if it is not None and it[0] == "havoc":
        info = it[1]
        R.pos += 1
        R._skip_cur()
        R.havocs[info.key] = info
        h = Hole(info.key, 0)
        if len(info.lists) == 1:
            R.new_bindings.setdefault((info.key, 0), Ref(next(iter(info.lists))))
        return RList([], h), True
    return lst, False


# ------------------------------------------------------------------------------------------------
# the documented grammar, one rule per level  (docs/templates.rst "Expressions"; DESIGN C02)
#
#   condexpr := or ("if" or ["else" condexpr])*            a if b else c ; else optional
#   or       := and ("or" and)*                           left fold, nodes.Or
#   and      := not ("and" not)*                          left fold, nodes.And
#   not      := "not" not | compare
#   compare  := math1 (cmpop math1)*                      one Compare node, operands in source order
#               cmpop: == != < <= > >= | "in" | "not" "in"
#   math1    := concat (("+"|"-") concat)*                left fold Add / Sub
#   concat   := math2 ("~" math2)*                        one Concat node, operands in source order
#   math2    := pow (("*"|"/"|"//"|"%") pow)*             left fold Mul / Div / FloorDiv / Mod
#   pow      := unary ("**" unary)*                       left fold ("chained pow is evaluated left to right")
#   unary    := ("-"|"+") unary' | primary ; then postfix ; then filters/tests (when with_filter)
#   postfix  := ( "." name | "." integer | "[" subscribed,* "]" | call )*
#   filters  := ( "|" filter | "is" test | call )*
#   filter   := name ("." name)* [call-args]              Filter(node, dotted name, args...) ; chained left to right
#   test     := "is" ["not"] name ("." name)* [call-args | operand]    ("If the test only takes one argument, you can leave
#               out the parentheses"): the bare operand is a primary + postfix and does not start with a keyword that continues
#               the enclosing expression (else / or / and / if / in / not); `is` again is an error
#   call-args:= "(" [arg ("," arg)* [","]] ")"            positional, then keyword (name "=" expr), "*" expr, "**" expr;
#               positional after keyword / after "*" / "**", and anything after "**" are syntax errors
#
# Decisions where docs/templates.rst is silent (also listed in META of contracts/c02.py):
#   * unary minus/plus bind tighter than `**` on their operand and take postfix but no filter (property statement);
#   * `x[]` is a subscript with the empty tuple; `x.0` is the item 0.
# ------------------------------------------------------------------------------------------------

def fold_rule(lower, ops, lower_params=None):
    specs = list(ops)

    def rule(R, **_):
        acc = R.call(lower, **(lower_params or {}))
        acc = R.loop_start(acc)
        while True:
            c = R.choose(len(specs) + 1)
            if c == len(specs):
                R.guard_not(*specs)
                break
            R.tok(specs[c])
            r = R.call(lower, **(lower_params or {}))
            acc = Nd(ops[specs[c]], left=acc, right=r)
        return acc

    return rule


def r_condexpr(R, **_):
    acc = R.call("parse_or")
    acc = R.loop_start(acc)
    while True:
        if R.choose(2) == 1:
            R.guard_not("name:if")
            break
        R.tok("name:if")
        test = R.call("parse_or")
        if R.choose(2) == 0:
            R.tok("name:else")
            other = R.call("parse_condexpr")
        else:
            R.guard_not("name:else")
            other = None
        acc = Nd(N.CondExpr, test=test, expr1=acc, expr2=other)
    return acc


def r_not(R, **_):
    if R.choose(2) == 0:
        R.tok("name:not")
        return Nd(N.Not, node=R.call("parse_not"))
    R.guard_not("name:not")
    return R.call("parse_compare")


CMP_TOKENS = ("eq", "ne", "lt", "lteq", "gt", "gteq")


def r_compare(R, **_):
    expr = R.call("parse_math1")
    ops, _h = loop_list(R, RList())
    while True:
        c = R.choose(4)
        if c == 0:
            t = R.tok(*CMP_TOKENS)
            ops.append(Nd(N.Operand, op=TokType(t), expr=R.call("parse_math1")))
        elif c == 1:
            R.guard_not(*CMP_TOKENS)
            R.tok("name:in")
            ops.append(Nd(N.Operand, op="in", expr=R.call("parse_math1")))
        elif c == 2:
            R.guard_not(*CMP_TOKENS)
            R.guard("name:not")
            pk = R.look()
            R.guard_term(tok_is(R.st, pk, "name:in"))
            R.tok("name:not")
            R.tok("name:in")
            ops.append(Nd(N.Operand, op="notin", expr=R.call("parse_math1")))
        else:
            R.guard_not(*CMP_TOKENS)
            R.guard_not("name:in")
            if R.choose(2) == 0:
                R.guard_not("name:not")
            else:
                R.guard("name:not")
                pk = R.look()
                R.guard_term(z3.Not(tok_is(R.st, pk, "name:in")))
            break
    c0 = ops.len_is(R, 0)
    if c0 is True:
        return expr
    if c0 is False:
        return Nd(N.Compare, expr=expr, ops=ops.expected())
    if R.choose(2) == 0:
        R.guard_term(c0)
        return expr
    R.guard_term(z3.Not(c0))
    return Nd(N.Compare, expr=expr, ops=ops.expected())


def Run_peeked(self):
    """the token after the current one, when the real path looked at it"""
    w = self.vc.world
    return self.st.get(w.stream).fields.get("_peek")


Run.peeked = Run_peeked


def r_concat(R, **_):
    first = R.call("parse_math2")
    args, _h = loop_list(R, RList([first]))
    while True:
        if R.choose(2) == 1:
            R.guard_not("tilde")
            break
        R.tok("tilde")
        args.append(R.call("parse_math2"))
    c1 = args.len_is(R, 1)
    if c1 is True:
        return args.first(R)
    if c1 is False:
        return Nd(N.Concat, nodes=args.expected())
    if R.choose(2) == 0:
        R.guard_term(c1)
        return args.first(R)
    R.guard_term(z3.Not(c1))
    return Nd(N.Concat, nodes=args.expected())


def r_unary(R, with_filter=True, **_):
    c = R.choose(3)
    if c == 0:
        R.tok("sub")
        node = Nd(N.Neg, node=R.call("parse_unary", with_filter=False))
    elif c == 1:
        R.tok("add")
        node = Nd(N.Pos, node=R.call("parse_unary", with_filter=False))
    else:
        R.guard_not("sub", "add")
        node = R.call("parse_primary")
    node = R.call("parse_postfix", node=node)
    if with_filter is True:
        return R.call("parse_filter_expr", node=node)
    if with_filter is False:
        return node
    if R.choose(2) == 0:
        R.guard_term(with_filter.t)
        return R.call("parse_filter_expr", node=node)
    R.guard_term(z3.Not(with_filter.t))
    return node


def value_in(R, tok, values):
    v = to_term(R.st.get(tok).fields["value"], "str")
    return z3.Or(*[v == z3.StringVal(x) for x in values])


PRIMARY_STARTS = ("name", "string", "integer", "float", "lparen", "lbracket", "lbrace")


def r_primary(R, with_namespace=False, **_):
    c = R.choose(10)
    if c == 0:
        t = R.tok("name")
        R.guard_term(value_in(R, t, ("true", "false", "True", "False")))
        return Nd(N.Const, value=Is(Sym(value_in(R, t, ("true", "True")), "bool")))
    if c == 1:
        t = R.tok("name")
        R.guard_term(value_in(R, t, ("none", "None")))
        return Nd(N.Const, value=None)
    if c in (2, 3):
        t = R.tok("name")
        R.guard_term(z3.Not(value_in(R, t, ("true", "false", "True", "False", "none", "None"))))
        ns = with_namespace if isinstance(with_namespace, bool) else with_namespace.t
        if c == 2:
            # namespace reference `ns.attr` (only where assignment targets are parsed)
            if ns is False:
                raise Mismatch("no namespace references here")
            if ns is not True:
                R.guard_term(ns)
            R.tok("dot")
            a = R.tok("name")
            return Nd(N.NSRef, name=TokVal(t), attr=TokVal(a))
        if ns is True:
            R.guard_not("dot")
        elif ns is not False:
            R.guard_term(z3.Or(z3.Not(ns), z3.Not(tok_is(R.st, R.cur, "dot"))))
        return Nd(N.Name, name=TokVal(t), ctx="load")
    if c == 4:
        t = R.tok("string")
        parts = [TokVal(t)]
        while R.choose(2) == 0:
            parts.append(TokVal(R.tok("string")))
        R.guard_not("string")
        return Nd(N.Const, value=StrCat(parts))
    if c == 5:
        t = R.tok("integer", "float")
        return Nd(N.Const, value=TokVal(t))
    if c == 6:
        R.tok("lparen")
        node = R.call("parse_tuple", explicit_parentheses=True)
        R.tok("rparen")
        return node
    if c == 7:
        R.guard("lbracket")
        return R.call("parse_list")
    if c == 8:
        R.guard("lbrace")
        return R.call("parse_dict")
    R.guard_not(*PRIMARY_STARTS)
    R.fail()


def r_postfix(R, node=None, **_):
    acc = R.loop_start(node)
    while True:
        c = R.choose(3)
        if c == 0:
            R.guard("dot", "lbracket")
            acc = R.call("parse_subscript", node=acc)
        elif c == 1:
            R.guard("lparen")
            acc = R.call("parse_call", node=acc)
        else:
            R.guard_not("dot", "lbracket", "lparen")
            break
    return acc


def r_filter_expr(R, node=None, **_):
    acc = R.loop_start(node)
    while True:
        c = R.choose(4)
        if c == 0:
            R.guard("pipe")
            acc = R.call("parse_filter", node=acc)
        elif c == 1:
            R.guard("name:is")
            acc = R.call("parse_test", node=acc)
        elif c == 2:
            R.guard("lparen")
            acc = R.call("parse_call", node=acc)
        else:
            R.guard_not("pipe", "name:is", "lparen")
            break
    return acc


def r_subscript(R, node=None, **_):
    c = R.choose(5)
    if c == 0:
        R.tok("dot")
        t = R.tok("name")
        return Nd(N.Getattr, node=node, attr=TokVal(t), ctx="load")
    if c == 1:
        R.tok("dot")
        t = R.tok("integer")
        return Nd(N.Getitem, node=node, arg=Nd(N.Const, value=TokVal(t)), ctx="load")
    if c == 2:
        R.tok("dot")
        R.guard_not("name", "integer")
        R.tok()
        R.fail()
    if c == 3:
        R.guard_not("dot", "lbracket")
        R.tok()
        R.fail()
    R.tok("lbracket")
    args, from_hole = loop_list(R, RList())
    while True:
        if R.choose(2) == 1:
            R.guard("rbracket")
            break
        R.guard_not("rbracket")
        c0 = args.len_is(R, 0)
        if c0 is False:
            R.tok("comma")
        elif c0 is not True:
            if R.choose(2) == 0:
                R.guard_term(c0)
            else:
                R.guard_term(z3.Not(c0))
                R.tok("comma")
        args.append(R.call("parse_subscribed"))
    R.tok("rbracket")
    c1 = args.len_is(R, 1)
    one = lambda: Nd(N.Getitem, node=node, arg=args.first(R), ctx="load")  # noqa: E731

    def many():
        # a slice is a subscript of its own (x[a:b]); among several subscript items it is a syntax error
        flags = []
        for it in args.items:
            h = R.st.get(it) if isinstance(it, Ref) else None
            f = h.fields.get("isinst:Slice") if h is not None else None
            flags.append(to_term(f, "bool") if f is not None else None)
        known = args.hole is None and all(f is not None for f in flags)
        if R.choose(2) == 1:
            if known:
                R.guard_term(z3.Or(*flags) if flags else z3.BoolVal(False), label="slice-among-subscript-items")
            R.fail()
        if known and flags:
            R.guard_term(z3.Not(z3.Or(*flags)), label="slice-among-subscript-items")
        return Nd(N.Getitem, node=node, arg=Nd(N.Tuple, items=args.expected(), ctx="load"), ctx="load")

    if c1 is True:
        return one()
    if c1 is False:
        return many()
    if R.choose(2) == 0:
        R.guard_term(c1)
        return one()
    R.guard_term(z3.Not(c1))
    return many()


def r_subscribed(R, **_):
    c = R.choose(3)
    if c == 0:
        R.tok("colon")
        start = None
    elif c == 1:
        R.guard_not("colon")
        node = R.call("parse_expression")
        R.guard_not("colon")
        return node
    else:
        R.guard_not("colon")
        start = R.call("parse_expression")
        R.tok("colon")
    if R.choose(2) == 0:
        R.guard("colon", "rbracket", "comma")
        stop = None
    else:
        R.guard_not("colon", "rbracket", "comma")
        stop = R.call("parse_expression")
    c = R.choose(3)
    if c == 0:
        R.guard_not("colon")
        step = None
    elif c == 1:
        R.tok("colon")
        R.guard("rbracket", "comma")
        step = None
    else:
        R.tok("colon")
        R.guard_not("rbracket", "comma")
        step = R.call("parse_expression")
    return Nd(N.Slice, start=start, stop=stop, step=step)


def r_call_args(R, **_):
    R.tok("lparen")
    it = R.peek_item()
    if it is not None and it[0] == "havoc":
        info = it[1]
        R.pos += 1
        R._skip_cur()
        R.havocs[info.key] = info
        args, kwargs = RList([], Hole(info.key, 0)), RList([], Hole(info.key, 1))
        dyn_args, dyn_kwargs = Hole(info.key, 2), Hole(info.key, 3)
        first = False
    else:
        args, kwargs, dyn_args, dyn_kwargs, first = RList(), RList(), None, None, True

    def b(x):
        return x if isinstance(x, bool) else x

    def conj(*cs):
        cs = [c for c in cs if c is not True]
        if any(c is False for c in cs):
            return False
        return True if not cs else z3.And(*cs)

    while True:
        if R.choose(2) == 1:
            R.guard("rparen")
            break
        R.guard_not("rparen")
        if not first:
            R.tok("comma")
            if R.choose(2) == 1:
                R.guard("rparen")     # trailing comma
                break
            R.guard_not("rparen")
        first = False
        c = R.choose(4)
        if c == 0:
            R.guard("mul")
            require(R, conj(is_none_cond(R, dyn_args), is_none_cond(R, dyn_kwargs)))
            R.tok("mul")
            dyn_args = R.call("parse_expression")
        elif c == 1:
            R.guard("pow")
            require(R, is_none_cond(R, dyn_kwargs))
            R.tok("pow")
            dyn_kwargs = R.call("parse_expression")
        elif c == 2:
            R.guard_not("mul", "pow")
            R.guard("name")
            pk = R.look()
            R.guard_term(tok_is(R.st, pk, "assign"))
            require(R, is_none_cond(R, dyn_kwargs))
            # "keyword arguments like in Python": a repeated keyword is a syntax error.  Decidable here for the keywords this
            # rule has seen itself; for the part of the list behind the generic loop head it is C01.parse_call_args.distinct
            # Python compares identifiers after NFKC normalisation (PEP 3131): unicodedata.normalize("NFKC", .) is an opaque pure
            # dependency, the same uninterpreted function C01 uses
            seen = [CP.NFKC(to_term(R.st.get(e.fields["key"].tok).fields["value"], "str")) for e in kwargs.items]
            dup = z3.Or(*[k == CP.NFKC(to_term(R.st.get(R.cur).fields["value"], "str")) for k in seen]) if seen else False
            if kwargs.hole is None:
                require(R, True if dup is False else z3.Not(dup))
            elif R.choose(2) == 1:
                R.fail()
            key = R.tok("name")
            R.tok("assign")
            value = R.call("parse_expression")
            kwargs.append(Nd(N.Keyword, key=TokVal(key), value=value))
        else:
            R.guard_not("mul", "pow")
            if R.choose(2) == 0:
                R.guard_not("name")
            else:
                R.guard("name")
                pk = R.look()
                R.guard_term(z3.Not(tok_is(R.st, pk, "assign")))
            require(R, conj(is_none_cond(R, dyn_args), is_none_cond(R, dyn_kwargs), kwargs.len_is(R, 0)))
            args.append(R.call("parse_expression"))
    R.tok("rparen")
    return Tup([args.expected(), kwargs.expected(), dyn_args, dyn_kwargs])


def Run_peeked_at_guard(self):
    """the look-ahead token the real path created while the current token was current (None when it did not look)"""
    st = self.st
    toks = st.ghost.get("tokens", [])
    for i, t in enumerate(toks):
        if t == self.cur and i + 1 < len(toks) and st.get(toks[i + 1]).path == "peek":
            return toks[i + 1]
    return None


Run.peeked_at_guard = Run_peeked_at_guard


def dotted_name(R):
    t = R.tok("name")
    parts = [TokVal(t)]
    h = R.loop_start(None)
    if isinstance(h, Hole):
        parts = [h]
    while R.choose(2) == 0:
        R.tok("dot")
        parts += [".", TokVal(R.tok("name"))]
    R.guard_not("dot")
    if len(parts) == 1:
        return parts[0]
    return StrCat(parts)


def r_call(R, node=None, **_):
    r = R.call("parse_call_args")
    return Nd(N.Call, node=node, args=r[0], kwargs=r[1], dyn_args=r[2], dyn_kwargs=r[3])


def r_filter(R, node=None, start_inline=False, **_):
    acc = R.loop_start(node)
    inline = start_inline is True and not isinstance(acc, Hole)
    while True:
        if not inline:
            if R.choose(2) == 1:
                R.guard_not("pipe")
                break
            R.tok("pipe")
        name = dotted_name(R)
        if R.choose(2) == 0:
            R.guard("lparen")
            r = R.call("parse_call_args")
            a, k, da, dk = r
        else:
            R.guard_not("lparen")
            a, k, da, dk = ListOf([]), ListOf([]), None, None
        acc = Nd(N.Filter, node=acc, name=name, args=a, kwargs=k, dyn_args=da, dyn_kwargs=dk)
        inline = False
    return acc


TEST_ARG_STARTS = ("name", "string", "integer", "float", "lparen", "lbracket", "lbrace")
# "If the test only takes one argument, you can leave out the parentheses": the argument is an operand; a keyword that
# continues the enclosing expression (`x is defined if y else z`, `... and ...`, `... in ...`) does not start one
TEST_ARG_STOP = ("name:else", "name:or", "name:and", "name:if", "name:in", "name:not")


def r_test(R, node=None, **_):
    R.tok()                      # the `is` keyword (callers enter on name:is only: see the filter rule)
    if R.choose(2) == 0:
        R.tok("name:not")
        negated = True
    else:
        R.guard_not("name:not")
        negated = False
    name = dotted_name(R)
    kwargs, da, dk = ListOf([]), None, None
    c = R.choose(4)
    if c == 0:
        R.guard("lparen")
        args, kwargs, da, dk = R.call("parse_call_args")
    elif c in (1, 2):
        R.guard(*TEST_ARG_STARTS)
        R.guard_not("lparen")
        R.guard_not(*TEST_ARG_STOP, label="bare-test-argument-is-an-expression-keyword")
        if c == 1:
            R.guard("name:is")
            R.fail()
        R.guard_not("name:is")
        arg = R.call("parse_primary")
        arg = R.call("parse_postfix", node=arg)
        args = ListOf([arg])
    else:
        R.guard_term(z3.Or(z3.Not(z3.Or(*[tok_is(R.st, R.cur, s) for s in TEST_ARG_STARTS])),
                           *[tok_is(R.st, R.cur, s) for s in TEST_ARG_STOP]), label="test-without-argument")
        args = ListOf([])
    t = Nd(N.Test, node=node, name=name, args=args, kwargs=kwargs, dyn_args=da, dyn_kwargs=dk)
    return Nd(N.Not, node=t) if negated else t


def _node_arg(st):
    return CP.abstract_node(st, N.Expr, "arg_node")


LEVELS = {
    # method: (rule, [(label, builder(st) -> kwargs)], loop policies)
    "parse_condexpr": (r_condexpr, None, {}),
    "parse_or": (fold_rule("parse_and", {"name:or": N.Or}), None, {}),
    "parse_and": (fold_rule("parse_not", {"name:and": N.And}), None, {}),
    "parse_not": (r_not, None, {}),
    "parse_compare": (r_compare, None, {}),
    "parse_math1": (fold_rule("parse_concat", {"add": N.Add, "sub": N.Sub}), None, {}),
    "parse_concat": (r_concat, None, {}),
    "parse_math2": (fold_rule("parse_pow", {"mul": N.Mul, "div": N.Div, "floordiv": N.FloorDiv, "mod": N.Mod}), None, {}),
    "parse_pow": (fold_rule("parse_unary", {"pow": N.Pow}), None, {}),
    "parse_unary": (r_unary, [("with_filter=*", lambda st: {"with_filter": sym("with_filter", "bool")}), ("default", lambda st: {})], {}),
    "parse_primary": (r_primary, [("with_namespace=*", lambda st: {"with_namespace": sym("with_namespace", "bool")}), ("default", lambda st: {})],
                      {}),
    "parse_postfix": (r_postfix, [("", lambda st: {"node": _node_arg(st)})], {}),
    "parse_filter_expr": (r_filter_expr, [("", lambda st: {"node": _node_arg(st)})], {}),
    "parse_subscript": (r_subscript, [("", lambda st: {"node": _node_arg(st)})], {}),
    "parse_subscribed": (r_subscribed, None, {}),
    "parse_call_args": (r_call_args, None, {}),
    "parse_call": (r_call, [("", lambda st: {"node": _node_arg(st)})], {}),
    "parse_filter": (r_filter, [("node", lambda st: {"node": _node_arg(st)}),
                                ("inline", lambda st: {"node": None, "start_inline": True}),
                                ("node,inline", lambda st: {"node": _node_arg(st), "start_inline": True})],
                     {}),
    "parse_test": (r_test, [("", lambda st: {"node": _node_arg(st)})], {}),
}


# ------------------------------------------------------------------------------------------------
# running a rule against a path
# ------------------------------------------------------------------------------------------------

def run_rule(vc, rule, params, out, bindings, final=False):
    """-> (status, cond, detail, new_bindings)   status: ok | mismatch | deferred"""
    items = items_of(out.st)
    own_raise = out.raised and out.value.cls is not None
    stack = [[]]
    good, reasons, deferred, nb_all = [], [], False, []
    runs = out.rule_runs = []
    n_runs = 0
    while stack:
        choices = stack.pop()
        n_runs += 1
        if n_runs > 4000:
            raise Unsupported("rule has too many runs on one path")
        R = Run(vc, out, items, list(choices), bindings)
        status, why = None, ""
        try:
            exp = rule(R, **params)
            if out.raised:
                status, why = "mismatch", "rule returns, real path raises"
            elif not R.at_end():
                status, why = "mismatch", f"real path has further events: {R.items[R.pos][:2]}"
            else:
                R.match(as_E(exp), out.value)
                status = "ok"
        except StopRule:
            if not out.raised:
                status, why = "mismatch", "rule stops at an error, real path returns"
            elif R.failed != own_raise:
                status, why = "mismatch", ("rule reports a syntax error here, real path fails in a callee" if R.failed else
                                           f"real path raises {out.value!r} itself, rule continues")
            elif not R.at_end():
                status, why = "mismatch", "rule stops before the end of the real path"
            else:
                status = "ok"
        except Mismatch as ex:
            status, why = "mismatch", str(ex)
        except Deferred:
            status = "deferred"
        for i in range(len(choices), len(R.choices)):
            for c in range(1, R.arity[i]):
                stack.append(R.choices[:i] + [c])
        if status == "ok":
            cs = [c for c in R.conds if c is not True]
            good.append(False if any(c is False for c in cs) else (z3.And(*cs) if cs else True))
            nb_all.append(R.new_bindings)
            runs.append((list(R.conds), list(R.conds.labels)))
        elif status == "deferred":
            deferred = True
            reasons.append("the accumulator of the loop cannot be identified")
        else:
            reasons.append(why)
    if deferred and not final:
        return "deferred", None, "", nb_all
    if not good:
        seen = []
        for r in reasons:
            if r not in seen:
                seen.append(r)
        return "mismatch", False, "; ".join(seen[:4]), []
    if any(g is True for g in good):
        return "ok", True, "", nb_all
    gs = [g for g in good if g is not False]
    return "ok", (z3.Or(*gs) if gs else False), "", nb_all


def describe_items(st, items):
    out = []
    for it in items:
        if it[0] == "tok":
            f = st.get(it[1]).fields
            out.append(f"consume<{f['type'].t if isinstance(f['type'], Sym) else f['type']}>")
        elif it[0] == "tokraise":
            out.append("consume!raises")
        elif it[0] == "call":
            out.append(f"{it[1]}()" + ("!raises" if isinstance(it[4], str) else ""))
        elif it[0] == "havoc":
            out.append("<generic loop head>")
    return " ".join(out)


def describe_value(st, v, depth=0):
    if isinstance(v, Ref):
        h = st.get(v)
        if isinstance(h, HObj):
            if getattr(h, "abstract_node", False) or depth > 3:
                return f"<{h.path or 'node'}>"
            flds = getattr(h.cls, "fields", ())
            return f"{h.cls.__name__}(" + ", ".join(f"{f}={describe_value(st, h.fields.get(f), depth + 1)}" for f in flds) + ")"
        if isinstance(h, HList):
            if h.concrete:
                return "[" + ", ".join(describe_value(st, x, depth + 1) for x in h.items) + "]"
            return "<list>"
    if isinstance(v, Sym):
        return str(v.t)[:40]
    if isinstance(v, tuple):
        return "(" + ", ".join(describe_value(st, x, depth + 1) for x in v) + ")"
    return repr(v)


# ------------------------------------------------------------------------------------------------
# the contract
# ------------------------------------------------------------------------------------------------

class Level(VC):
    prop = PROP
    timeout_quick = 8000

    def __init__(self, method, label="", builder=None):
        self.method, self.label = method, label
        self.rule = LEVELS[method][0]
        self.builder = builder or (lambda st: {})
        self.target = f"jinja2.parser:Parser.{method}"
        VC.__init__(self, PROP, f"C02.parser.precedence.{method}" + (f"[{label}]" if label else ""))
        self.world = None
        self.bound_text = None
        self.entry_iters = 2 if method == "parse_subscript" else 1

    def configure(self, I):
        CP.install(I, lambda: self.world, summarise_loops=False)
        for nm in STREAM_SPECS:
            wrap_with_cursor(I, nm, lambda: self.world)
        for nm in list(I.specs):
            if isinstance(nm, str) and nm.startswith("Parser.parse"):
                wrap_with_cursor(I, nm, lambda: self.world)
        CP.install_unicodedata(I)      # unicodedata.normalize("NFKC", s) -> NFKC(s), uninterpreted

        # an operand returned by a parse_* callee is an arbitrary Expr: it MAY be a Const whose value MAY be a number.
        # isinstance() on it forks (C01's model); type() of an opaque field value is an uninterpreted class (compared by identity)
        from pyvc import models as _models
        prev_type = I.specs.get(("fn", id(type)))

        def builtin_type(I_, st, args, kwargs, node):
            if len(args) == 1 and isinstance(args[0], Sym) and args[0].k == "obj":
                return [(st, Sym(PY_TYPE(args[0].t), "obj", {"type_of"}))]
            if prev_type is not None:
                return prev_type(I_, st, args, kwargs, node)
            r = _models.instantiate(I_, st, type, args, kwargs, node)
            if r is None:
                raise Unsupported("type(...)", node)
            return r

        I.specs[("fn", id(type))] = builtin_type
        # arithmetic a parser method might do on an operand's opaque constant value (folding by hand) is an abstract callee
        for op in (ast.USub, ast.UAdd, ast.Invert):
            I.specs.setdefault(("unop", op), A.abstract_fn(f"operator.{op.__name__}", returns="obj", raises=[("any", Exception)]))
        for op in (ast.Add, ast.Sub, ast.Mult, ast.Div, ast.FloorDiv, ast.Mod, ast.Pow):
            I.specs.setdefault(("binop", op), A.abstract_fn(f"operator.{op.__name__}", returns="obj", raises=[("any", Exception)]))

        def join(I_, st, args, kwargs, node):
            sep, lst = args[0], args[1]
            if isinstance(sep, str) and isinstance(lst, Ref) and isinstance(st.get(lst), HList) and st.get(lst).concrete:
                parts = []
                for i, x in enumerate(st.get(lst).items):
                    if i and sep:
                        parts.append(z3.StringVal(sep))
                    parts.append(to_term(x, "str"))
                if not parts:
                    return [(st, "")]
                return [(st, Sym(parts[0] if len(parts) == 1 else z3.Concat(*parts), "str"))]
            return [(st, fresh("joined", "str"))]

        I.specs["str.join"] = join
        self.cut_loops, self.inducted = {}, set()
        install_loops(I, self)
        self.I = I

    def setup(self, I, st):
        self.world = CP.World(st)
        cur_marker(st, self.world.stream)
        self.params = self.builder(st)
        return [self.world.parser], dict(self.params)

    def paths(self, I):
        pre, outs = VC.paths(self, I)
        # run the documented rule against every path; two rounds (accumulator bindings first)
        self.verdict = {}
        bindings, cands = {}, {}
        pending = list(outs)
        for rnd in (1, 2):
            nxt = []
            for o in pending:
                status, cond, detail, nbs = run_rule(self, self.rule, self.params, o, bindings, final=(rnd == 2))
                if status == "deferred":
                    nxt.append(o)
                else:
                    self.verdict[o.idx] = (cond, detail)
                for nb in nbs:
                    for k, v in nb.items():
                        cands.setdefault(k, []).append(v)
            # an accumulator is one value per loop: every path must agree on it
            self.inconsistent = []
            for k, vs in cands.items():
                if any(not CP_same(vs[0], v) for v in vs[1:]):
                    self.inconsistent.append(k)
                else:
                    bindings[k] = vs[0]
            pending = nxt
            if not pending:
                break
        for o in pending:
            self.verdict[o.idx] = (False, "accumulator of the loop cannot be identified on this path")
        if self.cut_loops:
            self.bound_text = (f"adjacent string literals: at most {UNROLL_BOUND + 1} literals glued; all other loops are cut by induction (unbounded)")
        return pre, outs

    def p_conforms(self, pre, out):
        cond, detail = self.verdict[out.idx]
        self.last_detail = detail
        if cond is True or cond is False:
            return cond
        ax = vocabulary_axiom(out.st)
        return z3.Implies(z3.And(*ax), cond) if ax else cond

    def p_acc(self, pre, out):
        if out.idx != 0:
            return None
        return not self.inconsistent

    posts = [("conforms_to_documented_rule", p_conforms), ("one_accumulator_per_loop", p_acc)]

    def describe(self, out):
        if out is None:
            return f"{self.method}: loop side condition"
        items = items_of(out.st)
        res = f"raises {out.value!r}" if out.raised else f"returns {describe_value(out.st, out.value)}"
        return f"{self.method}: path [{describe_items(out.st, items)}] {res}: {getattr(self, 'last_detail', '')}"

    def discharge(self, name, pc, cond, timeout, seed, pre, out):
        r = VC.discharge(self, name, pc, cond, timeout, seed, pre, out)
        if r.status == "refuted" and r.witness is None:
            r.witness = {"method": self.method, "variant": self.label, "obligation": name}
        if r.status == "discharged" and out is not None and out.st.ghost.get("c02.bounded"):
            r.status, r.kind = "bounded-ok", "bounded"
            r.detail = (r.detail + " " if r.detail else "") + f"(adjacent string literals: <= {UNROLL_BOUND + 1} glued)"
        return r

    def concretize(self, model, pre, out):
        # which clause of the documented rule does this input violate (on the run of the rule that comes closest)
        best = None
        for conds, labels in getattr(out, "rule_runs", []):
            bad = []
            for c, lb in zip(conds, labels):
                if c is True:
                    continue
                try:
                    v = c if c is False else model.eval(c, model_completion=True)
                    if c is False or z3.is_false(v):
                        bad.append(lb)
                except Exception:  # noqa
                    bad.append(lb)
            if best is None or len(bad) < len(best):
                best = bad
        toks = []
        for t in out.st.ghost.get("tokens", []):
            f = out.st.get(t).fields
            try:
                ty = model.eval(to_term(f["type"], "str"), model_completion=True).as_string()
                va = model.eval(to_term(f["value"], "str"), model_completion=True).as_string()
                toks.append(f"{ty}:{va}" if ty == "name" else ty)
            except Exception:  # noqa
                toks.append("?")
        return {"method": self.method, "variant": self.label, "path": re.sub(r"!\d+", "", describe_items(out.st, items_of(out.st)))[:300],
                "result": re.sub(r"!\d+", "", repr(out.value) if out.raised else describe_value(out.st, out.value))[:300],
                "violated_clauses": sorted(set(best or ["structure"])), "tokens": toks[:12]}

    def replay(self, w):
        return native_precedence(w)

    def finding_key(self, res):
        w = res.witness or {}
        return f"{w.get('method')}:{'+'.join(w.get('violated_clauses', ['structure']))}"


# ------------------------------------------------------------------------------------------------
# native oracle for replays: the documented precedence on real templates
# ------------------------------------------------------------------------------------------------

PRECEDENCE_FAMILY = [
    # (jinja expression, python value of the documented reading)   a=7 b=2 c=3 s='x' t='y' l=[1,2,3] d={'k': 5}
    ("a - b - c", (7 - 2) - 3), ("a - b + c", (7 - 2) + 3), ("a / b / c", (7 / 2) / 3), ("a // b * c", (7 // 2) * 3), ("a % c % b", (7 % 3) % 2),
    ("a * b // c", (7 * 2) // 3), ("a - b * c", 7 - (2 * 3)), ("a * b - c", (7 * 2) - 3), ("b ** c ** b", (2 ** 3) ** 2), ("a * b ** c", 7 * (2 ** 3)),
    ("b ** c * a", (2 ** 3) * 7), ("-b ** b", (-2) ** 2), ("-a - b", (-7) - 2), ("a - -b", 7 - (-2)), ("+a - b", 7 - 2),
    ("a ~ b + s", "72" + "x"), ("s + a ~ b", "x" + "72"), ("a ~ b * c", "7" + "6"), ("a * b ~ c", "14" + "3"), ("s ~ t ~ a", "xy7"),
    ("a < b == false", False), ("a > b > 1", True), ("a > b < 1", False), ("a - b > c + 1", True), ("1 + 1 == 2", True),
    ("not a == b", True), ("not a in l", True), ("a not in l", True), ("b in l", True), ("not b in l", False),
    ("false and false or true", True), ("true or false and false", True), ("not true or true", True), ("not (true or true)", False),
    ("true and not false", True), ("a if false else b if false else c", 3), ("a if true else b if false else c", 7),
    ("(a if false else b) if false else c", 3), ("a if b > c else c", 3), ("a or b if false else c", 3), ("1 if true", 1),
    ("a + b if true else c", 9), ("a - b|abs", 7 - 2), ("-a|abs", 7), ("(-a)|abs", 7), ("a|string ~ b", "72"), ("l|length + 1", 4),
    ("l|first + l|last", 4), ("l[0] + l[1] * l[2]", 7), ("d.k - 1", 4), ("d['k'] ** 2", 25), ("-d.k", -5), ("-l[1] ** 2", 4),
    ("l[1:][0]", 2), ("l[:2]|length", 2), ("l[::2]|list", [1, 3]), ("l[1:3:1]|list", [2, 3]), ("s.upper() ~ t", "Xy"), ("s is string and a is number", True),
    ("a is divisibleby 7", True), ("a is not divisibleby 2", True), ("a is divisibleby(7)", True), ("a is not none", True),
    ("a is number and b is number", True), ("a is even or b is even", True), ("(a is odd) if true else 0", True), ("s|upper is upper", True),
    ("f(1, 2, k=3)", ((1, 2), {"k": 3})), ("f(*l, **d)", ((1, 2, 3), {"k": 5})), ("f(a, *l)", ((7, 1, 2, 3), {})), ("f(1, k=2, **d2)", ((1,), {"k": 2, "z": 1})),
    ("f(1,)", ((1,), {})), ("f()", ((), {})), ("'a' 'b'", "ab"), ("true", True), ("none", None), ("None", None), ("False", False), ("(a, b)", (7, 2)),
    ("[a, b]", [7, 2]), ("{'x': a}", {"x": 7}), ("l|join(',')|upper", "1,2,3"), ("a|default(1)|string|length", 1), ("1.5 + 1", 2.5), ("l.0", 1),
    ("a == b or a != b and false", False), ("a >= b", True), ("a <= b", False), ("a ~ b == '72'", True), ("a + b in [9]", True),
    # operand order / both operands of every operator, on variables and on constants (the folded path)
    ("a or b", 7), ("0 or b", 2), ("a and b", 2), ("0 and b", 0), ("b or a", 2), ("not not a", True), ("not a", False), ("a <= a", True), ("a < a", False),
    ("a >= a", True), ("a > a", False), ("b <= a", True), ("b < a", True), ("a <= b", False), ("(a,)", (7,)), ("(a, b,)", (7, 2)), ("f(class=1)", ((), {"class": 1})),
    ("f(1, class=2, **d2)", ((1,), {"class": 2, "z": 1})), ("-g(2)", -3), ("a is divisibleby l[0]", True), ("a is divisibleby(l[0])", True), ("s|my.upper", "X"),
    ("a is my.seven", True), ("7 - 2", 5), ("2 - 7", -5), ("7 // 2", 3), ("7 / 2", 3.5), ("7 % 4", 3), ("2 ** 3", 8), ("2 * 3 + 1", 7), ("1 in [1, 2]", True),
    ("3 in [1, 2]", False), ("3 not in [1, 2]", True), ("0 and 5", 0), ("3 and 5", 5), ("0 or 5", 5), ("3 or 5", 3), ("not 0", True), ("-(3)", -3), ("+(3)", 3),
    ("1 < 2 < 3", True), ("1 < 3 < 2", False), ("3 > 2 >= 2", True), ("1 == 1 != 2", True), ("'a' ~ 1 ~ 2.5", "a12.5"), ("1 if 0 else 2", 2), ("(1, 2)[1]", 2),
    ("[1, 2, 3][1:]", [2, 3]), ("{'a': 1}.a", 1), ("{'a': 1}['a']", 1), ("'abc'[::-1]", "cba"), ("'x'.upper()", "X"),
]


# a test without argument directly followed by a keyword of the enclosing expression (docs: inline if, `in`, `not in`)
TEST_THEN_KEYWORD_FAMILY = [("a is odd if true else 0", True), ("a is even if true else 0", False), ("a is odd if false", None), ("a is defined in [true]", True),
                            ("a is defined not in [false]", True), ("a is not none if true else 0", True), ("nothing is defined if true else 5", False)]


def native_precedence(w=None):
    """Evaluate a family of real expressions whose documented reading is given by explicit Python parentheses."""
    import jinja2
    problems = []
    if w and "bare-test-argument-is-an-expression-keyword" in (w.get("violated_clauses") or []):
        env = jinja2.Environment()
        for src, want in TEST_THEN_KEYWORD_FAMILY:
            try:
                got = env.compile_expression(src)(a=7)
            except Exception as ex:  # noqa
                got = f"{type(ex).__name__}: {ex}"
            if type(got) is not type(want) or got != want:
                problems.append(f"{src!r} evaluates to {got!r}, documented reading gives {want!r}")
        return (bool(problems), "; ".join(problems[:3]) or "a keyword after an argument-less test continues the enclosing expression")
    try:
        env = jinja2.Environment()
        env.filters["my.upper"] = lambda s: s.upper()
        env.tests["my.seven"] = lambda v: v == 7
        data = dict(a=7, b=2, c=3, s="x", t="y", l=[1, 2, 3], d={"k": 5}, d2={"z": 1}, f=lambda *a, **k: (a, k), g=lambda x: x + 1)
        for src, want in PRECEDENCE_FAMILY:
            try:
                got = env.compile_expression(src, undefined_to_none=False)(**data)
            except Exception as ex:  # noqa
                got = f"{type(ex).__name__}: {ex}"
            if type(got) is not type(want) or got != want:
                problems.append(f"{src!r} evaluates to {got!r}, documented reading gives {want!r}")
        for src in ("a if", "a +", "f(k=1, 2)", "f(**d, *l)", "f(**d, **d)", "a is number is number", "l[1", "a.+", "(a", "a not b"):
            try:
                env.compile_expression(src)
                problems.append(f"{src!r} is accepted")
            except jinja2.TemplateSyntaxError:
                pass
            except Exception as ex:  # noqa
                problems.append(f"{src!r}: {type(ex).__name__} instead of TemplateSyntaxError")
        # every operator written in the source is an application of its own: observable where the operator's meaning can be
        # replaced (sandbox: "intercepted_unops / intercepted_binops ... call_unop / call_binop is invoked instead")
        from jinja2.sandbox import SandboxedEnvironment

        class Hooked(SandboxedEnvironment):
            intercepted_unops = frozenset(["+", "-"])
            intercepted_binops = frozenset(["+", "-", "*", "/", "//", "%", "**"])

            def call_unop(self, context, operator, arg):
                return ("U", operator, arg)

            def call_binop(self, context, operator, left, right):
                return ("B", operator, left, right)

        henv = Hooked()
        for src, want in (("+3", ("U", "+", 3)), ("-3", ("U", "-", 3)), ("+a", ("U", "+", 7)), ("-(+3)", ("U", "-", ("U", "+", 3))), ("+1.5", ("U", "+", 1.5)),
                          ("a + 0", ("B", "+", 7, 0)), ("a ** 1", ("B", "**", 7, 1)), ("a * 1 - 0", ("B", "-", ("B", "*", 7, 1), 0))):
            try:
                got = henv.compile_expression(src)(a=7)
            except Exception as ex:  # noqa
                got = f"{type(ex).__name__}: {ex}"
            if got != want:
                problems.append(f"{src!r} under an environment that replaces the operators evaluates to {got!r}, every written operator applied gives {want!r}")
    except Exception as ex:  # noqa
        problems.append(f"environment setup failed: {type(ex).__name__}: {ex}")
    return (bool(problems), "; ".join(problems[:4]) or f"{len(PRECEDENCE_FAMILY)} expressions evaluate as their documented reading")


def parser_tasks():
    tasks = []
    for m, (rule, variants, _pol) in LEVELS.items():
        for label, builder in (variants or [("", None)]):
            tasks.append(Level(m, label, builder))
    return tasks


TASKS = parser_tasks()
