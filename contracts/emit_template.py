"""Emission runs of the real CodeGenerator.visit_Template (shared by C31 and C36).

visit_Template takes no frame and walks the whole tree with `find`/`find_all`; here the template node is
abstract: its body is an abstract child list, `node.find(Extends)` forks on the symbolic flag `have_extends`,
`node.find_all(Block)` yields a CONCRETE list of `n_blocks` abstract Block nodes (a bound on the number of
blocks, stated by the tasks that use it; the block loop body does not depend on the iteration index), and
`node.find_all(ImportedName)` yields `n_imports` abstract ImportedName nodes.
"""
from __future__ import annotations

import time
import z3

from pyvc import emit
from pyvc.contract import Task, Res
from pyvc.values import State, HObj, Unsupported, sym

import jinja2.nodes as N

HAVE_EXTENDS = z3.Bool("have_extends")
DEFER_INIT = z3.Bool("self.defer_init")
IS_ASYNC = z3.Bool("environment.is_async")
KNOWN_EXTENDS = z3.Bool("self.has_known_extends")


def run_template(n_blocks=1, n_imports=0, env_fields=None, gen_fields=None, configure=None, generator_cls=None,
                 known_extends="both"):
    if known_extends == "both":
        # has_known_extends is set by visit_Extends while the body (a hole here) is visited: both final values are run
        out = []
        for ke in (False, True):
            scs = run_template(n_blocks, n_imports, env_fields, gen_fields, configure, generator_cls, known_extends=ke)
            for sc in scs:
                sc.known_extends = ke
            out += scs
        return out
    from pyvc.engine import Interp
    from pyvc import extract
    I = Interp()
    emit.install(I)
    st = State()
    gf = dict(gen_fields or {})
    gf.setdefault("has_known_extends", bool(known_extends))
    g = emit.Gen(st, buffer=None, env_fields=env_fields, gen_fields=gf, generator_cls=generator_cls)
    nd = emit.make_node(st, N.Template, "node")
    blocks = [emit.make_node(st, N.Block, f"block{i}", fields={"name": f"b{i}"}) for i in range(n_blocks)]
    imports = [emit.make_node(st, N.ImportedName, f"import{i}", fields={"importname": f"pkg.mod{i}.obj{i}" if i % 2 == 0 else f"mod{i}"})
               for i in range(n_imports)]

    def find_spec(I_, s, args, kwargs, node):
        cls = args[1]
        if cls is N.Extends:
            s2 = s.fork()
            s.assume(z3.Not(HAVE_EXTENDS))
            s2.assume(HAVE_EXTENDS)
            return [(s, None), (s2, emit.make_node(s2, N.Extends, "extends"))]
        raise Unsupported("Node.find(" + repr(cls) + ")", node)

    def find_all_spec(I_, s, args, kwargs, node):
        cls = args[1]
        if cls is N.Block:
            return [(s, tuple(blocks))]
        if cls is N.ImportedName:
            return [(s, tuple(imports))]
        raise Unsupported("Node.find_all(" + repr(cls) + ")", node)

    def evalctx_spec(I_, s, args, kwargs, node):
        r = s.alloc(HObj(N.EvalContext, fields={"environment": args[0]}, lazy={"volatile": "bool", "autoescape": "bool"}, path="eval_ctx"))
        s.get(r).plain_setattr = True
        return [(s, r)]

    I.specs["Node.find"] = find_spec
    I.specs["Node.find_all"] = find_all_spec
    I.specs[I.spec_key(N.EvalContext)] = evalctx_spec
    I.specs["_NameMap.__setitem__"] = lambda I_, s, args, kwargs, node: [(s, None)]

    import unicodedata

    def normalize_spec(I_, s, args, kwargs, node):
        # block_func_name: unicodedata.normalize on the (concrete) block names of this run - a pure library function
        if all(isinstance(a, str) for a in args):
            return [(s, unicodedata.normalize(*args))]
        raise Unsupported("unicodedata.normalize of a symbolic name", node)

    I.specs[("fn", id(unicodedata.normalize))] = normalize_spec
    if configure:
        configure(I)
    fn = extract.resolve("jinja2.compiler:CodeGenerator.visit_Template")
    clo = I.closure_of_function(fn)
    results = I.call_closure(st, clo, [g.gen, nd], {})
    out = []
    for s, v in results:
        sc = emit.Schema(list(s.ghost.get("out", [])), list(s.pc), list(s.notes), "raise" if isinstance(v, emit.Raised) else "return", s)
        sc.value = v.exc if isinstance(v, emit.Raised) else v
        sc.gen = g
        sc.node = nd
        sc.buffer = None
        sc.known_extends = bool(known_extends)
        out.append(sc)
    return out


class TemplateEmitTask(Task):
    """predicate(schema, tree, placeholders, text) -> failures, over every path of visit_Template"""
    kind = "emission"

    def __init__(self, prop, name, predicate, replay_fn=None, min_paths=1, whole=None, **kw):
        self.prop, self.name, self.predicate, self.replay_fn, self.min_paths, self.kw = prop, name, predicate, replay_fn, min_paths, kw
        self.whole = whole  # optional check over all (schema, text) pairs: -> list of (name suffix, failures)

    def run(self, tier, seed):
        t0 = time.time()
        try:
            scs = run_template(**self.kw)
        except Unsupported as ex:
            return [Res(self.name + ".engine", "unknown", "pyvc-emit", time.time() - t0, f"unsupported: {ex}", self.kind)]
        res = []
        n = 0
        rendered = []
        for i, sc in enumerate(scs):
            t1 = time.time()
            fails = []
            if sc.outcome == "raise":
                fails += self.predicate(sc, None, {}, None) or []
            else:
                for txt, ph in sc.texts():
                    try:
                        tree = emit.parse_stmts(txt)
                    except SyntaxError as ex:
                        fails.append(f"emitted module does not parse: {ex.msg}")
                        continue
                    rendered.append((i, sc, txt, tree, ph))
                    fails += self.predicate(sc, tree, ph, txt) or []
            n += 1
            if fails:
                res.append(Res(f"{self.name}#p{i}", "refuted", "pyvc-emit", time.time() - t1,
                               f"under {[str(c)[:50] for c in sc.pc][:8]}: " + "; ".join(fails[:3]), self.kind,
                               witness={"schema": sc.describe()[:600], "path_condition": [str(c) for c in sc.pc][:12]}))
            else:
                res.append(Res(f"{self.name}#p{i}", "discharged", "pyvc-emit", time.time() - t1, "", self.kind))
        if self.whole is not None:
            for suffix, fails in self.whole(scs, rendered):
                res.append(Res(f"{self.name}.{suffix}", "refuted" if fails else "discharged", "pyvc-emit", 0,
                               "; ".join(fails[:3]), self.kind, witness={"whole": suffix, "failures": fails[:5]} if fails else None))
        if n < self.min_paths:
            res.append(Res(self.name + ".paths", "error", "pyvc-emit", 0, f"only {n} paths (< {self.min_paths})", self.kind))
        return res

    def replay(self, witness):
        if self.replay_fn:
            return self.replay_fn(witness)
        return (None, "no native replay")


def soften(rs, replay_fn, only=None):
    """Obligations that read the SHAPE of the code (AST tables) cannot tell a defect from an unrecognised but equivalent way
    of writing the same thing.  A failure of such an obligation is reported as refuted only if the property's own native
    oracle (the obligation's replay) reproduces a failing input; otherwise it is undecided ('unknown'), never an alarm."""
    bad = [r for r in rs if r.status == "refuted" and (only is None or only(r))]
    if not bad:
        return rs
    try:
        violated, detail = replay_fn(None)
    except Exception as ex:  # the oracle itself could not run: leave the verdicts as they are
        return rs
    if violated:
        for r in bad:
            r.detail = (r.detail or "") + f" | native oracle: {str(detail)[:200]}"
        return rs
    for r in bad:
        r.status = "unknown"
        r.witness = None
        r.detail = "code shape not recognised and the native oracle finds no failing input: " + (r.detail or "")
    return rs
