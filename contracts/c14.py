"""C14  Template literals denote the same values as Python literals.

Numbers (proof of mechanism, unbounded in the spelling):
  C14.int.lang / C14.float.lang   the REAL compiled patterns lexer.integer_re / lexer.float_re are parsed with
        re._parser (what `re` executes, A8), translated to z3 regular expressions (pyvc.regexfacts.to_z3, IGNORECASE
        expanded) and proved included in the Python literal grammars, which are written here as z3 regular expressions
        from the language reference (2.4.5 Integer literals, 2.4.6 Floating-point literals).  Alphabet: ASCII (a `\\d` of
        a str pattern also matches the other Unicode Nd digits; those spellings are outside the statement's alphabet
        - recorded as an assumption).  The grammars themselves are validated against Python's own compiler on every
        spelling of length <= 4 (table obligation C14.pygrammar.*).
  C14.num.value    one generic iteration of the real Lexer.wrap loop body for an integer / float token: the Token that
        reaches the parser carries int(value_str.replace("_", ""), 0) resp. literal_eval(value_str.replace("_", "")),
        its type and line unchanged.  Dependency contract: underscores are ignored by the literal grammar, so on
        L(integer literal) / L(float literal) these two calls return the value Python assigns to the spelling.
  C14.lex.longest  rule order in the real rule tables (float before integer before name / operator, the pattern
        objects are the module-level ones) + regex facts: no float_re match is a prefix of an integer spelling; every
        Python integer literal form and every documented float form is in the language of its pattern.
Strings:
  C14.str.lang     L(quote (non-quote-non-backslash | backslash any)* quote) is included in L(string_re): every repr-style
        spelling is matched as one string token text.
  C14.concat       Parser.parse_primary on a run of k adjacent string tokens returns Const("".join of their values) with
        the line of the first; loop invariant on the real while loop (k unbounded).
  C14.str.value    the string branch of the real Lexer.wrap under an arbitrary newline_sequence: the value is Python's value of the spelling
        (newline_sequence rewrites line breaks of the template text only, never characters produced by escapes).
  C14.const.roundtrip   table: number spellings (incl. overflowing floats) keep Python's value through code generation in every
        constant position (call / keyword argument, set + .module, list item, dict value, operand, macro default).
Bounded stand-ins (never reported as proved):
  C14.bounded.unescape   every body of length <= 4 (quick 3) over {a, e-acute, U+1F600, backslash, ', ", n, x, u, 0, 1,
        newline} in both quote styles that Python accepts as a short string literal: rendered by the real Environment vs
        ast.literal_eval.
  C14.bounded.numbers    every spelling of length <= 5 (quick 4) over [0-9_.eExXoObB]: whenever the real lexer reads it as
        ONE number token, the token value (and the rendered constant) is Python's value of the spelling.
"""
from __future__ import annotations

import ast
import itertools
import math
import re
import time
import warnings

import z3

from pyvc.contract import VC, Res, FnTask
from pyvc.values import State, Sym, Ref, HObj, HList, SSeq, Exc, Event, Unsupported, sym, fresh, fresh_name, BoundMethod
from pyvc.smt import to_term, model_value
from pyvc import abstract as A, extract
from pyvc.interp import Raised

try:  # written by agent-lexer; everything that needs it is undecided (never violated) without it
    from pyvc import regexfacts as RF
except ImportError:  # pragma: no cover
    RF = None

import jinja2
import jinja2.lexer as L
import jinja2.nodes as N
import jinja2.parser as P

PROP = "C14"
S_ = z3.StringSort()

# ====================================================================================================
# Python literal grammars as z3 regular expressions (language reference 2.4.5 / 2.4.6)
# ====================================================================================================


def R(s):
    return z3.Re(z3.StringVal(s))


def rng(a, b):
    return z3.Range(z3.StringVal(a), z3.StringVal(b))


def alt(*chars):
    return z3.Union(*[R(c) for c in chars]) if len(chars) > 1 else R(chars[0])


def cat(*parts):
    return z3.Concat(*parts) if len(parts) > 1 else parts[0]


def ASCII():
    return z3.Star(rng("\x00", "\x7f"))


def py_integer():
    """integer ::= decinteger | bininteger | octinteger | hexinteger
       decinteger ::= nonzerodigit (["_"] digit)* | "0"+ (["_"] "0")*
       bininteger ::= "0" ("b" | "B") (["_"] bindigit)+   (oct / hex alike)"""
    us = z3.Option(R("_"))
    digit, nonzero = rng("0", "9"), rng("1", "9")
    hexdigit = z3.Union(digit, rng("a", "f"), rng("A", "F"))
    dec = z3.Union(cat(nonzero, z3.Star(cat(us, digit))), cat(z3.Plus(R("0")), z3.Star(cat(us, R("0")))))
    binint = cat(R("0"), alt("b", "B"), z3.Plus(cat(us, rng("0", "1"))))
    octint = cat(R("0"), alt("o", "O"), z3.Plus(cat(us, rng("0", "7"))))
    hexint = cat(R("0"), alt("x", "X"), z3.Plus(cat(us, hexdigit)))
    return z3.Union(dec, binint, octint, hexint)


def py_digitpart():
    digit = rng("0", "9")
    return cat(digit, z3.Star(cat(z3.Option(R("_")), digit)))


def py_float():
    """floatnumber ::= pointfloat | exponentfloat ;  pointfloat ::= [digitpart] fraction | digitpart "."
       exponentfloat ::= (digitpart | pointfloat) exponent ; fraction ::= "." digitpart
       exponent ::= ("e" | "E") ["+" | "-"] digitpart"""
    dp = py_digitpart()
    fraction = cat(R("."), dp)
    pointfloat = z3.Union(cat(z3.Option(dp), fraction), cat(dp, R(".")))
    exponent = cat(alt("e", "E"), z3.Option(alt("+", "-")), dp)
    return z3.Union(pointfloat, cat(z3.Union(dp, pointfloat), exponent))


def documented_float_forms():
    """docs/templates.rst, Literals: `42.23`, `42.1e2`, `123_456.789` - digits '.' digits with an optional exponent, and the
    statement's "floats with exponents" digits 'e' [sign] digits (what repr(float) produces, plus underscores)"""
    dp = py_digitpart()
    exponent = cat(alt("e", "E"), z3.Option(alt("+", "-")), dp)
    return z3.Union(cat(dp, R("."), dp, z3.Option(exponent)), cat(dp, exponent))


# the same grammars for the native oracles (replay / validation): Python's own compiler decides


def py_value(spelling):
    """(kind, value) Python assigns to a spelling that is ONE int / float literal, else None"""
    try:
        with warnings.catch_warnings():
            warnings.simplefilter("ignore")
            tree = ast.parse(spelling, mode="eval")
    except (SyntaxError, ValueError, MemoryError, RecursionError):
        return None
    b = tree.body
    if isinstance(b, ast.Constant) and type(b.value) in (int, float) and b.col_offset == 0 and b.end_col_offset == len(spelling):
        return (type(b.value).__name__, b.value)
    return None


def same_value(a, b):
    if type(a) is not type(b):
        return False
    if isinstance(a, float):
        return repr(a) == repr(b)  # distinguishes -0.0 / nan spellings
    return a == b


NUM_ALPHABET = "0123456789_.eExXoObB"


def res(name, ok, detail="", witness=None, kind="regex", t0=None, undecided=False, backend="z3"):
    st = "discharged" if ok else ("unknown" if undecided else "refuted")
    if isinstance(witness, dict):
        witness = dict(witness, obligation=name)
    return Res(name, st, backend, (time.time() - t0) if t0 else 0.0, detail, kind, None if ok else witness)


def included(name, sub, sup, alphabet=None, timeout=20000, kind="regex", what=""):
    """L(sub) ⊆ L(sup) by z3: exists s. s in sub, s not in sup  is unsat.  A model is the witness string."""
    t0 = time.time()
    s = z3.String("s")
    sol = z3.Solver()
    sol.set("timeout", timeout)
    sol.add(z3.InRe(s, sub), z3.Not(z3.InRe(s, sup)))
    if alphabet is not None:
        sol.add(z3.InRe(s, alphabet))
    r = sol.check()
    if r == z3.unsat:
        return Res(name, "discharged", "z3", time.time() - t0, what, kind)
    if r == z3.sat:
        w = sol.model().eval(s, model_completion=True).as_string()
        try:
            w = z3_unescape(w)
        except Exception:  # noqa
            pass
        return Res(name, "refuted", "z3", time.time() - t0, f"{what}: counterexample spelling {w!r}", kind, {"spelling": w, "obligation": name})
    return Res(name, "unknown", "z3", time.time() - t0, f"solver: {sol.reason_unknown()}", kind)


def z3_unescape(s):
    """z3 prints non-printable characters as \\u{..}"""
    return re.sub(r"\\u\{([0-9a-fA-F]+)\}", lambda m: chr(int(m.group(1), 16)), s)


def pattern_z3(p, notes, ascii_only=True):
    """z3 regular expression of the language of the REAL compiled pattern `p`, from the tree `re` executes
    (re._parser.parse(p.pattern, p.flags), assumption A8).  IGNORECASE is expanded per literal / set member.  With
    ascii_only the character classes are intersected with ASCII: `\\d` = [0-9] (assumption recorded in META), `.` and negated
    sets range over ASCII.  A leading look-behind (float_re's `(?<!\\.)`) constrains the context, not the matched text: it is
    dropped and noted.  Anything else raises Unsupported (obligation undecided, never violated)."""
    import re._constants as C
    import re._parser as RP
    t = RP.parse(p.pattern, p.flags)
    ic = bool(p.flags & re.IGNORECASE)
    dotall = bool(p.flags & re.DOTALL)
    ascii_flag = bool(p.flags & re.ASCII)  # then `\\d` / `\\s` and case folding are ASCII-only by the pattern's own flags (a fact, not an assumption)
    hi = 0x7F if (ascii_only or ascii_flag) else 0x2FFFF  # z3's alphabet ends at U+2FFFF; bound for case-folded variants of a literal
    allc = rng("\x00", "\x7f") if ascii_only else z3.AllChar(z3.ReSort(S_))

    def cases(ch):
        out = {ch}
        if ic:
            out |= {x for x in (ch.lower(), ch.upper()) if len(x) == 1}
        return sorted(c for c in out if ord(c) <= hi)

    def lit(ch):
        cs = cases(ch)
        if not cs:
            return z3.Empty(z3.ReSort(S_))
        return z3.Union(*[R(c) for c in cs]) if len(cs) > 1 else R(cs[0])

    def category(cat_):
        if cat_ is C.CATEGORY_DIGIT:
            if not ascii_only and not ascii_flag:
                raise Unsupported("\\d outside the ASCII restriction")
            return [("0", "9")]
        if cat_ is C.CATEGORY_SPACE:
            if not ascii_only and not ascii_flag:
                raise Unsupported("\\s outside the ASCII restriction")
            return [(c, c) for c in "\t\n\x0b\x0c\r\x1c\x1d\x1e\x1f "]
        raise Unsupported(f"category {cat_}")

    def in_set(av):
        parts, neg = [], False
        for op, a in av:
            if op is C.NEGATE:
                neg = True
            elif op is C.LITERAL:
                parts.append(lit(chr(a)))
            elif op is C.RANGE:
                lo, hi_ = a
                chars = set()
                if hi_ - lo > 512:
                    raise Unsupported("large range")
                for i in range(lo, hi_ + 1):
                    chars.update(cases(chr(i)))
                parts += [R(c) for c in sorted(chars)]
            elif op is C.CATEGORY:
                parts += [rng(x, y) if x != y else R(x) for x, y in category(a)]
            else:
                raise Unsupported(f"set member {op}")
        r = z3.Union(*parts) if len(parts) > 1 else parts[0]
        return z3.Diff(allc, r) if neg else z3.Intersect(allc, r) if ascii_only else r

    def seq(content, top=False):
        parts = []
        for n, (op, av) in enumerate(list(content)):
            if op is C.LITERAL:
                parts.append(lit(chr(av)))
            elif op is C.NOT_LITERAL:
                parts.append(z3.Diff(allc, lit(chr(av))))
            elif op is C.ANY:
                parts.append(allc if dotall else z3.Diff(allc, R("\n")))
            elif op is C.IN:
                parts.append(in_set(av))
            elif op is C.BRANCH:
                bs = [seq(b) for b in av[1]]
                parts.append(z3.Union(*bs) if len(bs) > 1 else bs[0])
            elif op is C.SUBPATTERN:
                if av[1] or av[2]:
                    raise Unsupported("inline flags")
                parts.append(seq(av[3]))
            elif op in (C.MAX_REPEAT, C.MIN_REPEAT):
                lo, hi_, sub = av
                r = seq(sub)
                if hi_ >= C.MAXREPEAT:
                    parts.append(z3.Star(r) if lo == 0 else z3.Plus(r) if lo == 1 else z3.Concat(z3.Loop(r, lo, lo), z3.Star(r)))
                elif (lo, hi_) == (0, 1):
                    parts.append(z3.Option(r))
                else:
                    parts.append(z3.Loop(r, lo, hi_))
            elif op in (C.ASSERT, C.ASSERT_NOT) and top and n == 0 and av[0] == -1:
                notes.append("leading look-behind dropped (it constrains the character before the match, not the matched text)")
            else:
                raise Unsupported(f"regex construct {op}")
        if not parts:
            return R("")
        return z3.Concat(*parts) if len(parts) > 1 else parts[0]

    return seq(t, top=True)


# ====================================================================================================
# C14.int.lang / C14.float.lang / C14.str.lang / C14.lex.longest (regex facts)
# ====================================================================================================


def int_lang(task, tier, seed):
    notes = []
    full = bool(L.integer_re.flags & re.ASCII)
    J = pattern_z3(L.integer_re, notes, ascii_only=not full)
    out = [included("C14.int.lang", J, py_integer(), None if full else ASCII(),
                    what="L(lexer.integer_re) ⊆ L(Python integer literal) over the full alphabet (pattern compiled with re.ASCII)" if full else
                    "L(lexer.integer_re) ∩ ASCII* ⊆ L(Python integer literal)"),
           included("C14.int.lang.accepts_python_forms", py_integer(), J, ASCII(),
                    what="L(Python integer literal: decimal, binary, octal, hex with underscores) ⊆ L(lexer.integer_re)")]
    return out


def float_lang(task, tier, seed):
    notes = []
    full = bool(L.float_re.flags & re.ASCII)  # compiled with re.ASCII: `\\d` is [0-9] by the pattern's own flags, no alphabet restriction needed
    J = pattern_z3(L.float_re, notes, ascii_only=not full)
    out = [included("C14.float.lang", J, py_float(), None if full else ASCII(),
                    what=("L(lexer.float_re) ⊆ L(Python float literal) over the full alphabet (pattern compiled with re.ASCII) " if full else
                          "L(lexer.float_re) ∩ ASCII* ⊆ L(Python float literal) ") + "; ".join(notes)),
           included("C14.float.lang.accepts_documented_forms", documented_float_forms(), J, ASCII(),
                    what="digits.digits[exponent] and digits exponent (with underscores) ⊆ L(lexer.float_re)"),
           included("C14.num.kinds_disjoint", z3.Intersect(py_integer(), py_float()), z3.Empty(z3.ReSort(S_)), ASCII(),
                    what="no spelling is both an integer and a float literal (so the token type fixes the Python type)")]
    return out


def replay_lang(w):
    """native oracle: the real pattern fully matches the spelling, Python's compiler does not read it as that kind of literal
    (or, for the converse obligations, Python reads it and the pattern does not match)"""
    s, ob = w["spelling"], w.get("obligation", "")
    pv = py_value(s)
    mi, mf = L.integer_re.fullmatch(s) is not None, L.float_re.fullmatch(s) is not None
    if ob == "C14.int.lang":
        bad = mi and not (pv and pv[0] == "int")
    elif ob == "C14.float.lang":
        bad = mf and not (pv and pv[0] == "float")
    elif ob == "C14.int.lang.accepts_python_forms":
        bad = bool(pv and pv[0] == "int") and not mi
    elif ob == "C14.float.lang.accepts_documented_forms":
        bad = bool(pv and pv[0] == "float") and re.fullmatch(r"[0-9_]+(\.[0-9_]+)?([eE][+-]?[0-9_]+)?", s) is not None and not mf
    elif ob.startswith("C14.lex.longest"):
        return replay_number({"spelling": s})
    else:
        bad = (mi and mf) or (pv is not None and ((pv[0] == "int") != mi) and ((pv[0] == "float") != mf))
    return (bool(bad), f"spelling {s!r}: integer_re.fullmatch={mi} float_re.fullmatch={mf} Python reads it as {pv!r}")


def str_spec():
    """repr-style spellings: quote, then characters other than that quote and the backslash, or a backslash followed by any
    character, then the same quote"""
    allc = z3.AllChar(z3.ReSort(S_))

    def body(q):
        plain = z3.Diff(allc, z3.Union(R(q), R("\\")))
        return cat(R(q), z3.Star(z3.Union(plain, cat(R("\\"), allc))), R(q))
    return z3.Union(body("'"), body('"'))


def is_repr_style(s):
    if len(s) < 2 or s[0] not in "'\"" or s[-1] != s[0]:
        return False
    q, i, body = s[0], 0, s[1:-1]
    while i < len(body):
        if body[i] == "\\":
            if i + 1 >= len(body):
                return False
            i += 2
        elif body[i] == q:
            return False
        else:
            i += 1
    return True


def str_lang(task, tier, seed):
    notes = []
    J = pattern_z3(L.string_re, notes, ascii_only=False)
    return [included("C14.str.lang", str_spec(), J, None,
                     what="L(quote (plain | backslash any)* quote) ⊆ L(lexer.string_re): a repr-style spelling is one string token text")]


def replay_str_lang(w):
    s = w["spelling"]
    m = L.string_re.fullmatch(s)
    return (is_repr_style(s) and m is None, f"{s!r}: repr-style={is_repr_style(s)} string_re.fullmatch={'no' if m is None else 'yes'}")


def number_rule_tables():
    """(state, [pattern...]) of every state of real lexers (default and line-statement configuration) that has a number rule"""
    out = []
    for label, kw in (("default", {}), ("line", dict(line_statement_prefix="#", line_comment_prefix="##"))):
        lx = L.Lexer(jinja2.Environment(**kw))
        for state, rules in lx.rules.items():
            pats = [r.pattern for r in rules]
            if any(p is L.integer_re or p is L.float_re or p.pattern in (L.integer_re.pattern, L.float_re.pattern) for p in pats):
                out.append((f"{label}:{state}", rules))
    return out


def lex_longest(task, tier, seed):
    t0 = time.time()
    out = []
    tables = number_rule_tables()
    out.append(res("C14.lex.longest.tables_found", len(tables) >= 3, f"{len(tables)} rule tables with number rules (block, variable, line statement expected)",
                   {"spelling": "1.5"}, kind="table", t0=t0, backend="table"))
    for label, rules in tables:
        pats = [r.pattern for r in rules]

        def idx(p):
            return next((i for i, q in enumerate(pats) if q is p), None)
        i_f, i_i, i_n, i_o = idx(L.float_re), idx(L.integer_re), idx(L.name_re), idx(L.operator_re)
        ok = None not in (i_f, i_i, i_n, i_o) and i_f < i_i < i_n and i_i < i_o
        toks_ok = ok and rules[i_f].tokens == L.TOKEN_FLOAT and rules[i_i].tokens == L.TOKEN_INTEGER and rules[i_f].command is None and rules[i_i].command is None
        out.append(res(f"C14.lex.longest.rule_order[{label}]", bool(ok and toks_ok),
                       f"positions float={i_f} integer={i_i} name={i_n} operator={i_o}; the rules use the module-level pattern objects and the token "
                       f"types float / integer", {"spelling": "1.5"}, kind="table", t0=t0, backend="table"))
    notes = []
    F, J = pattern_z3(L.float_re, notes), pattern_z3(L.integer_re, notes)
    anyc = z3.Star(z3.AllChar(z3.ReSort(S_)))
    out.append(included("C14.lex.longest.float_rule_takes_no_integer_prefix", z3.Intersect(cat(F, anyc), J), z3.Empty(z3.ReSort(S_)), ASCII(),
                        what="no match of float_re is a prefix of a spelling in L(integer_re) (the float rule, tried first, leaves integer spellings alone)"))
    W = pattern_z3(L.whitespace_re, notes)
    out.append(included("C14.lex.longest.whitespace_rule_takes_no_number_prefix", z3.Intersect(cat(W, anyc), z3.Union(F, J)), z3.Empty(z3.ReSort(S_)), ASCII(),
                        what="no match of whitespace_re is a prefix of a number spelling"))
    return out


# ====================================================================================================
# bounded stand-in: numbers
# ====================================================================================================

_env = None


def env():
    global _env
    if _env is None:
        _env = jinja2.Environment(cache_size=0)
    return _env


def lex_one_number(spelling):
    """the tokens the real lexer produces for `{{ <spelling> }}` between the variable delimiters; ('one', type, value) when it
    is exactly one number token, ('other', description) otherwise"""
    try:
        toks = list(env()._tokenize("{{ " + spelling + " }}", None, None))
    except jinja2.TemplateSyntaxError as ex:
        return ("other", f"TemplateSyntaxError: {ex}")
    inner = toks[1:-1] if len(toks) >= 2 and toks[0].type == "variable_begin" and toks[-1].type == "variable_end" else toks
    if len(inner) == 1 and inner[0].type in ("integer", "float"):
        return ("one", inner[0].type, inner[0].value)
    return ("other", " ".join(f"{t.type}:{t.value!r}" for t in inner))


def check_number(spelling, render=True, stats=None):
    """-> None when the property holds for the spelling, else (class key, text)"""
    try:
        r = lex_one_number(spelling)
    except Exception as ex:  # noqa  (anything but TemplateSyntaxError out of the lexer)
        return ("lexer-raises:" + type(ex).__name__, f"lexing {spelling!r} raised {type(ex).__name__}: {ex}")
    pv = py_value(spelling)
    if r[0] != "one":
        # converse (first sentence of the statement): a Python integer literal / documented float form must be one token
        if pv is not None and re.fullmatch(r"[0-9_]+\.[0-9_]+([eE][0-9_]+)?|[0-9_]+[eE][0-9_]+|[0-9][0-9_xXoObBa-fA-F]*", spelling) and "." != spelling[-1]:
            if pv[0] == "int" or re.fullmatch(r"[0-9_]+(\.[0-9_]+)?([eE][0-9_]+)?", spelling):
                return ("not-one-token:" + spelling, f"Python reads {spelling!r} as {pv[1]!r} but the lexer yields {r[1]}")
        return None
    _, typ, val = r
    if stats is not None:
        stats.one += 1
    if pv is None:
        return ("python-rejects:" + spelling, f"the lexer reads {spelling!r} as one {typ} token ({val!r}); Python rejects the spelling")
    want = {"int": "integer", "float": "float"}[pv[0]]
    if typ != want or not same_value(val, pv[1]):
        return ("value:" + spelling, f"the lexer reads {spelling!r} as {typ} {val!r}; Python's value is {pv[1]!r}")
    if render:
        try:
            got = env().from_string("{{ " + spelling + " }}").render()
        except Exception as ex:  # noqa
            got = f"<{type(ex).__name__}: {ex}>"
        if got != str(pv[1]):
            if isinstance(pv[1], float) and not math.isfinite(pv[1]):
                return ("F9:non-finite-float-const", f"{{{{ {spelling} }}}} renders {got!r}, Python's value is {pv[1]!r}: a non-finite float constant is "
                                                     f"written into the generated code as `inf`/`nan` (DESIGN F9, owned by C08/C01)")
            return ("render:" + spelling, f"{{{{ {spelling} }}}} renders {got!r}, Python's value prints as {str(pv[1])!r}")
    return None


def replay_number(w):
    r = check_number(w["spelling"])
    return (r is not None, r[1] if r else f"{w['spelling']!r}: lexer and Python agree")


NUM_SHARDS = 8


def bounded_numbers(shard):
    def run(task, tier, seed):
        t0 = time.time()
        maxlen = 4 if tier == "quick" else 5
        n, seen, out = 0, set(), []
        task.one = 0
        for ln in range(1, maxlen + 1):
            for k, tup in enumerate(itertools.product(NUM_ALPHABET, repeat=ln)):
                if k % NUM_SHARDS != shard:
                    continue
                s = "".join(tup)
                n += 1
                bad = check_number(s, render=True, stats=task)
                if bad and bad[0] not in seen and len(out) < 6:
                    seen.add(bad[0])
                    out.append(Res("C14.bounded.numbers", "refuted", "native", time.time() - t0, bad[1], "bounded", {"spelling": s, "key": bad[0]}))
        one = task.one
        task.stats = {"spellings": n, "read_as_one_number": one}
        if not out:
            out.append(Res(f"C14.bounded.numbers[{shard}]", "bounded-ok", "native", time.time() - t0,
                           f"{n} spellings of length <= {maxlen}, {one} read as one number token: token value, type and rendered constant equal Python's", "bounded"))
        return out
    return run


def numbers_key(res):
    return (res.witness or {}).get("key", "")


def pygrammar(task, tier, seed):
    """table obligation: the z3 grammars above are Python's: for every spelling of length <= 4 (quick 3) over the number
    alphabet + [+-aAfF], membership in py_integer()/py_float() equals what Python's compiler says"""
    t0 = time.time()
    maxlen = 3 if tier == "quick" else 4
    alphabet = NUM_ALPHABET + "+-aF"
    PI, PF = py_integer(), py_float()
    bad = []
    n = 0
    for ln in range(1, maxlen + 1):
        for tup in itertools.product(alphabet, repeat=ln):
            s = "".join(tup)
            n += 1
            pv = py_value(s)
            zi = z3.is_true(z3.simplify(z3.InRe(z3.StringVal(s), PI)))
            zf = z3.is_true(z3.simplify(z3.InRe(z3.StringVal(s), PF)))
            if zi != bool(pv and pv[0] == "int") or zf != bool(pv and pv[0] == "float"):
                bad.append((s, zi, zf, pv))
                if len(bad) > 3:
                    break
    ok = not bad
    return [Res("C14.pygrammar.matches_compiler", "discharged" if ok else "error", "table", time.time() - t0,
                f"{n} spellings: the z3 grammars agree with ast.parse" if ok else f"SPEC ERROR: grammar and compiler disagree on {bad[:3]}", "table")]


# ====================================================================================================
# bounded stand-in: string unescaping
# ====================================================================================================

STR_ALPHABET = ["a", "\u00e9", "\U0001F600", "\\", "'", '"', "n", "x", "u", "0", "1", "\n"]
STR_SHARDS = 8


def py_string(spelling):
    try:
        with warnings.catch_warnings():
            warnings.simplefilter("ignore")
            tree = ast.parse(spelling, mode="eval")
    except (SyntaxError, ValueError):
        return None
    b = tree.body
    if isinstance(b, ast.Constant) and type(b.value) is str:
        return b.value
    return None


def is_short_string_literals(spelling):
    """Python tokenizes the spelling into short string literals only (adjacent literals allowed): no prefix, no triple
    quotes, nothing else"""
    import io
    import tokenize
    try:
        toks = list(tokenize.generate_tokens(io.StringIO(spelling).readline))
    except (tokenize.TokenError, SyntaxError, IndentationError):
        return False
    strings = [t for t in toks if t.type == tokenize.STRING]
    other = [t for t in toks if t.type not in (tokenize.STRING, tokenize.NEWLINE, tokenize.NL, tokenize.ENDMARKER)]
    if other or not strings:
        return False
    rest = spelling
    for t in strings:
        rest = rest.replace(t.string, " ", 1)
    if rest.strip(" ") != "":
        return False  # something between the literals (a backslash line continuation): Python syntax, not template literal syntax
    return all(t.string[0] in "'\"" and not t.string.startswith(("'''", '"""')) for t in strings)


_nl_envs = {}
NEWLINE_SEQUENCES = ("\n", "\r\n", "\r")
SURROGATE_ALPHABET = ["\\ud83d", "\\ude00", "\\ud800", "\\udfff", "a", "\\U0001f600"]  # high, low, lone high, lone low, plain, astral escape
REDUCED_STR_ALPHABET = ["a", "\\", "'", '"', "n", "r", "x", "0", "1", "\n"]  # for the non-default newline sequences


def nl_env(seq):
    if seq not in _nl_envs:
        _nl_envs[seq] = jinja2.Environment(cache_size=0, newline_sequence=seq)
    return _nl_envs[seq]


def check_string(spelling, newline_sequence="\n"):
    """a string literal denotes Python's value of the spelling under EVERY newline_sequence: the setting rewrites line breaks of the
    template text, never characters produced by escape sequences"""
    want = py_string(spelling)
    if want is None or not is_short_string_literals(spelling):
        return None
    where = "" if newline_sequence == "\n" else f" under newline_sequence={newline_sequence!r}"
    key = classify_string(spelling)
    if newline_sequence != "\n" and "\\\n" in spelling and key.startswith("spelling:"):
        key = "backslash-newline-under-newline_sequence"
    try:
        got = nl_env(newline_sequence).from_string("{{ " + spelling + " }}").render()
    except Exception as ex:  # noqa
        got = f"<{type(ex).__name__}: {str(ex)[:80]}>"
        return (key, f"{{{{ {spelling} }}}} raised {got}{where}; Python's value is {want!r}")
    if got != want:
        return (key, f"{{{{ {spelling} }}}} renders {got!r}{where}; Python's value is {want!r}")
    return None


def classify_string(spelling):
    """finding key: F13 = an unescaped backslash immediately followed by a non-ASCII character"""
    i = 0
    body = spelling
    hit = False
    while i < len(body):
        if body[i] == "\\" and i + 1 < len(body):
            if ord(body[i + 1]) > 127:
                hit = True
            i += 2
        else:
            i += 1
    return "backslash-before-non-ascii" if hit else "spelling:" + spelling


def string_spellings(maxlen, alphabet=None):
    for ln in range(0, maxlen + 1):
        for tup in itertools.product(alphabet or STR_ALPHABET, repeat=ln):
            body = "".join(tup)
            yield "'" + body + "'"
            yield '"' + body + '"'


def bounded_unescape(shard):
    def run(task, tier, seed):
        t0 = time.time()
        maxlen = 3 if tier == "quick" else 4
        n, acc, seen, out = 0, 0, set(), []
        passes = [(seq, None if seq == "\n" else REDUCED_STR_ALPHABET, maxlen) for seq in NEWLINE_SEQUENCES]
        passes.append(("\n", SURROGATE_ALPHABET, maxlen))  # lone, paired and reversed surrogate escapes (each escape one symbol)
        for seq, alphabet, mx in passes:
            for k, sp in enumerate(string_spellings(mx, alphabet)):
                if k % STR_SHARDS != shard:
                    continue
                n += 1
                if py_string(sp) is None or not is_short_string_literals(sp):
                    continue
                acc += 1
                bad = check_string(sp, seq)
                if bad and bad[0] not in seen and len(out) < 6:
                    seen.add(bad[0])
                    out.append(Res("C14.bounded.unescape", "refuted", "native", time.time() - t0, bad[1], "bounded", {"spelling": sp, "key": bad[0], "newline_sequence": seq}))
        task.stats = {"spellings": n, "accepted_by_python": acc}
        if not out:
            out.append(Res(f"C14.bounded.unescape[{shard}]", "bounded-ok", "native", time.time() - t0,
                           f"{acc} of {n} (spelling, newline_sequence) cases are Python short string literals; all render as Python's value", "bounded"))
        return out
    return run


def replay_string(w):
    r = check_string(w["spelling"], w.get("newline_sequence", "\n"))
    return (r is not None, r[1] if r else f"{w['spelling']!r}: rendered value equals Python's")


# ====================================================================================================
# C14.num.value: the conversion branches of the real Lexer.wrap
# ====================================================================================================

INTV = z3.Function("int(str,base)", S_, z3.IntSort(), z3.IntSort())        # dependency: builtin int(s, base)
from pyvc.values import Obj as _Obj
LITEVAL = z3.Function("ast.literal_eval(str)", S_, _Obj)                      # dependency: ast.literal_eval(s)
PYINT = z3.Function("python_value_of_integer_literal", S_, z3.IntSort())   # the value Python assigns to the spelling
PYFLOAT = z3.Function("python_value_of_float_literal", S_, _Obj)


def strip_underscores(t):
    us, empty = z3.StringVal("_"), z3.StringVal("")
    return z3.SeqRef(z3.Z3_mk_seq_replace_all(t.ctx_ref(), t.as_ast(), us.as_ast(), empty.as_ast()), t.ctx)


class WitnessAlways:
    """side obligations (loop invariants) and structural refutations carry the task's default witness so that the native replay
    (a fixed family on the real code) is always run; undecided obligations are retried on concrete candidate inputs"""
    candidates = ()

    def default_witness(self):
        return {}

    def candidate_constraint(self, cand):
        return None

    def discharge(self, name, pc, cond, timeout, seed, pre, out):
        from pyvc.smt import check_sat
        r = VC.discharge(self, name, pc, cond, timeout, seed, pre, out)
        if r.status == "unknown" and not isinstance(cond, bool):
            for cand in self.candidates:
                c = self.candidate_constraint(cand)
                if c is None:
                    continue
                rr = check_sat(list(pc) + [c, z3.Not(cond)], 3000, seed, use_cvc5=False)
                if rr.status == "sat":
                    w = dict(self.default_witness())
                    w.update(cand if isinstance(cand, dict) else {"value_str": cand})
                    return Res(name, "refuted", rr.backend, r.seconds + rr.seconds, f"fails for the concrete input {cand!r}", self.kind, w)
        if r.status == "refuted" and r.witness is None:
            r.witness = self.default_witness()
        return r


class NumValue(WitnessAlways, VC):
    """One generic iteration of the real `for lineno, token, value_str in stream:` body of Lexer.wrap for a raw token of type
    integer / float with an arbitrary text: exactly one Token reaches the parser; its line and type are the raw token's and
    its value is int(text without underscores, 0) resp. literal_eval(text without underscores); nothing is raised by wrap
    itself.  (With the dependency contract "underscores are ignored by the literal grammar" and C14.int.lang / float.lang this
    is the value Python assigns to the spelling.)"""
    prop = PROP
    target = "jinja2.lexer:Lexer.wrap"
    timeout_quick = 10000

    def __init__(self, tok):
        self.tok = tok
        VC.__init__(self, PROP, f"C14.num.value[{tok}]")
        self.candidates = ("0x1f", "1_0", "0b1_1", "0o17", "00", "7") if tok == L.TOKEN_INTEGER else ("1_0.5", "1e1_0", "2.5", "1.5e-3")

    def default_witness(self):
        return {"token": self.tok, "value_str": None}

    def self_fields(self, st):
        return {}

    def candidate_constraint(self, cand):
        return self.value_str.t == z3.StringVal(cand)

    def configure(self, I):
        def int_obj(I_, st, args, kwargs, node):
            s = args[0]
            if not (isinstance(s, Sym) and s.k == "str") or kwargs or len(args) > 2:
                return None
            base = args[1] if len(args) == 2 else 10
            r = Sym(INTV(s.t, to_term(base, "int")), "int")
            st.trace.append(Event("call", "int", list(args), {}, r, lineno=getattr(node, "lineno", None)))
            return [(st, r)]

        I.specs["int_obj"] = int_obj
        from ast import literal_eval

        def lit_eval(I_, st, args, kwargs, node):
            s = args[0]
            if not (isinstance(s, Sym) and s.k == "str") or kwargs or len(args) != 1:
                raise Unsupported("literal_eval of a non-string", node)
            r = Sym(LITEVAL(s.t), "obj")
            st.trace.append(Event("call", "literal_eval", list(args), {}, r, lineno=getattr(node, "lineno", None)))
            return [(st, r)]

        I.specs[("fn", id(literal_eval))] = lit_eval
        I.specs["Lexer._normalize_newlines"] = A.abstract_fn("_normalize_newlines", returns="str")

        def token_new(I_, st, args, kwargs, node):
            if len(args) != 3 or kwargs:
                return [(st, Raised(Exc(TypeError, ("Token() takes lineno, type, value",), origin=getattr(node, "lineno", None))))]
            return [(st, st.alloc(HObj(L.Token, fields={"lineno": args[0], "type": args[1], "value": args[2]}, path="token")))]

        I.specs[("fn", id(L.Token))] = token_new

    def paths(self, I):
        from pyvc.contract import Outcome
        from pyvc.interp import Frame
        self.configure(I)
        fn = extract.resolve(self.target)
        node, module = extract.function_ast(fn)
        body = [s for s in node.body if not (isinstance(s, ast.Expr) and isinstance(s.value, ast.Constant))]
        if len(body) != 1 or not isinstance(body[0], ast.For) or body[0].orelse:
            raise Unsupported("Lexer.wrap is no longer a single `for ... in stream` loop", node)
        loop = body[0]
        if not (isinstance(loop.target, ast.Tuple) and all(isinstance(e, ast.Name) for e in loop.target.elts) and len(loop.target.elts) == 3):
            raise Unsupported("Lexer.wrap loop header is not `for <lineno>, <token>, <value_str> in stream`", loop)
        if not (isinstance(loop.iter, ast.Name) and loop.iter.id == node.args.args[1].arg):
            raise Unsupported("Lexer.wrap does not iterate over its stream parameter", loop)
        n_line, n_tok, n_val = [e.id for e in loop.target.elts]
        st = State()
        self.value_str = sym("value_str", "str")
        self.lineno = sym("lineno", "int")
        params = [a.arg for a in node.args.args]
        loc = {params[0]: A.obj(st, L.Lexer, "self", fields=self.self_fields(st)), params[1]: sym("stream", "obj")}
        for p in params[2:]:
            loc[p] = sym(p, "obj")
        loc.update({n_line: self.lineno, n_tok: self.tok, n_val: self.value_str})
        pre = st.fork()
        fid = st.new_frame(loc)
        fr = Frame(fid, [], module, "Lexer.wrap", set(), fn_node=node)
        I.depth = 1
        outs = []
        for i, (s, c) in enumerate(I.exec_block(loop.body, st, fr)):
            if c.kind == "raise":
                outs.append(Outcome(s, "raise", c.value, i))
            elif c.kind in ("ok", "continue"):
                outs.append(Outcome(s, "return", None, i))
            else:
                raise Unsupported(f"{c.kind} out of the wrap loop body", loop)
        return pre, outs

    def p_no_raise(self, pre, out):
        return not out.raised

    def p_token(self, pre, out):
        if out.raised:
            return None
        ys = out.st.yields
        if len(ys) != 1 or not isinstance(ys[0], Ref):
            return False
        f = out.st.get(ys[0]).fields
        if f.get("lineno") is not self.lineno or f.get("type") != self.tok:
            return False
        v = f.get("value")
        vs = self.value_str.t
        clean = strip_underscores(vs)
        notes = []
        if self.tok == L.TOKEN_INTEGER:
            if not (isinstance(v, Sym) and v.k == "int"):
                return False
            # requires: the text of an integer token is a match of the real integer_re (rule tables, C14.lex.longest.rule_order), ASCII
            full = bool(L.integer_re.flags & re.ASCII)
            pre_lang = z3.And(z3.InRe(vs, pattern_z3(L.integer_re, notes, ascii_only=not full)), z3.BoolVal(True) if full else z3.InRe(vs, ASCII()))
            # dependency contract (underscores are ignored by the literal grammar): for a Python integer literal s,
            # int(s, 0) and int(s without underscores, 0) are the value Python assigns to s
            dep = z3.Implies(z3.InRe(vs, py_integer()), z3.And(INTV(vs, z3.IntVal(0)) == PYINT(vs), INTV(clean, z3.IntVal(0)) == PYINT(vs)))
            return z3.Implies(z3.And(pre_lang, dep), v.t == PYINT(vs))
        if not (isinstance(v, Sym) and v.k == "obj"):
            return False
        full = bool(L.float_re.flags & re.ASCII)
        pre_lang = z3.And(z3.InRe(vs, pattern_z3(L.float_re, notes, ascii_only=not full)), z3.BoolVal(True) if full else z3.InRe(vs, ASCII()))
        dep = z3.Implies(z3.InRe(vs, py_float()), z3.And(LITEVAL(vs) == PYFLOAT(vs), LITEVAL(clean) == PYFLOAT(vs)))
        return z3.Implies(z3.And(pre_lang, dep), v.t == PYFLOAT(vs))

    posts = [("wrap_itself_raises_nothing", p_no_raise), ("token_value_is_python_value_of_spelling", p_token)]

    def describe(self, out):
        return f"raw token type {self.tok!r}: " + VC.describe(self, out)

    def concretize(self, model, pre, out):
        v = model_value(model, self.value_str.t)
        return {"token": self.tok, "value_str": v if isinstance(v, str) else None}

    def replay(self, w):
        return replay_num_value(w)


def replay_num_value(w):
    """run the real Lexer.wrap on one raw number token for a family of spellings of the token's language and compare the Token
    with Python's value of the spelling"""
    tok = w.get("token")
    pat = L.integer_re if tok == L.TOKEN_INTEGER else L.float_re
    cands = [w.get("value_str")] if isinstance(w.get("value_str"), str) else []
    cands += ["1_000", "0x_fF", "0b1_0", "0o1_7", "0_0", "12"] if tok == L.TOKEN_INTEGER else ["1_0.5", "1_0e1_0", "1.5e-3", "2.5"]
    lx = jinja2.Environment().lexer
    for s in cands:
        if not s.isascii() or pat.fullmatch(s) is None:
            continue
        pv = py_value(s)
        try:
            toks = list(lx.wrap(iter([(7, tok, s)])))
        except Exception as ex:  # noqa
            return (True, f"Lexer.wrap on the {tok} token {s!r} raised {type(ex).__name__}: {ex}")
        if len(toks) != 1 or toks[0].lineno != 7 or toks[0].type != tok or pv is None or not same_value(toks[0].value, pv[1]):
            return (True, f"Lexer.wrap turns the {tok} token {s!r} into {[(t.lineno, t.type, t.value) for t in toks]!r}; Python's value is {pv!r}")
    return (False, "Lexer.wrap agrees with Python on the candidate spellings")



# ---- string branch ------------------------------------------------------------------------------

NORMF = z3.Function("Lexer._normalize_newlines", S_, S_, S_)      # (newline_sequence, text) -> text with its line breaks replaced


def enc_fn(args):
    """dependency: str.encode(*args) as an uninterpreted function per codec / error handler"""
    return z3.Function("str.encode" + repr(tuple(args)), S_, _Obj)


def dec_fn(args):
    return z3.Function("bytes.decode" + repr(tuple(args)), _Obj, S_)


ENC = enc_fn(("ascii", "backslashreplace"))
DEC = dec_fn(("unicode-escape",))
PYSTR = z3.Function("python_value_of_string_literal", S_, S_)     # the value Python assigns to the quoted spelling


def no_line_break(t):
    return z3.And(z3.Not(z3.Contains(t, z3.StringVal("\n"))), z3.Not(z3.Contains(t, z3.StringVal("\r"))))


class StrValue(NumValue):
    """One generic iteration of the real Lexer.wrap loop body for a string token whose text contains no raw line break, under an
    ARBITRARY newline_sequence: the Token's value is Python's value of the spelling - in particular independent of
    newline_sequence (the setting may only rewrite line breaks of the template text, never characters produced by escapes).
    Dependencies: _normalize_newlines(text) is text when text has no line break; decoding the ascii/backslashreplace encoding of the
    text between the quotes with unicode-escape gives Python's value of the literal (bounded stand-in C14.bounded.unescape; F13)."""

    def __init__(self):
        self.tok = L.TOKEN_STRING
        VC.__init__(self, PROP, "C14.str.value[string]")
        self.candidates = ({"value_str": "'a\\nb'", "newline_sequence": "\r\n"}, {"value_str": '"\\r"', "newline_sequence": "\r\n"},
                           {"value_str": "'\\x0a'", "newline_sequence": "\r"}, {"value_str": "'ab'", "newline_sequence": "\n"})

    def self_fields(self, st):
        self.nlseq = sym("newline_sequence", "str")
        st.assume(z3.Or(*[self.nlseq.t == z3.StringVal(x) for x in ("\n", "\r\n", "\r")]))
        return {"newline_sequence": self.nlseq, "keep_trailing_newline": sym("keep_trailing_newline", "bool"), "lstrip_blocks": sym("lstrip_blocks", "bool")}

    def configure(self, I):
        NumValue.configure(self, I)
        c = self

        def normalize(I_, st, args, kwargs, node):
            text = to_term(args[1], "str")
            r = Sym(NORMF(c.nlseq.t, text), "str")
            st.assume(z3.Implies(no_line_break(text), r.t == text))  # dependency: nothing to replace in a text without line breaks
            st.trace.append(Event("call", "_normalize_newlines", [args[1]], {}, r))
            return [(st, r)]

        I.specs["Lexer._normalize_newlines"] = normalize

        def str_encode(I_, st, args, kwargs, node):
            # every codec / error handler is its own uninterpreted function: only the documented pair (ascii+backslashreplace, then
            # unicode-escape) is tied to Python's value by the dependency contract, so any further re-coding of the value must be
            # justified by the proof - it is not, and the obligation is refuted
            if kwargs or not all(isinstance(a, str) for a in args[1:]):
                raise Unsupported("str.encode with keyword / symbolic codec arguments", node)
            return [(st, Sym(enc_fn(args[1:])(to_term(args[0], "str")), "obj", tags={"encoded"}))]

        I.specs["str.encode"] = str_encode

        def method_obj(I_, st, args, kwargs, node):
            o, name = args[0], args[1]
            if name == "decode" and "encoded" in o.tags:
                if kwargs or not all(isinstance(a, str) for a in args[2:]):
                    raise Unsupported("bytes.decode with keyword / symbolic codec arguments", node)
                return [(st, Sym(dec_fn(args[2:])(o.t), "str"))]
            return None

        I.specs["method_obj"] = method_obj

        def getattr_obj(I_, st, args, kwargs, node):
            o, name = args
            if name == "decode" and "encoded" in o.tags:
                return [(st, BoundMethod(o, name))]
            return None

        I.specs["getattr_obj"] = getattr_obj

    def p_token(self, pre, out):
        if out.raised:
            return None
        ys = out.st.yields
        if len(ys) != 1 or not isinstance(ys[0], Ref):
            return False
        f = out.st.get(ys[0]).fields
        if f.get("lineno") is not self.lineno or f.get("type") != self.tok:
            return False
        v = f.get("value")
        if not (isinstance(v, Sym) and v.k == "str"):
            return False
        vs = self.value_str.t
        body = z3.SubString(vs, 1, z3.Length(vs) - 2)
        requires = z3.And(z3.Length(vs) >= 2, no_line_break(vs))
        # string lemma (valid): a character of a substring is a character of the string
        lemma = z3.And(*[z3.Implies(z3.Contains(body, z3.StringVal(ch)), z3.Contains(vs, z3.StringVal(ch))) for ch in ("\n", "\r")])
        dep = DEC(ENC(body)) == PYSTR(vs)
        return z3.Implies(z3.And(requires, lemma, dep), v.t == PYSTR(vs))

    posts = [("wrap_itself_raises_nothing", NumValue.p_no_raise), ("token_value_is_python_value_whatever_the_newline_sequence", p_token)]

    def default_witness(self):
        return {"token": self.tok, "value_str": None}

    def candidate_constraint(self, cand):
        return z3.And(self.value_str.t == z3.StringVal(cand["value_str"]), self.nlseq.t == z3.StringVal(cand["newline_sequence"]))

    def concretize(self, model, pre, out):
        v, q = model_value(model, self.value_str.t), model_value(model, self.nlseq.t)
        return {"token": self.tok, "value_str": v if isinstance(v, str) else None, "newline_sequence": q if isinstance(q, str) else None}

    def replay(self, w):
        return replay_str_value(w)


def replay_str_value(w):
    """native: the real Lexer.wrap on one string token under each newline_sequence, against Python's value of the spelling"""
    cands = [w["value_str"]] if isinstance(w.get("value_str"), str) else []
    cands += ["'a\\nb'", '"\\r"', "'\\x0a\\x0d'", "'\\012'", "'ab'", '"q\\tq"', "'\\\\n'", "'\\ud83d\\ude00'", "'\\ude00\\ud83d'", "'\\ud800'", "'\\U0001f600'"]
    for seq in NEWLINE_SEQUENCES:
        lx = jinja2.Environment(newline_sequence=seq).lexer
        for s in cands:
            want = py_string(s)
            if want is None or "\n" in s or "\r" in s or not s.isascii() or L.string_re.fullmatch(s) is None:
                continue
            try:
                toks = list(lx.wrap(iter([(3, L.TOKEN_STRING, s)])))
            except Exception as ex:  # noqa
                return (True, f"Lexer.wrap on the string token {s!r} under newline_sequence={seq!r} raised {type(ex).__name__}: {ex}")
            if len(toks) != 1 or toks[0].lineno != 3 or toks[0].type != L.TOKEN_STRING or toks[0].value != want:
                return (True, f"Lexer.wrap turns the string token {s!r} under newline_sequence={seq!r} into {[(t.lineno, t.type, t.value) for t in toks]!r}; Python's value is {want!r}")
    return (False, "Lexer.wrap agrees with Python on the candidate string spellings under all three newline sequences")



# ====================================================================================================
# C14.concat: adjacent string tokens denote the concatenation (Parser.parse_primary, real source)
# ====================================================================================================

I_ = z3.IntSort()
TOK_TYPE = z3.Array("tok_type", I_, S_)      # the token sequence of the stream (ghost): type, value, line of the i-th token
TOK_VAL = z3.Array("tok_value", I_, S_)
TOK_LINE = z3.Array("tok_lineno", I_, I_)


def token_at(st, idx):
    return st.alloc(HObj(L.Token, fields={"lineno": Sym(z3.Select(TOK_LINE, idx), "int"), "type": Sym(z3.Select(TOK_TYPE, idx), "str"),
                                          "value": Sym(z3.Select(TOK_VAL, idx), "str")}, path="token"))


def node_ctor(cls):
    """documented contract of Node.__init__ (docs/extensions.rst / nodes.Node): positional arguments are the class's `fields`
    in order, keyword arguments must be `attributes`; a wrong number of fields is a TypeError"""
    def h(I_, st, args, kwargs, node):
        if len(args) not in (0, len(cls.fields)) or any(k not in cls.attributes for k in kwargs):
            return [(st, Raised(Exc(TypeError, ("node constructor arguments",), origin=getattr(node, "lineno", None))))]
        f = {a: None for a in cls.attributes}
        if args:
            f.update(dict(zip(cls.fields, args)))
        else:
            f.update({k: None for k in cls.fields})
        f.update(kwargs)
        return [(st, st.alloc(HObj(cls, fields=f, path="node")))]
    return h


class Concat(WitnessAlways, VC):
    """parse_primary entered at a string token (index i0 of an arbitrary token sequence): returns Const(join of the values of the
    maximal run of string tokens starting at i0) with the line of token i0, the stream left at the first token after the run.
    `"".join(list)` is a dependency (concatenation of the list's elements); its argument is pinned element-wise."""
    prop = PROP
    target = "jinja2.parser:Parser.parse_primary"
    timeout_quick = 15000

    def __init__(self):
        VC.__init__(self, PROP, "C14.concat.parse_primary")

    def default_witness(self):
        return {"what": "parse_primary string run"}

    def configure(self, I):
        from pyvc.stmts import LoopSpec
        c = self

        def s_next(I_, st, args, kwargs, node):
            h = st.get(args[0])
            old = h.fields["current"]
            idx = h.fields["_idx"]
            new_idx = Sym(idx.t + 1, "int")
            h.fields["_idx"] = new_idx
            h.fields["current"] = token_at(st, new_idx.t)
            st.trace.append(Event("call", "TokenStream.__next__", [args[0]], {}, old))
            return [(st, old)]

        I.specs["TokenStream.__next__"] = s_next

        def next_obj(I_, st, args, kwargs, node):
            it = args[0]
            if isinstance(it, Ref) and isinstance(st.get(it), HObj) and st.get(it).cls is L.TokenStream and len(args) == 1:
                return s_next(I_, st, [it], {}, node)
            return None

        I.specs["next_obj"] = next_obj
        for cls in (N.Const, N.Name, N.NSRef):
            I.specs[("fn", id(cls))] = node_ctor(cls)

        def join(I_, st, args, kwargs, node):
            sep, lst = args[0], args[1]
            if sep != "" or not isinstance(lst, Ref) or not isinstance(st.get(lst), HList):
                raise Unsupported("str.join other than ''.join(list)", node)
            arr, n, kind = A.list_terms(st, lst)
            r = fresh("joined", "str")
            st.trace.append(Event("call", "str.join", [sep, lst], {"arr": arr, "n": n}, r))
            return [(st, r)]

        I.specs["str.join"] = join

        def inv(ctx):
            st = ctx.st
            hb = st.get(ctx.local("buf"))
            j = st.get(c.stream).fields["_idx"].t
            arr, n, kind = A.list_terms(st, ctx.local("buf"))
            m = z3.Int(fresh_name("m"))
            return [j >= c.i0 + 1, n == j - c.i0,
                    z3.ForAll([m], z3.Implies(z3.And(0 <= m, m < n), z3.Select(arr, m) == z3.Select(TOK_VAL, c.i0 + m))),
                    z3.ForAll([m], z3.Implies(z3.And(c.i0 <= m, m < j), z3.Select(TOK_TYPE, m) == z3.StringVal("string")))]

        def heap(st, local):
            hb = st.get(local["buf"])
            hb.items = None
            hb.k = "str"
            hb.arr = z3.Const(fresh_name("buf_arr"), z3.ArraySort(I_, S_))
            hb.n = z3.Int(fresh_name("buf_n"))
            hs = st.get(c.stream)
            j = fresh("idx", "int")
            hs.fields["_idx"] = j
            hs.fields["current"] = token_at(st, j.t)

        I.loops[("Parser.parse_primary", 0)] = LoopSpec(inv, havoc={}, heap=heap, name="string_run")

    def setup(self, I, st):
        self.i0 = z3.Int("i0")
        self.stream = st.alloc(HObj(L.TokenStream, fields={"_idx": Sym(self.i0, "int")}, path="stream"), initial=True)
        st.get(self.stream).fields["current"] = token_at(st, self.i0)
        st.assume(z3.Select(TOK_TYPE, self.i0) == z3.StringVal("string"))
        self.parser = st.alloc(HObj(P.Parser, fields={"stream": self.stream}, path="self"), initial=True)
        return [self.parser], {"with_namespace": sym("with_namespace", "bool")}

    def p_result(self, pre, out):
        if out.raised:
            return False
        v = out.value
        st = out.st
        if not (isinstance(v, Ref) and isinstance(st.get(v), HObj) and st.get(v).cls is N.Const):
            return False
        f = st.get(v).fields
        joins = A.calls(out, "str.join")
        if len(joins) != 1 or f.get("value") is not joins[0].result:
            return False
        arr, n = joins[0].kwargs["arr"], joins[0].kwargs["n"]
        j = st.get(self.stream).fields["_idx"].t
        k = j - self.i0
        m = z3.Int(fresh_name("m"))
        return z3.And(
            to_term(f.get("lineno"), "int") == z3.Select(TOK_LINE, self.i0),
            k >= 1, n == k,
            z3.ForAll([m], z3.Implies(z3.And(0 <= m, m < k), z3.Select(arr, m) == z3.Select(TOK_VAL, self.i0 + m))),
            z3.ForAll([m], z3.Implies(z3.And(self.i0 <= m, m < j), z3.Select(TOK_TYPE, m) == z3.StringVal("string"))),
            z3.Select(TOK_TYPE, j) != z3.StringVal("string"))

    def p_frame(self, pre, out):
        """nothing but the stream position is written"""
        if out.raised:
            return None
        return all(rid == self.stream.id or rid in out.st.allocated for rid, fld in out.st.written)

    posts = [("const_of_joined_run", p_result), ("only_stream_advanced", p_frame)]

    def concretize(self, model, pre, out):
        return {"what": "parse_primary string run"}

    def replay(self, w):
        return replay_concat(w)


def replay_concat(w):
    """native: adjacent string literals against the concatenation of the single literals"""
    e = jinja2.Environment()
    pieces = ["'a'", '"b\\n"', "'é'", "''", '"x y"']
    for k in (1, 2, 3, 4):
        for combo in itertools.product(pieces, repeat=k):
            for sep in (" ", "", "\n"):
                src = "{{ " + sep.join(combo) + " }}|{{ 7 }}"
                want = "".join(ast.literal_eval(p) for p in combo) + "|7"
                try:
                    got = e.from_string(src).render()
                except Exception as ex:  # noqa
                    got = f"<{type(ex).__name__}: {ex}>"
                if got != want:
                    return (True, f"{src!r} renders {got!r}, the concatenation is {want!r}")
            if k >= 3:
                break
    try:
        ast_ = e.parse("\n\n{{ 'a'\n'b' }}")
        c = next(iter(ast_.find_all(N.Const)))
        if c.lineno != 3 or c.value != "ab":
            return (True, f"Const for the run starting on line 3 has lineno={c.lineno} value={c.value!r}")
    except Exception as ex:  # noqa
        return (True, f"parse raised {type(ex).__name__}: {ex}")
    return (False, "adjacent string literals render as their concatenation on the fixed family")



# ====================================================================================================
# C14.const.roundtrip: the literal's value survives code generation (render time)
# ====================================================================================================

ROUNDTRIP_SPELLINGS = ["0", "7", "1_000", "0x_fF", "0b1_01", "0o17", "00", "123456789012345678901234567890", "9" * 60,
                       "1.5", "0.1", "1_0.2_5", "1e5", "1E-7", "2.5e+3", "1.7976931348623157e308", "5e-324", "1e-400", "0.0", "0e0",
                       "1e309", "1e999", "9_9.9e9_99", "1.0e400", "123456789.0e300"]


def _same(a, b):
    return type(a) is type(b) and (repr(a) == repr(b) if isinstance(a, float) else a == b)


def roundtrip_contexts(spelling):
    """the value a literal has at render time in the positions where the compiler writes it as a constant of the generated module:
    a call argument, the value of {% set %} (read back through .module), a list item, a dict value, an operand, a macro default"""
    e = jinja2.Environment(cache_size=0)
    seen = []
    e.globals["probe"] = lambda v: (seen.append(v), "")[1]
    out = {}

    def run(label, src, getter):
        del seen[:]
        try:
            t = e.from_string(src)
            out[label] = ("ok", getter(t))
        except Exception as ex:  # noqa
            out[label] = ("raise", f"{type(ex).__name__}: {ex}")

    run("call argument", "{{ probe(%s) }}" % spelling, lambda t: (t.render(), seen[0])[1])
    run("keyword argument", "{{ probe(v=%s) }}" % spelling, lambda t: (t.render(), seen[0])[1])
    run("set + module", "{%% set v = %s %%}" % spelling, lambda t: t.module.v)
    run("list item", "{%% set v = [%s, 1] %%}" % spelling, lambda t: t.module.v[0])
    run("dict value", "{%% set v = {'k': %s} %%}" % spelling, lambda t: t.module.v["k"])
    run("operand", "{{ probe(%s if flag else 0) }}" % spelling, lambda t: (t.render(flag=True), seen[0])[1])
    run("macro default", "{%% macro m(a=%s) %%}{{ probe(a) }}{%% endmacro %%}{{ m() }}" % spelling, lambda t: (t.render(), seen[0])[1])
    return out


def check_roundtrip(spelling):
    pv = py_value(spelling)
    if pv is None:
        return [f"SPEC: {spelling!r} is not a Python number literal"]
    bad = []
    for label, (st_, v) in roundtrip_contexts(spelling).items():
        if st_ != "ok":
            bad.append(f"{spelling} as {label}: {v}; Python's value is {pv[1]!r}")
        elif not _same(v, pv[1]):
            bad.append(f"{spelling} as {label}: value at render time {v!r}; Python's value is {pv[1]!r}")
    return bad


def const_roundtrip(task, tier, seed):
    t0 = time.time()
    out = []
    for sp in ROUNDTRIP_SPELLINGS:
        bad = check_roundtrip(sp)
        name = f"C14.const.roundtrip[{sp if len(sp) < 24 else sp[:10] + '..' + str(len(sp)) + 'chars'}]"
        out.append(Res(name, "refuted" if bad else "discharged", "table", time.time() - t0, "; ".join(bad[:2]) if bad else
                       f"{sp[:30]} keeps Python's value as call / keyword argument, set value, list item, dict value, operand and macro default", "table",
                       {"spelling": sp} if bad else None))
    # the value-level obligation of C08 (text written by the real visit_Const evaluates back to the value), when that module is importable
    try:
        from contracts.c08 import roundtrip_case
        for sp in ROUNDTRIP_SPELLINGS:
            pv = py_value(sp)
            ok, key, detail = roundtrip_case(sp, pv[1])
            out.append(Res(f"C14.const.roundtrip.visit_Const[{sp if len(sp) < 24 else sp[:10] + '..'}]", "discharged" if ok else "refuted", "table", time.time() - t0,
                           detail or "the text written by visit_Const evaluates back to the value", "table", None if ok else {"spelling": sp}))
    except ImportError:
        pass
    return out


def replay_const_roundtrip(w):
    bad = check_roundtrip(w["spelling"])
    return (bool(bad), "; ".join(bad[:2]) or f"{w['spelling']}: value kept in every position")



# ====================================================================================================
# C14.num.ascii_only: a number pattern matches ASCII spellings only (the ASCII restriction of *.lang is then a fact)
# ====================================================================================================


def non_ascii_matchers(p):
    """structural reasons why the REAL pattern p can match a non-ASCII character: a category escape (\\d, \\w, \\s and negations) or a negated
    set / `.` in a str pattern compiled without re.ASCII, or an IGNORECASE letter with a non-ASCII case variant (k -> KELVIN SIGN, s -> LONG S)"""
    import re._constants as C
    import re._parser as RP
    reasons = []
    ascii_flag = bool(p.flags & re.ASCII)
    ic = bool(p.flags & re.IGNORECASE)

    def walk(items):
        for op, av in items:
            if op is C.IN:
                for o2, a2 in av:
                    if o2 is C.CATEGORY and not ascii_flag:
                        reasons.append(f"category escape {str(a2).lower()} without re.ASCII")
                    if o2 is C.NEGATE:
                        reasons.append("negated character set")
                    if o2 is C.LITERAL and ic and not ascii_flag and chr(a2).lower() in "ks":
                        reasons.append(f"letter {chr(a2)!r} under IGNORECASE without re.ASCII")
                    if o2 is C.RANGE and ic and not ascii_flag and any(chr(x).lower() in "ks" for x in range(a2[0], a2[1] + 1)):
                        reasons.append(f"range {chr(a2[0])}-{chr(a2[1])} under IGNORECASE without re.ASCII")
            elif op is C.LITERAL:
                if av > 127:
                    reasons.append(f"literal {chr(av)!r}")
                if ic and not ascii_flag and chr(av).lower() in "ks":
                    reasons.append(f"letter {chr(av)!r} under IGNORECASE without re.ASCII")
            elif op in (C.ANY, C.NOT_LITERAL):
                reasons.append("`.` / negated literal")
            elif op is C.CATEGORY and not ascii_flag:
                reasons.append(f"category escape {str(av).lower()} without re.ASCII")
            elif op is C.BRANCH:
                for b in av[1]:
                    walk(list(b))
            elif op is C.SUBPATTERN:
                walk(list(av[3]))
            elif op in (C.MAX_REPEAT, C.MIN_REPEAT):
                walk(list(av[2]))
            elif op in (C.ASSERT, C.ASSERT_NOT):
                pass  # context only
    walk(list(RP.parse(p.pattern, p.flags)))
    return sorted(set(reasons))


def non_ascii_witness(p):
    """a spelling with a non-ASCII character that the real pattern fully matches (probe over all Unicode decimal digits / letter variants)"""
    import unicodedata
    extra = [chr(i) for i in range(128, 0x110000) if unicodedata.category(chr(i)) == "Nd"] + ["K", "ſ"]
    for ch in extra:
        for s in ("1" + ch, ch, "0x" + ch, "1." + ch, "1e" + ch, ch + ".5", "0b" + ch, "0o" + ch):
            if p.fullmatch(s):
                return s
    return None


def ascii_only(task, tier, seed):
    t0 = time.time()
    out = []
    for name, p in (("integer_re", L.integer_re), ("float_re", L.float_re)):
        reasons = non_ascii_matchers(p)
        w = non_ascii_witness(p) if reasons else None
        ok = not reasons
        out.append(Res(f"C14.num.ascii_only[{name}]", "discharged" if ok else "refuted", "regex", time.time() - t0,
                       f"lexer.{name} can only match ASCII spellings (flags {re.RegexFlag(p.flags)!r})" if ok else
                       f"lexer.{name} can match non-ASCII characters ({'; '.join(reasons)}), e.g. the spelling {w!r}: the lexer reads it as one number although Python assigns it no value",
                       "regex", None if ok else {"spelling": w or "1٣", "key": f"{name}:non-ascii-digits"}))
    return out


def replay_ascii_only(w):
    s = w["spelling"]
    r = lex_one_number(s)
    pv = py_value(s)
    bad = r[0] == "one" and pv is None
    return (bad, f"{{{{ {s} }}}}: the lexer reads {r!r}; Python's value of the spelling: {pv!r}")



def bounded_tasks():
    ts = []
    for k in range(NUM_SHARDS):
        t = FnTask(PROP, f"C14.bounded.numbers[{k}]", bounded_numbers(k), kind="bounded", replay_fn=replay_number)
        t.bound_text = (f"every spelling of length <= 5 (quick tier: <= 4) over [0-9_.eExXoObB] (shard {k} of {NUM_SHARDS}): when the real lexer reads "
                        "`{{ spelling }}` as one number token, its type/value and the rendered constant are compared with Python's compiler")
        t.finding_key = numbers_key
        ts.append(t)
    for k in range(STR_SHARDS):
        t = FnTask(PROP, f"C14.bounded.unescape[{k}]", bounded_unescape(k), kind="bounded", replay_fn=replay_string)
        t.bound_text = (f"every body of length <= 4 (quick tier: <= 3) over {{a, é, U+1F600, \\, ', \", n, x, u, 0, 1, newline}} in both quote styles "
                        f"(shard {k} of {STR_SHARDS}) that Python accepts as short string literal(s): real Environment render vs ast value; "
                        "plus every sequence of <= 4 (quick 3) symbols over {\\ud83d, \\ude00, \\ud800, \\udfff, a, \\U0001f600} (surrogate escapes lone / paired / reversed); "
                        "repeated under newline_sequence '\\r\\n' and '\\r' over the reduced alphabet {{a, \\, ', \", n, r, x, 0, 1, newline}}")
        t.finding_key = numbers_key
        ts.append(t)
    return ts


def _with_key(t):
    t.finding_key = numbers_key
    return t


TASKS = [
    FnTask(PROP, "C14.int.lang", int_lang, kind="regex", replay_fn=replay_lang),
    FnTask(PROP, "C14.float.lang", float_lang, kind="regex", replay_fn=replay_lang),
    FnTask(PROP, "C14.str.lang", str_lang, kind="regex", replay_fn=replay_str_lang),
    FnTask(PROP, "C14.lex.longest", lex_longest, kind="regex", replay_fn=replay_lang),
    FnTask(PROP, "C14.pygrammar", pygrammar, kind="table"),
    _with_key(FnTask(PROP, "C14.num.ascii_only", ascii_only, kind="regex", replay_fn=replay_ascii_only)),
    FnTask(PROP, "C14.const.roundtrip", const_roundtrip, kind="table", replay_fn=replay_const_roundtrip),
    NumValue(L.TOKEN_INTEGER), NumValue(L.TOKEN_FLOAT), StrValue(), Concat(),
] + bounded_tasks()

META = {
    "level": "other",
    "explanation": (
        "Proof of mechanism for numbers plus bounded stand-ins; not an end-to-end proof. (1) The REAL compiled patterns integer_re / float_re / "
        "string_re are parsed with re._parser and translated to z3 regular expressions; z3 proves L(integer_re) and L(float_re) (ASCII) included in "
        "the Python integer / float literal grammars (written from the language reference and validated against ast.parse on every spelling of "
        "length <= 4), the converse for every Python integer form and the documented float forms, disjointness of the two kinds, that the float rule "
        "(tried first in every real rule table) never takes a prefix of an integer spelling, and that every repr-style quoted spelling is in "
        "L(string_re). (2) The integer / float branches of the real Lexer.wrap loop body are executed symbolically: the Token carries "
        "int(text.replace('_',''), 0) resp. literal_eval(text.replace('_','')) with type and line unchanged. (3) Parser.parse_primary is proved, with "
        "a loop invariant over an arbitrary token sequence, to return Const(''.join(values of the maximal run of string tokens)) at the first "
        "token's line. What a match of the pattern CONSUMES (longest / first match, A8) and the string unescaping "
        "(encode('ascii','backslashreplace').decode('unicode-escape')) are outside the verifier's reach and are carried by the two bounded "
        "stand-ins on the real Environment, which is why the level is 'other'."),
    "assumptions": [
        "A8: `re` implements leftmost / ordered-alternation / greedy semantics and re._parser describes the pattern `re` executes",
        "ASCII alphabet for patterns compiled WITHOUT re.ASCII (currently integer_re): `\\d` is taken as [0-9]; such a pattern's `\\d` also matches the other "
        "Unicode Nd digits (e.g. `{{ ١٢ }}` lexes as the integer 12, which Python rejects as a literal) - outside the statement's alphabet [0-9_.eExXoObB]. "
        "For a pattern compiled with re.ASCII (float_re since the fix 'float literals only accept ASCII digits') `\\d` = [0-9] is a fact read off the "
        "pattern's flags and the inclusion is proved over the full alphabet",
        "dependency contract: underscores are ignored by the literal grammar - for s in L(integer literal) int(s.replace('_',''), 0), and for s in "
        "L(float literal) ast.literal_eval(s.replace('_','')), is the value Python assigns to s (checked exhaustively up to length 5 by C14.bounded.numbers)",
        "dependency contract: ''.join(list of str) is the concatenation of the elements in order",
        "integers longer than sys.get_int_max_str_digits() raise ValueError in int() (resource clause, owned by C01.wrap.raises)",
        "C14.const.roundtrip: table over number spellings (incl. overflowing floats, big integers) in the positions where the compiler writes a constant "
        "(call / keyword argument, set value via .module, list item, dict value, operand, macro default) plus C08's visit_Const text round trip when importable; "
        "the general claim for every constant is owned by C08",
    ],
    "trusted_base": [
        "z3 regular-expression theory (inclusion as unsatisfiability of membership / non-membership)", "pyvc symbolic executor",
        "contracts/c14.py pattern_z3: translation of the re._parser tree (LITERAL, IN, BRANCH, SUBPATTERN, MAX/MIN_REPEAT, ANY, NOT_LITERAL; IGNORECASE expanded; "
        "leading look-behind of float_re dropped: it constrains the context, not the matched text)",
        "Python literal grammars py_integer()/py_float() written from the language reference, validated against ast.parse (C14.pygrammar)",
        "dependency spec builtin int(str, base) / ast.literal_eval(str): uninterpreted functions of their arguments",
        "dependency spec str.replace(a, b): z3 str.replace_all", "dependency spec TokenStream.__next__: advances to the next token of the sequence, returns the old current token",
        "documented contract of Node.__init__ (positional = fields, keyword = attributes)",
    ],
}
