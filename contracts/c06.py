"""C06  Macro argument binding follows the documented macro calling rules.

Runtime half (proof, unbounded): jinja2.runtime:Macro.__call__ against the binding
rules of the property statement, for every number of parameters n, every number of
positional arguments m and every keyword set K (array encoding, loop invariant on
the fill loop).  Spec (DESIGN section 5, C06):

  arg_i = a_i if i < m ; else K[p_i] if p_i in K ; else `missing`
  K'    = K minus the names consumed that way
  then, in this order:  caller (K'.caller or undefined)  iff uses_caller and the macro has
  no explicit `caller` parameter;  K' iff uses_kwargs, else TypeError if K' is non-empty;
  a[n:] iff uses_varargs, else TypeError if m > n.
"""
from __future__ import annotations

import z3

from pyvc.contract import VC, Res, FnTask
from pyvc.values import State, Sym, Ref, HObj, HList, HDict, SSeq, Obj, fresh_name, sym, sel
from pyvc.smt import to_term, model_value, host_const
from pyvc.stmts import LoopSpec
from pyvc import abstract as A
from pyvc.ops import isinst_fn, attr_fn

import jinja2.runtime as R
from jinja2.nodes import EvalContext
from jinja2.utils import missing

I_ = z3.IntSort()
from pyvc.smt import str2obj
CALLER = str2obj(z3.StringVal("caller"))
S_ = Obj  # parameter / keyword names are abstract atoms; only equality matters (the literal "caller" is one atom)


class MacroCall(VC):
    prop = "C06"
    target = "jinja2.runtime:Macro.__call__"
    timeout_quick = 30000

    def __init__(self, flags=None):
        self.flags = flags
        suffix = "" if flags is None else "[caller=%d,kwargs=%d,varargs=%d]" % tuple(int(x) for x in flags)
        super().__init__("C06", "C06.Macro.__call__" + suffix)

    def configure(self, I):
        I.specs["Macro._invoke"] = A.abstract_fn("Macro._invoke", returns="obj")
        I.specs["Environment.undefined"] = A.abstract_fn("environment.undefined", returns="obj", tags=("undefined",))

        def getattr_obj(I_, st, args, kwargs, node):
            o, name = args
            return [(st, Sym(attr_fn(name)(o.t), "obj"))]

        I.specs["getattr_obj"] = getattr_obj
        c = self

        def inv(ctx):
            st = ctx.st
            k = ctx.k
            hA = st.get(ctx.local("arguments"))
            hK = st.get(c.kw)
            i = z3.Int(fresh_name("i"))
            s = z3.Const(fresh_name("s"), S_)
            off = c.off_term
            fc = ctx.local("found_caller")
            return [
                hA.n == off + k,
                z3.ForAll([i], z3.Implies(z3.And(0 <= i, i < off), z3.Select(hA.arr, i) == c.ap(i))),
                z3.ForAll([i], z3.Implies(z3.And(off <= i, i < off + k), z3.Select(hA.arr, i) == c.kw_or_missing(z3.Select(c.P, i)))),
                z3.ForAll([s], z3.Select(hK.dom, s) == z3.And(z3.Select(c.Kdom, s), z3.Not(z3.And(c.isparam(s), off <= c.pos(s), c.pos(s) < off + k)))),
                z3.ForAll([s], z3.Select(hK.val, s) == z3.Select(c.Kval, s)),
                # found_caller = (its value at loop entry) or "caller" was among the names processed so far
                to_term(fc, "bool") == z3.Or(to_term(ctx.entry_local("found_caller"), "bool"),
                                            z3.And(c.isparam(CALLER), off <= c.pos(CALLER), c.pos(CALLER) < off + k)),
            ]

        def heap(st, local):
            hA = st.get(local["arguments"])
            hA.arr = z3.Const(fresh_name("A_arr"), z3.ArraySort(I_, Obj))
            hA.n = z3.Int(fresh_name("A_n"))
            hK = st.get(c.kw)
            hK.dom = z3.Const(fresh_name("K_dom"), z3.ArraySort(S_, z3.BoolSort()))
            hK.val = z3.Const(fresh_name("K_val"), z3.ArraySort(S_, Obj))
            hK.size = z3.Int(fresh_name("K_size"))

        I.loops[("Macro.__call__", 0)] = LoopSpec(inv, havoc={"value": "obj", "found_caller": "bool"}, heap=heap, name="fill_loop")

    # ---- spec vocabulary ------------------------------------------------------------
    def ap(self, i):
        return z3.Select(self.a, z3.If(self.hc, i + 1, i))

    def kw_or_missing(self, name):
        return z3.If(z3.Select(self.Kdom, name), z3.Select(self.Kval, name), host_const(missing))

    def isparam(self, s):
        return z3.And(0 <= self.pos(s), self.pos(s) < self.n, z3.Select(self.P, self.pos(s)) == s)

    def setup(self, I, st):
        self.n = z3.Int("n_params")
        self.P = z3.Const("params", z3.ArraySort(I_, S_))
        self.pos = z3.Function("param_pos", S_, I_)
        i = z3.Int("pi")
        st.assume(self.n >= 0, z3.ForAll([i], z3.Implies(z3.And(0 <= i, i < self.n), self.pos(z3.Select(self.P, i)) == i)))
        params = st.alloc(HList(arr=self.P, n=self.n, k="obj"), initial=True)
        self.env = A.obj(st, R.Macro.__init__.__globals__.get("Environment", object) if False else __import__("jinja2").Environment, "environment", lazy={"is_async": "bool"})
        self.uses_caller, self.uses_kwargs, self.uses_varargs = sym("uses_caller", "bool"), sym("uses_kwargs", "bool"), sym("uses_varargs", "bool")
        if self.flags is not None:
            # case split over the three compile-time flags (one task per combination, run in parallel)
            for v, b in zip((self.uses_caller, self.uses_kwargs, self.uses_varargs), self.flags):
                st.assume(v.t == z3.BoolVal(bool(b)))
        self.explicit = sym("explicit_caller", "bool")
        st.assume(self.explicit.t == self.isparam(CALLER))  # established by Macro.__init__ (C06.Macro.__init__)
        self.default_ae = sym("default_autoescape", "obj")
        self.macro = A.obj(st, R.Macro, "self", fields={
            "_environment": self.env, "_func": sym("func", "obj"), "_argument_count": Sym(self.n, "int"), "name": sym("macro_name", "str"),
            "arguments": params, "catch_kwargs": self.uses_kwargs, "catch_varargs": self.uses_varargs, "caller": self.uses_caller,
            "explicit_caller": self.explicit, "_default_autoescape": self.default_ae,
        })
        args = A.sseq(st, "args", "obj")
        self.a, self.m = args.arr, args.n
        self.kw = A.adict(st, "kwargs", "obj", "obj")
        hK = st.get(self.kw)
        self.Kdom, self.Kval = hK.dom, hK.val
        self.hc = z3.And(self.m > 0, isinst_fn(EvalContext)(z3.Select(self.a, 0)))
        self.mp = z3.If(self.hc, self.m - 1, self.m)
        self.off_term = z3.If(self.mp < self.n, self.mp, self.n)
        return "locals", {"self": self.macro, "args": args, "kwargs": self.kw}

    # ---- derived spec terms -------------------------------------------------------------
    def k1_dom(self, s):
        """K' : K minus the names consumed by parameters not filled positionally"""
        return z3.And(z3.Select(self.Kdom, s), z3.Not(z3.And(self.isparam(s), self.pos(s) >= self.mp)))

    def want_caller(self):
        return z3.And(self.uses_caller.t, z3.Not(self.explicit.t))

    def k2_dom(self, s):
        """K'' : K' minus `caller` when the implicit caller is taken"""
        return z3.And(self.k1_dom(s), z3.Not(z3.And(self.want_caller(), s == CALLER)))

    def type_error_cond(self):
        s = z3.Const(fresh_name("s"), S_)
        return z3.Or(z3.And(z3.Not(self.uses_kwargs.t), z3.Exists([s], self.k2_dom(s))),
                     z3.And(z3.Not(self.uses_varargs.t), self.mp > self.n))

    # ---- postconditions --------------------------------------------------------------------
    def p_errors(self, pre, out):
        """TypeError exactly in the two spec cases, before the macro function runs"""
        cond = self.type_error_cond()
        if out.raised:
            if out.value.cls is not TypeError or A.calls(out, "Macro._invoke"):
                return False
            return cond
        return z3.Not(cond)

    def invoke_args(self, out):
        ev = A.calls(out, "Macro._invoke")
        if len(ev) != 1:
            return None
        return ev[0]

    def p_binding(self, pre, out):
        if out.raised:
            return None
        ev = self.invoke_args(out)
        if ev is None:
            return False
        st = out.st
        arr, L, kind = A.list_terms(st, ev.args[1])
        i = z3.Int(fresh_name("i"))
        s = z3.Const(fresh_name("s"), S_)
        base = z3.ForAll([i], z3.Implies(z3.And(0 <= i, i < self.n),
                                        z3.Select(arr, i) == z3.If(i < self.mp, self.ap(i), self.kw_or_missing(z3.Select(self.P, i)))))
        wc = self.want_caller()
        caller_s = CALLER
        undefined_calls = A.calls(out, "environment.undefined")
        kcaller = z3.Select(self.Kval, caller_s)
        none = host_const(None)
        has_kcaller = z3.And(self.k1_dom(caller_s), kcaller != none)
        if undefined_calls:
            und = to_term(undefined_calls[-1].result, "obj")
            caller_val = z3.If(has_kcaller, kcaller, und)
            caller_ok = z3.Implies(wc, z3.And(z3.Not(has_kcaller), z3.Select(arr, self.n) == und))
        else:
            caller_ok = z3.Implies(wc, z3.And(has_kcaller, z3.Select(arr, self.n) == kcaller))
        idx1 = z3.If(wc, self.n + 1, self.n)
        hK = st.get(self.kw)
        kwargs_ok = z3.Implies(self.uses_kwargs.t, z3.And(
            z3.Select(arr, idx1) == to_term(self.kw, "obj"),
            z3.ForAll([s], z3.Select(hK.dom, s) == self.k2_dom(s)),
            z3.ForAll([s], z3.Implies(self.k2_dom(s), z3.Select(hK.val, s) == z3.Select(self.Kval, s)))))
        idx2 = z3.If(self.uses_kwargs.t, idx1 + 1, idx1)
        # varargs: boxed sequence a'[n:]
        var_ok = z3.BoolVal(True)
        boxes = [r for r in self.boxes(st, ev.args[1])]
        if boxes:
            b = st.get(boxes[-1])
            barr, bn = (b.arr, b.n) if not b.concrete else A.list_terms(st, boxes[-1])[:2]
            ln = z3.If(self.mp > self.n, self.mp - self.n, 0)
            var_ok = z3.Implies(self.uses_varargs.t, z3.And(
                z3.Select(arr, idx2) == to_term(boxes[-1], "obj"), bn == ln,
                z3.ForAll([i], z3.Implies(z3.And(0 <= i, i < ln), z3.Select(barr, i) == self.ap(self.n + i)))))
        else:
            var_ok = z3.Not(self.uses_varargs.t)
        idx3 = z3.If(self.uses_varargs.t, idx2 + 1, idx2)
        return z3.And(base, caller_ok, kwargs_ok, var_ok, L == idx3)

    def boxes(self, st, lst):
        """refs of tuple boxes allocated on this path (the varargs tuple)"""
        return [Ref(i) for i in sorted(st.allocated) if isinstance(st.heap[i], HList) and st.heap[i].tag == "tuple"]

    def p_autoescape(self, pre, out):
        if out.raised:
            return None
        ev = self.invoke_args(out)
        if ev is None:
            return False
        ae = ev.args[2]
        want = z3.If(self.hc, attr_fn("autoescape")(z3.Select(self.a, 0)), self.default_ae.t)
        return to_term(ae, "obj") == want

    def p_result(self, pre, out):
        if out.raised:
            return None
        ev = self.invoke_args(out)
        return ev is not None and out.value is ev.result

    posts = [("errors", p_errors), ("binding", p_binding), ("autoescape", p_autoescape), ("result_is_invoke", p_result)]

    # ---- replay -------------------------------------------------------------------------------
    def concretize(self, model, pre, out):
        n = max(0, min(6, model_value(model, self.n)))
        m = max(0, min(8, model_value(model, self.m)))
        caller_atom = str(model.eval(CALLER, model_completion=True))
        pnames = {caller_atom: "caller"}

        def pn(t):
            s = str(model.eval(t, model_completion=True))
            return pnames.setdefault(s, f"p{len(pnames)}")

        atoms = [z3.Select(self.P, i) for i in range(n)]
        params = [pn(t) for t in atoms]
        hc = bool(model_value(model, self.hc))
        names = {}

        def nm(t):
            s = str(model.eval(t, model_completion=True))
            return names.setdefault(s, f"v{len(names)}")

        a = [nm(z3.Select(self.a, i)) for i in range(m)]
        extra = z3.Const("extra_kw_atom", S_)
        kw = {}
        for t in atoms + [CALLER]:
            if model_value(model, z3.Select(self.Kdom, t)) is True:
                v = model.eval(z3.Select(self.Kval, t), model_completion=True)
                kw[pn(t)] = None if str(v) == str(model.eval(host_const(None), model_completion=True)) else nm(z3.Select(self.Kval, t))
        # any other key present in K (a keyword that is no parameter)
        try:
            dom_model = model.eval(self.Kdom, model_completion=True)
            s = z3.Solver()
            s.add(z3.Select(dom_model, extra), *[extra != model.eval(t, model_completion=True) for t in atoms + [CALLER]])
            if s.check() == z3.sat:
                kw["extra"] = "vx"
        except Exception:
            pass
        return {"params": params, "args": a, "evalctx_first": hc, "kwargs": kw,
                "uses_caller": bool(model_value(model, self.uses_caller.t)), "uses_kwargs": bool(model_value(model, self.uses_kwargs.t)),
                "uses_varargs": bool(model_value(model, self.uses_varargs.t))}

    def replay(self, w):
        return replay_macro(w)


def reference_binding(params, args, kwargs, uses_caller, uses_kwargs, uses_varargs, undefined):
    """The binding rules of the property statement, executable."""
    n = len(params)
    K = dict(kwargs)
    out = []
    for i, p in enumerate(params):
        if i < len(args):
            out.append(args[i])
        elif p in K:
            out.append(K.pop(p))
        else:
            out.append(missing)
    if uses_caller and "caller" not in params:
        c = K.pop("caller", None)
        out.append(undefined if c is None else c)
    if uses_kwargs:
        out.append(K)
    elif K:
        return TypeError
    if uses_varargs:
        out.append(tuple(args[n:]))
    elif len(args) > n:
        return TypeError
    return out


def replay_macro(w):
    import jinja2
    from jinja2.runtime import Macro
    env = jinja2.Environment()
    params = list(w["params"])
    if len(set(params)) != len(params) or any(not isinstance(p, str) for p in params):
        return (False, "witness has duplicate parameter names (outside the precondition)")
    got = {}

    def func(*a):
        got["args"] = a
        return "x"

    m = Macro(env, func, "m", params, w["uses_kwargs"], w["uses_varargs"], w["uses_caller"], False)
    args = list(w["args"])
    if w["evalctx_first"]:
        args = [EvalContext(env)] + args[1:]
        eff = args[1:]
    else:
        eff = args
    try:
        m(*args, **dict(w["kwargs"]))
        real = list(got.get("args", ()))
    except TypeError:
        real = TypeError
    UND = "UNDEFINED"
    want = reference_binding(params, eff, w["kwargs"], w["uses_caller"], w["uses_kwargs"], w["uses_varargs"], UND)
    if real is not TypeError:
        real = [UND if isinstance(x, jinja2.Undefined) else x for x in real]
    bad = real != want
    return (bad, f"macro({', '.join(params)}) called with args={eff} kwargs={w['kwargs']} flags(caller,kwargs,varargs)="
                 f"{(w['uses_caller'], w['uses_kwargs'], w['uses_varargs'])}: real={real!r} spec={want!r}")


class MacroInit(VC):
    """Macro.__init__ stores the flags where __call__ reads them; explicit_caller = 'caller' in arguments."""
    prop = "C06"
    target = "jinja2.runtime:Macro.__init__"

    def __init__(self):
        super().__init__("C06", "C06.Macro.__init__")

    def setup(self, I, st):
        import jinja2
        self.env = A.obj(st, jinja2.Environment, "environment", fields={"autoescape": sym("env_autoescape", "bool")})
        self.obj = st.alloc(HObj(R.Macro), initial=True)
        self.params = ["a", "caller", "b"]
        self.plist = st.alloc(HList(items=list(self.params)), initial=True)
        self.flags = [sym("catch_kwargs", "bool"), sym("catch_varargs", "bool"), sym("caller_flag", "bool")]
        self.func = sym("func", "obj")
        return [self.obj, self.env, self.func, "name", self.plist] + self.flags, {}

    def p_fields(self, pre, out):
        if out.raised:
            return False
        f = out.st.get(self.obj).fields
        return (f.get("catch_kwargs") is self.flags[0] and f.get("catch_varargs") is self.flags[1] and f.get("caller") is self.flags[2]
                and f.get("_argument_count") == 3 and f.get("arguments") == self.plist and f.get("explicit_caller") is True
                and f.get("_func") is self.func and f.get("_environment") == self.env and f.get("name") == "name"
                and f.get("_default_autoescape") is self.env_ae(out))

    def env_ae(self, out):
        return out.st.get(self.env).fields["autoescape"]

    posts = [("fields", p_fields)]


import itertools
TASKS = [MacroCall(f) for f in itertools.product((False, True), repeat=3)] + [MacroInit()]

META = {
    "level": "proof",
    "explanation": "Macro.__call__ (real source, symbolic *args/**kwargs/parameter list of arbitrary length) is proved against the "
                   "binding rules of the statement with a loop invariant on the keyword fill loop; Macro.__init__ stores the flags "
                   "in the positions __call__ reads. Compiler-side emission obligations (parameter order, defaults) are listed "
                   "separately when present.",
    "assumptions": ["parameter names of a macro are pairwise distinct (established by the parser; see C01-W1)",
                    "A7 await transparent", "kwargs keys are strings"],
    "trusted_base": ["z3 5.1 / cvc5", "pyvc symbolic executor", "dict.pop / list.append / tuple slicing dependency specs"],
}

try:  # compiler-side half (c06_emit.py); a failure to load it must not take the runtime half down
    from contracts import c06_emit as _e; TASKS = list(TASKS) + list(_e.TASKS)
except Exception as _ex:  # noqa
    import sys as _sys; print(f"contracts.c06_emit not loaded: {_ex!r}", file=_sys.stderr)
