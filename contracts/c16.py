"""C16  Autoescaping escapes each value exactly once.

Same functions under contract as C15 (contracts/c15.py holds the shared machinery).

  C16.once.output            emission contract on the real CodeGenerator.visit_Output (concrete child list of 1..3
        symbolic children of classes {generic Expr, TemplateData, Const}: bound on the list length):
        a run-time child is passed to exactly ONE escape selector -  escape(F) (on),  str(F) (off),
        (escape if context.eval_ctx.autoescape else str)(F) (volatile) - and F contains no second one; a compile-time
        constant went through escape() exactly once when the static flag is on and never when it is off.
  C16.once.forward.<visitor> every other visitor: no `escape` is written at all (the only exception is a filter
        block's result, escape(<filter of Markup(concat(buffer))>), the identity for escaping-neutral filters), and the
        forwarding loops of visit_Block / visit_Include (`yield event`, `buffer.append(event)`, `yield from ...`) hand the
        events on unwrapped.
  C16.once.forward.extends_tail  the code written by visit_Template after the root body (extends tail) forwards the parent's
        events unwrapped (table over the string literals the real method writes).
  C16.once.wrappers.<site>   Macro._invoke/_async_invoke, BlockReference.__call__/_async_call, TemplateModule.__html__/
        __str__: the value is Markup exactly when the autoescape flag of the call is on, its text is the output of ONE
        call of the generated function and no escape() is applied; so the Output that receives it applies
        escape(Markup) = Markup (dependency spec, checked on the installed MarkupSafe by C16.once.dependency) and with
        autoescape off str(str) = str.
  C16.once.wrappers.emitted.<visitor>  the wrappers the COMPILER writes (return_buffer_contents in the recursive `loop` function of
        visit_For, the block-filter argument of visit_Filter, the set block of visit_AssignBlock, macro bodies): concat(<frame buffer>)
        is handed over as Markup(concat(buf)) exactly when autoescape is on for the frame, as plain concat(buf) when it is off, by a
        run-time test when the frame is volatile; only a macro body returns the plain text (Macro._invoke wraps it).  Plus a table over the
        call sites of return_buffer_contents: force_unescaped=True in macro_body only.
  C16.once.wrappers.emitted.eval_ctx_restore  visit_ScopedEvalContextModifier reverts the run-time flags in a finally clause.
  C16.once.filter.join / replace  under autoescape a result built from a Markup operand is Markup (ghost-tag algebra of C15).
  C16.once.dependency        bounded check of the dependency specs on the installed MarkupSafe:
        escape(Markup(x)) is Markup(x); str(s) is s; unescape(escape(s)) == s.
Lemma (argued in DESIGN section 5): for escaping-neutral templates unescape(render_on) == render_off.
"""
from __future__ import annotations

import ast
import itertools
import re
import time

import z3

from pyvc.contract import VC, Res, FnTask, Task
from pyvc.emitcheck import EmitTask
from pyvc import emit
from contracts.emit_common import hole_of, visitors
from contracts import c15 as K

import markupsafe
import jinja2
import jinja2.nodes as N

VOLATILE, AUTOESCAPE = K.VOLATILE, K.AUTOESCAPE


# =====================================================================================================
# C16.once.output
# =====================================================================================================

def once_output_pred(kinds):
    want_paths = [K.child_path(i) for i in range(len(kinds))]

    def pred(sc, tree, ph, txt):
        if sc.outcome == "raise":
            return [f"[raises] visit_Output raises {sc.value!r}"]
        if txt is not None and not txt.strip():
            return []
        items, problems = K.analyse_output(sc, tree, ph)
        if items is None:
            return problems
        fails = list(problems)
        volatile, not_volatile = sc.holds(VOLATILE), sc.holds(z3.Not(VOLATILE))
        on, off = sc.holds(AUTOESCAPE), sc.holds(z3.Not(AUTOESCAPE))
        seen = [it[1] for it in items]
        if seen != want_paths:
            fails.append(f"[order] children are not emitted exactly once each, in source order: {seen}")
        for it in items:
            if it[0] == "runtime":
                _, path, kind, n_esc = it
                if kind.startswith("other:"):
                    fails.append(f"[selector] run-time child {path} is not wrapped by exactly one escape selector: {kind[6:]!r}")
                    continue
                want = "dynamic" if volatile else "escape" if (not_volatile and on) else "str" if (not_volatile and off) else None
                if want is None:
                    fails.append("[undecided] path does not decide the flags of the frame")
                elif kind != want:
                    fails.append(f"[selector:{want}] run-time child {path}: selector is {kind!r}, expected {want!r} "
                                 f"({'volatile' if volatile else 'autoescape on' if on else 'autoescape off'})")
                if n_esc != (0 if kind == "str" else 1):
                    fails.append(f"[nested-escape] run-time child {path}: `escape` occurs {n_esc} times in its wrapper (escaped twice?)")
            else:
                _, path, tags = it
                n = len([t for t in tags if t.startswith("esc:")])
                if "template_text" in tags:
                    if n > 1:
                        fails.append(f"[const-twice] template text {path} is passed to escape() {n} times")
                    continue
                if not not_volatile:
                    continue  # a constant in a volatile frame is C15.output.wrap's finding (DESIGN F2), not a once-ness question
                if on and n != 1:
                    fails.append(f"[const-{'twice' if n > 1 else 'unescaped'}] autoescape on: compile-time constant of {path} went through escape() {n} times")
                if off and n != 0:
                    fails.append(f"[const-escaped-off] autoescape off: compile-time constant of {path} went through escape() {n} times")
        return fails

    return pred


# =====================================================================================================
# C16.once.forward
# =====================================================================================================

FORWARDERS = {"Block", "Include"}
BLOCK_RESULT_VISITORS = {"FilterBlock", "AssignBlock"}


def once_forward_pred(sc, tree, ph, txt):
    if sc.outcome == "raise" or tree is None:
        return []
    vis = sc.st.get(sc.node).cls.__name__
    par = emit.parents(tree)
    fails = []
    for n in ast.walk(tree):
        if isinstance(n, ast.Name) and n.id == "escape":
            # tolerated: the result of a block filter, fed with Markup(concat(buffer)), passed through escape (identity on Markup)
            p = par.get(n)
            while isinstance(p, ast.IfExp):
                p = par.get(p)
            ok = False
            if vis in BLOCK_RESULT_VISITORS and isinstance(p, ast.Call) and len(p.args) == 1:
                h = hole_of(p.args[0], ph)
                ok = h is not None and h.path == "node.filter"
            if not ok:
                fails.append(f"[second-escape:{vis}] generated code of visit_{vis} applies escape: {ast.unparse(par.get(n))[:80]!r} (only the Output wrapper may escape)")
        vals = []
        if isinstance(n, ast.Yield) and n.value is not None and not K._in_data_generator(n, par):
            vals = [n.value]
        if isinstance(n, ast.Call) and isinstance(n.func, ast.Attribute) and n.func.attr in ("append", "extend") and isinstance(n.func.value, ast.Name) \
                and K.BUFFER_NAME.fullmatch(n.func.value.id) and n.func.value.id != "None":
            vals = list(n.args)
        for v in vals:
            mentions_event = any(isinstance(x, ast.Name) and x.id == "event" for x in ast.walk(v))
            if mentions_event and not (isinstance(v, ast.Name) and v.id == "event"):
                fails.append(f"[wrapped-event:{vis}] a forwarded event is wrapped: {ast.unparse(v)[:80]!r}")
            if vis in FORWARDERS and not mentions_event:
                fails.append(f"[forward-shape:{vis}] visit_{vis} hands {ast.unparse(v)[:80]!r} to the output instead of the nested generator's events")
    if vis in FORWARDERS:
        loops = [n for n in ast.walk(tree) if isinstance(n, (ast.For, ast.AsyncFor)) and isinstance(n.target, ast.Name) and n.target.id == "event"]
        fwd = [n for n in ast.walk(tree) if isinstance(n, ast.YieldFrom)]
        for lp in loops:
            body = [s for s in lp.body]
            ok = len(body) == 1 and isinstance(body[0], ast.Expr) and (
                (isinstance(body[0].value, ast.Yield) and isinstance(body[0].value.value, ast.Name) and body[0].value.value.id == "event")
                or (isinstance(body[0].value, ast.Call) and isinstance(body[0].value.func, ast.Attribute) and body[0].value.func.attr == "append"
                    and len(body[0].value.args) == 1 and isinstance(body[0].value.args[0], ast.Name) and body[0].value.args[0].id == "event"))
            if not ok:
                fails.append(f"[forward-shape:{vis}] forwarding loop body is not `yield event` / `buffer.append(event)`: {ast.unparse(lp)[:120]!r}")
    return fails


def forward_tasks():
    tasks = []
    for nm, mode, wrap in visitors():
        if nm == "Output" or wrap is not None:
            continue
        if nm == "For":
            for buf in (None, "t_buf"):
                tasks.append(K.CatEmitTask("C16", "C16.once.forward.visit_For", "jinja2.compiler:CodeGenerator.visit_For", N.For, once_forward_pred,
                                           mode=mode, buffers=(buf,), replay_fn=native_once, node_fields={"recursive": True}))
            continue
        if nm == "Const":
            from pyvc.values import sym as _sym
            tasks.append(K.CatEmitTask("C16", "C16.once.forward.visit_Const", "jinja2.compiler:CodeGenerator.visit_Const", N.Const, once_forward_pred,
                                       mode=mode, buffers=(None, "t_buf"), replay_fn=native_once, node_fields=lambda st: {"value": _sym("node.value", "str")}))
            continue
        tasks.append(K.CatEmitTask("C16", f"C16.once.forward.visit_{nm}", f"jinja2.compiler:CodeGenerator.visit_{nm}", getattr(N, nm), once_forward_pred,
                                   mode=mode, buffers=(None, "t_buf"), replay_fn=native_once, min_paths=(4 if nm in FORWARDERS else 1)))
    return tasks


EXTENDS_TAIL_ALLOWED = {
    "yield from parent_template.root_render_func(context)",
    "yield event",
}


def extends_tail(task, tier, seed):
    """string literals written by the real visit_Template that yield / append / escape"""
    fn = K._function_node("compiler", "CodeGenerator.visit_Template")
    rs = []
    lits = []
    for n in ast.walk(fn):
        if isinstance(n, ast.Call) and isinstance(n.func, ast.Attribute) and n.func.attr in ("write", "writeline") and n.args:
            a = n.args[0]
            text = a.value if isinstance(a, ast.Constant) and isinstance(a.value, str) else "".join(
                v.value if isinstance(v, ast.Constant) else "{}" for v in a.values) if isinstance(a, ast.JoinedStr) else None
            if text is not None:
                lits.append((n.lineno, text))
    interesting = [(ln, t) for ln, t in lits if re.search(r"\byield\b|\.append\(|\bescape\b|\bMarkup\b|\bstr\(", t)]
    ok_all = True
    for ln, t in interesting:
        ok = t in EXTENDS_TAIL_ALLOWED
        ok_all = ok_all and ok
        rs.append(Res(f"C16.once.forward.extends_tail.line{ln}", "discharged" if ok else "refuted", "ast", 0,
                      f"visit_Template writes {t!r}: " + ("forwards the parent's events unwrapped" if ok else "not a plain forwarding statement"), "table",
                      None if ok else {"literal": t, "line": ln}))
    present = {t for _, t in interesting}
    both = EXTENDS_TAIL_ALLOWED <= present
    rs.append(Res("C16.once.forward.extends_tail.present", "discharged" if both else "refuted", "ast", 0,
                  f"sync `yield from parent_template.root_render_func(context)` and async `yield event` forms are written: {sorted(present)}", "table",
                  None if both else {"present": sorted(present)}))
    return rs


EMITS_ESCAPE = {"CodeGenerator._output_child_pre": "the Output wrapper (C16.once.output)",
                "CodeGenerator.visit_CallBlock": "escape of the value of a call block's callee (identity on the Markup a macro returns)",
                "CodeGenerator.visit_FilterBlock": "escape of a block filter's result (identity on Markup; C16.once.forward.visit_FilterBlock)",
                "CodeGenerator.visit_AssignBlock": "escape of a set-block filter's result (identity on Markup; C16.once.forward.visit_AssignBlock)"}


def escape_inventory(task, tier, seed):
    """`escape` is written into generated code by the Output wrapper only (covers the visitors the sweep cannot summarise)"""
    rs = []
    lits = K.compiler_literals("escape")
    for qual, ln, text in lits:
        ok = qual in EMITS_ESCAPE
        rs.append(Res(f"C16.once.forward.escape_inventory.line{ln}", "discharged" if ok else "refuted", "ast", 0,
                      f"compiler.py:{ln} {qual} writes {text[:60]!r}: " + (EMITS_ESCAPE.get(qual) or "a second place that escapes"), "table",
                      None if ok else {"method": qual, "line": ln, "literal": text[:120]}))
    n = len([1 for q, _, _ in lits if q == "CodeGenerator._output_child_pre"])
    rs.append(Res("C16.once.forward.escape_inventory.wrapper", "discharged" if n == 2 else "refuted", "ast", 0,
                  f"_output_child_pre writes {n} escape selectors (static and run-time decided)", "table", None if n == 2 else {"count": n}))
    return rs


# =====================================================================================================
# C16.once.wrappers.emitted : the wrappers written by the compiler (return_buffer_contents and friends)
# =====================================================================================================
# Every emitted function / expression whose value re-enters an Output hands over concat(<frame buffer>) as
#   Markup(concat(buf))                                             frame not volatile, autoescape on
#   concat(buf)                                                     frame not volatile, autoescape off
#   a form decided by context.eval_ctx.autoescape at run time       volatile frame (also accepted in a non-volatile frame: assumption M)
# The only exception is a macro body (`def macro`): it returns the plain concat because Macro._invoke wraps the result
# (C16.once.wrappers.Macro._invoke).  A recursive loop function that returned the plain text under autoescape would be
# escaped once more by the Output that receives loop(...) at every recursion level.

def _norm_buf(text):
    return re.sub(r"concat\((?:t_buf|t_\d+|None)\)", "concat(B)", text)


DYNAMIC_FORMS = {"Markup(concat(B)) if context.eval_ctx.autoescape else concat(B)", "(Markup if context.eval_ctx.autoescape else identity)(concat(B))"}


def emitted_wrapper_pred(sc, tree, ph, txt):
    if sc.outcome == "raise" or tree is None:
        return []
    vis = sc.st.get(sc.node).cls.__name__
    par = emit.parents(tree)
    volatile, not_volatile = K.holds(sc, VOLATILE), K.holds(sc, z3.Not(VOLATILE))
    on, off = K.holds(sc, AUTOESCAPE), K.holds(sc, z3.Not(AUTOESCAPE))
    fails = []
    seen_branches = {}
    for n in ast.walk(tree):
        if not K._is_concat_of_buffer(n):
            continue
        top = n
        while top in par:
            p = par[top]
            if isinstance(p, ast.Call) and top in p.args and ((isinstance(p.func, ast.Name) and p.func.id == "Markup") or isinstance(p.func, ast.IfExp)):
                top = p
            elif isinstance(p, ast.IfExp) and (top is p.body or top is p.orelse) and ast.unparse(p.test) == K.RUNTIME_FLAG:
                top = p
            else:
                break
        text = _norm_buf(ast.unparse(top))
        # enclosing statement / function
        stmt = top
        while stmt in par and not isinstance(stmt, ast.stmt):
            stmt = par[stmt]
        fn = stmt
        while fn in par and not isinstance(fn, (ast.FunctionDef, ast.AsyncFunctionDef)):
            fn = par[fn]
        fname = fn.name if isinstance(fn, (ast.FunctionDef, ast.AsyncFunctionDef)) else None
        guard = None
        g = par.get(stmt)
        if isinstance(stmt, ast.Return) and isinstance(g, ast.If) and ast.unparse(g.test) == K.RUNTIME_FLAG:
            guard = "true" if any(stmt is b for b in g.body) else "false"
        if text in DYNAMIC_FORMS:
            form = "dynamic"
        elif text == "Markup(concat(B))":
            form = "dynamic-true" if guard == "true" else "markup"
            if guard == "false":
                form = "bad:Markup in the else branch of the run-time test"
        elif text == "concat(B)":
            form = "dynamic-false" if guard == "false" else "plain"
            if guard == "true":
                form = "bad:plain text in the true branch of the run-time test"
        else:
            form = "bad:" + text[:70]
        where = f"`{fname}` function" if fname else f"visit_{vis} expression"
        if form.startswith("bad:"):
            fails.append(f"[wrapper-shape:{vis}] {where}: buffer contents handed over as {form[4:]!r}")
            continue
        if guard:
            seen_branches.setdefault(id(g), set()).add(guard)
        if fname == "macro":
            if form != "plain":
                fails.append(f"[macro-body:{vis}] the macro body returns {text!r}: the Markup wrapping belongs to Macro._invoke (it would be applied twice / by the wrong flag)")
            continue
        if form.startswith("dynamic"):
            continue
        if not (volatile or not_volatile) or volatile:
            fails.append(f"[wrapper-static-in-volatile:{vis}] {where}: {text!r} is chosen at compile time although the frame "
                         f"{'is volatile' if volatile else 'may be volatile'}")
        elif not off and form != "markup":
            fails.append(f"[wrapper-plain-under-autoescape:{vis}] {where} hands over the plain text {text!r} although autoescape is on for its frame: "
                         f"the Output that receives the value escapes it a second time")
        elif not on and form != "plain":
            fails.append(f"[wrapper-markup-without-autoescape:{vis}] {where} hands over {text!r} although autoescape is off for its frame")
    for gid, br in seen_branches.items():
        if br != {"true", "false"}:
            fails.append(f"[wrapper-shape:{vis}] the run-time test has only the {sorted(br)} branch")
    return fails


def force_unescaped_sites(task, tier, seed):
    """call sites of CodeGenerator.return_buffer_contents: force_unescaped is True for the macro body only"""
    import os
    path = os.path.join(os.path.dirname(jinja2.__file__), "compiler.py")
    tree = ast.parse(open(path, encoding="utf-8").read())
    rs = []
    n_sites = 0

    def walk(node, qual):
        nonlocal n_sites
        for ch in ast.iter_child_nodes(node):
            q = qual + [ch.name] if isinstance(ch, (ast.FunctionDef, ast.AsyncFunctionDef, ast.ClassDef)) else qual
            if isinstance(ch, ast.Call) and isinstance(ch.func, ast.Attribute) and ch.func.attr == "return_buffer_contents":
                n_sites += 1
                fu = [k.value for k in ch.keywords if k.arg == "force_unescaped"] + list(ch.args[1:2])
                where = ".".join(qual)
                if where.endswith("macro_body"):
                    ok = len(fu) == 1 and isinstance(fu[0], ast.Constant) and fu[0].value is True
                    want = "True (Macro._invoke wraps the result)"
                else:
                    ok = not fu or (isinstance(fu[0], ast.Constant) and fu[0].value is False)
                    want = "absent / False (the function's value re-enters an Output)"
                rs.append(Res(f"C16.once.wrappers.emitted.force_unescaped_sites.line{ch.lineno}", "discharged" if ok else "refuted", "ast", 0,
                              f"compiler.py:{ch.lineno} {where}: force_unescaped = {ast.unparse(fu[0]) if fu else 'absent'}; required {want}", "table",
                              None if ok else {"method": where, "line": ch.lineno, "force_unescaped": ast.unparse(fu[0]) if fu else None, "schema": "def loop def macro"}))
            walk(ch, q)

    walk(tree, [])
    rs.append(Res("C16.once.wrappers.emitted.force_unescaped_sites.count", "discharged" if n_sites >= 2 else "refuted", "ast", 0, f"{n_sites} call sites of return_buffer_contents", "table",
                  None if n_sites >= 2 else {"count": n_sites}))
    return rs


def emitted_wrapper_tasks():
    ts = []
    for buf in (None, "t_buf"):
        t = K.CatEmitTask("C16", "C16.once.wrappers.emitted.visit_For", "jinja2.compiler:CodeGenerator.visit_For", N.For, emitted_wrapper_pred,
                          mode="stmts", buffers=(buf,), replay_fn=native_once, node_fields={"recursive": True}, min_paths=6)
        ts.append(t)
    for nm, mode in (("Filter", "expr"), ("AssignBlock", "stmts"), ("FilterBlock", "stmts")):
        ts.append(K.CatEmitTask("C16", f"C16.once.wrappers.emitted.visit_{nm}", f"jinja2.compiler:CodeGenerator.visit_{nm}", getattr(N, nm), emitted_wrapper_pred,
                                mode=mode, buffers=(None, "t_buf"), replay_fn=native_once, min_paths=2))

    def one_param(st):
        from pyvc.values import HList
        return {"args": st.alloc(HList(items=[emit.make_node(st, N.Name, "node.args[0]")]), initial=True), "defaults": st.alloc(HList(items=[]), initial=True)}

    for cls in ("Macro", "CallBlock"):
        t = K.CatEmitTask("C16", f"C16.once.wrappers.emitted.macro_body.{cls}", "jinja2.compiler:CodeGenerator.macro_body", getattr(N, cls), emitted_wrapper_pred,
                          mode="stmts", buffers=(None,), replay_fn=native_once, node_fields=one_param, configure=K.emit_configure, min_paths=4)
        t.bound_text = "parameter list of the macro fixed to one symbolic parameter without default"
        ts.append(t)
    ts.append(FnTask("C16", "C16.once.wrappers.emitted.force_unescaped_sites", force_unescaped_sites, "table", native_once))
    # the run-time flag that the wrappers consult is restored on every way out of an {% autoescape %} block (hunt C16_1, root of C15_3)
    ts.append(K.CatEmitTask("C16", "C16.once.wrappers.emitted.eval_ctx_restore", "jinja2.compiler:CodeGenerator.visit_ScopedEvalContextModifier", N.ScopedEvalContextModifier,
                            K.eval_ctx_restore_pred, mode="stmts", buffers=(None, "t_buf"), replay_fn=K.native_eval_ctx_restore, min_paths=4))
    return ts


# =====================================================================================================
# C16.once.dependency (bounded) and native oracle
# =====================================================================================================

def dependency(task, tier, seed):
    import html
    from markupsafe import Markup, escape
    t0 = time.time()
    alpha = ["<", ">", "&", "'", '"', "a", " ", "&amp;", "é"]
    n = 0
    bad = []
    for ln in range(0, 4):
        for tup in itertools.product(alpha, repeat=ln):
            s = "".join(tup)
            n += 1
            m = Markup(s)
            if escape(m) is not m and not (type(escape(m)) is Markup and escape(m) == m):
                bad.append(f"escape(Markup({s!r})) != Markup({s!r})")
            if str(s) is not s:
                bad.append(f"str({s!r}) is not the same string")
            if html.unescape(str(escape(s))) != s or escape(s).unescape() != s:
                bad.append(f"unescape(escape({s!r})) != {s!r}")
            if type(escape(s)) is not Markup:
                bad.append(f"escape({s!r}) is not Markup")
    task.bound_text = f"all strings of length <= 3 over {alpha} ({n} strings) on the installed MarkupSafe {markupsafe.__version__}"
    if bad:
        return [Res("C16.once.dependency", "refuted", "native", time.time() - t0, "; ".join(bad[:3]), "bounded", {"bounded": True})]
    return [Res("C16.once.dependency", "bounded-ok", "native", time.time() - t0, f"{n} strings: escape(Markup)=Markup, str(str)=str, unescape(escape(s))=s", "bounded")]


DATA = "<v&amp;'\">"  # contains a character reference: a skipped escape AND a doubled escape both change unescape(on)


def native_once(w=None):
    """Property oracle on real templates: html.unescape(render(autoescape=True)) == render(autoescape=False) for
    escaping-neutral templates (macros, call blocks, super, self.block, set blocks, include, import, extends, filter
    blocks with neutral filters), sync and async, with a custom finalize and without."""
    import asyncio
    import html
    from jinja2 import Environment, DictLoader
    problems = []
    lib = {"lib": "{% macro lm(x) %}[{{ x }}]{% endmacro %}", "base": "<{% block b %}B{{ v }}{% endblock %}>{{ self.b() }}{% block c %}{% endblock %}",
           "inc": "I{{ v }}{% set q %}{{ v }}{% endset %}{{ q }}", "mid": "{% extends 'base' %}{% block b %}m{{ super() }}{{ v }}{% endblock %}"}
    srcs = ["{{ v }}{{ 'a' }}{{ v ~ v }}x{{ [v]|join }}",
            "{{ '<&amp;' }}|{{ '<' ~ '&amp;' }}|{{ ('<&amp;', v)|join }}",
            "{% macro m(x) %}({{ x }}){% endmacro %}{{ m(v) }}{{ m(m(v)) }}",
            "{% macro m() %}{{ caller() }}{% endmacro %}{% call m() %}{{ v }}{% endcall %}",
            "{% macro m() %}{{ caller(v) }}{% endmacro %}{% call(y) m() %}{{ y }}{{ v }}{% endcall %}",
            "{% macro n() %}<{{ caller() }}>{% endmacro %}{% call n() %}{% call n() %}{{ v }}{% endcall %}{% endcall %}",
            "{% extends 'base' %}{% block b %}{{ super() }}{{ v }}{% endblock %}{% block c %}{{ self.b() }}{% endblock %}",
            "{% extends 'mid' %}{% block b %}{{ super() }}+{{ v }}{% endblock %}",
            "{% block c %}{{ v }}{% endblock %}{{ self.c() }}",
            "{% set x %}{{ v }}{% endset %}{{ x }}{% set y %}{{ x }}{{ x }}{% endset %}{{ y }}",
            "{% import 'lib' as l %}{{ l.lm(v) }}{% from 'lib' import lm %}{{ lm(lm(v)) }}",
            "{% include 'inc' %}{% include ['nope', 'inc'] %}",
            "{% for x in [[v, [v]]] recursive %}{% if x is string %}{{ x }}{% else %}{{ loop(x) }}{% endif %}{% endfor %}",
            "{% macro tree(t) %}{% for x in t recursive %}{% if x is string %}{{ x }}{% else %}[{{ loop(x) }}]{% endif %}{% endfor %}{% endmacro %}{{ tree([v, [v, [v]]]) }}",
            "{% set s %}{% for x in [v, [v, [v]]] recursive %}{% if x is string %}{{ x }}{% else %}[{{ loop(x) }}]{% endif %}{% endfor %}{% endset %}{{ s }}",
            "{% macro w() %}<{{ caller() }}>{% endmacro %}{% call w() %}{% for x in [v, [v, [v]]] recursive %}{% if x is string %}{{ x }}{% else %}[{{ loop(x) }}]{% endif %}{% endfor %}{% endcall %}",
            "{% filter trim %}{% for x in [v, [v, [v]]] recursive %}{% if x is string %}{{ x }}{% else %}[{{ loop(x) }}]{% endif %}{% endfor %}{% endfilter %}",
            "{% filter trim %}{{ v }}{% endfilter %}{% set z | trim %} {{ v }} {% endset %}{{ z }}",
            "{% with a = v %}{{ a }}{% endwith %}{% if v %}{{ v }}{% endif %}{% for c in [v, v] %}{{ c }}{{ loop.index }}{% endfor %}"]
    for is_async in (False, True):
        for fin in (None, lambda x: x):
            for src in srcs:
                outs = {}
                for ae in (True, False):
                    env = Environment(autoescape=ae, loader=DictLoader(lib), enable_async=is_async, finalize=fin)
                    try:
                        t = env.from_string(src)
                        outs[ae] = asyncio.run(t.render_async(v=DATA)) if is_async else t.render(v=DATA)
                    except Exception as ex:
                        problems.append(f"{src} (autoescape={ae}, async={is_async}): {type(ex).__name__}: {ex}")
                if len(outs) == 2 and html.unescape(outs[True]) != outs[False]:
                    problems.append(f"{src!r} (async={is_async}): unescape(on) = {html.unescape(outs[True])!r} but off = {outs[False]!r} (on rendered {outs[True]!r})")
                # the same decided at run time: {% autoescape x %} with x true / false (literals with metacharacters left out:
                # compile-time constants in a volatile frame are C15.output.wrap's known finding, DESIGN F2)
                if "extends" in src or "'<" in src or "import" in src or "include" in src or "{% block" in src:  # blocks: C15.buffer.inv.visit_Block finding
                    continue
                outs = {}
                for x in (True, False):
                    env = Environment(autoescape=False, loader=DictLoader(lib), enable_async=is_async, finalize=fin)
                    try:
                        t = env.from_string("{% autoescape x %}" + src + "{% endautoescape %}")
                        outs[x] = asyncio.run(t.render_async(v=DATA, x=x)) if is_async else t.render(v=DATA, x=x)
                    except Exception as ex:
                        problems.append(f"volatile {src} (x={x}, async={is_async}): {type(ex).__name__}: {ex}")
                if len(outs) == 2 and html.unescape(outs[True]) != outs[False]:
                    problems.append(f"{{% autoescape x %}}{src!r} (async={is_async}): unescape(x=True) = {html.unescape(outs[True])!r} but x=False = {outs[False]!r}")
    return (bool(problems), "; ".join(problems[:3]) or "unescape(render on) == render off on the escaping-neutral template family")


# =====================================================================================================

WRAPPERS = ["Macro._invoke", "Macro._async_invoke", "BlockReference.__call__", "BlockReference._async_call", "TemplateModule.__html__", "TemplateModule.__str__"]


class OnceWrapper(K.WrapperVC):
    def replay(self, w):
        if isinstance(w, dict) and str(w.get("wrapper", "")).startswith("TemplateModule"):
            return K.native_mixed_flags(w)
        return native_once(w)


def _once_output_tasks():
    ts = K.output_tasks("C16", "C16.once.output", once_output_pred, native_once, nshards=6)
    for t in ts:
        t.bound_text = "Output child list: 1..3 symbolic children of classes {generic Expr, TemplateData, Const} (17 class sequences x finalize None/set x 2 buffers)"
    return ts


TASKS = (
    _once_output_tasks()
    + forward_tasks()
    + [FnTask("C16", "C16.once.forward.extends_tail", extends_tail, "table", native_once),
       FnTask("C16", "C16.once.forward.escape_inventory", escape_inventory, "table", native_once)]
    + [OnceWrapper("C16", f"C16.once.wrappers.{w}", w, ["markup_iff_autoescape", "text_is_generated_output_once"]) for w in WRAPPERS]
    + emitted_wrapper_tasks()
    + [K.FlowTask("C16", f"C16.once.filter.{f}", f, "markup_preserved") for f in ("join", "replace", "format")]
    + [FnTask("C16", "C16.once.dependency", dependency, "bounded", native_once)]
)

META = {
    "level": "proof-of-mechanism",
    "explanation": "Emission contract on the real visit_Output (one escape selector per run-time child, chosen by the frame's flags; constants escaped "
                   "exactly once when the static flag is on), a sweep over every other visitor (no second escape; forwarding loops unwrapped), a table over "
                   "the extends tail of visit_Template, and VCs on the run-time wrappers (Markup exactly when the call's autoescape flag is on, text = one "
                   "call of the generated function). With the dependency spec escape(Markup)=Markup the value that re-enters an Output is not escaped again. "
                   "Lemma (argued): for escaping-neutral templates unescape(on) = off.",
    "assumptions": [
        "M: in a non-volatile frame the run-time flag context.eval_ctx.autoescape equals the compile-time flag (templates of one inheritance chain share one autoescape decision)",
        "the autoescape flag handed to Macro._invoke is the call site's (C06.call.autoescape)",
        "environment.finalize maps Markup to Markup and str to str (application code)",
        "A7 await is a transparent call",
        "escaping-neutral filters return Markup for Markup input (dependency spec of the Markup methods)",
    ],
    "trusted_base": ["pyvc emission engine", "MarkupSafe: escape(Markup)=Markup, str(str)=str (bounded check C16.once.dependency)", "z3 5.1"],
}
