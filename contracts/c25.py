"""C25  The template cache always serves the current template source.

Per-operation contracts (real source of jinja2/environment.py and jinja2/loaders.py):
  Environment._load_template     cached template returned iff one is stored under (weakref(loader), name) and
                                 (auto_reload off or is_up_to_date); otherwise loader.load is called once and its
                                 result stored under that key; no cache => every call loads
  create_cache / copy_cache      0 -> None, negative -> {}, n -> LRUCache(n); copy: empty cache of the same kind
  Template.is_up_to_date / Template.from_code / BaseLoader.load
                                 the check returned by get_source for the current source is the one consulted
  DictLoader.get_source + its closure, FunctionLoader.get_source,
  FileSystemLoader.get_source.uptodate, PackageLoader.get_source.up_to_date
  Environment.get_template / select_template / get_or_select_template dispatch
The cache object is abstract (a map from keys to templates); its `get` / `__setitem__` behave as proved for
LRUCache in C26 (capacity, eviction of the least recently used entry, recency refresh by get) or as a dict.
Lemma (induction on the history; invariant: every cached template was built from some source version s and, when
the loader gave a check, the check is true iff the current source is s): an auto-reload environment returns a
template built from the current source or raises TemplateNotFound; a non-reloading one returns the cached one.
The lemma itself is exercised by the bounded stand-in C25.bounded.histories on the real classes.
"""
from __future__ import annotations

import ast
import itertools
import os
import time
import weakref

import z3

from pyvc.contract import VC, Res, FnTask, Outcome
from pyvc.values import (State, Sym, Ref, HObj, HList, HDict, SSeq, Obj, Exc, Closure, BoundMethod, Event,
                         Unsupported, fresh_name, fresh, sym)
from pyvc.smt import to_term, model_value, host_const, str2obj
from pyvc.stmts import LoopSpec
from pyvc.interp import Raised
from pyvc.ops import isinst_fn
from pyvc import abstract as A

import jinja2
import jinja2.environment as E
import jinja2.loaders as L
import jinja2.utils as U
from jinja2.exceptions import TemplateNotFound, TemplatesNotFound, UndefinedError
from jinja2.runtime import Undefined

from contracts.c28 import (LVC, SV, S_, I_, B_, OArr, OtherError, FakeLoader, OUT_RETURN, OUT_TNF, OUT_TNFS, OUT_OTHER, OUT_UNDEF,
                           OUT_CLASSES, callee_model, abstract_loader_method, is_tnf_family, name_atom, install_unexpected, unexpected,
                           install_opaque, tnf_named, run_native, z3str, loop_assigned, FSGetSource, PkgGetSource, FSModel,
                           fs_isfile, fs_mtime, fake_fs, split_oracle)

NONE = host_const(None)
OSet = z3.ArraySort(Obj, B_)
OMap = z3.ArraySort(Obj, Obj)

wr = z3.Function("weakref.ref", Obj, Obj)              # weakref.ref(x): equal iff the referents are identical (alive)
pair = z3.Function("tuple2", Obj, Obj, Obj)            # the 2-tuple (a, b) as a cache key
fst = z3.Function("tuple2.0", Obj, Obj)
snd = z3.Function("tuple2.1", Obj, Obj)
utd = z3.Function("Template.is_up_to_date", Obj, B_)   # current value of the template's check
mk_globals = z3.Function("Environment.make_globals", Obj, Obj)
tpl_globals = z3.Function("Template.globals", Obj, Obj)


def key_axioms():
    """none needed: only equalities between keys are ever proved (congruence); leaving injectivity of tuple2 /
    weakref.ref out can only produce more counter-models, never a proof"""
    return []


def str_not_none(st):
    s = z3.String("s_nn")
    st.assume(z3.ForAll([s], str2obj(s) != NONE))


# ----------------------------------------------------------------------------------------------
# the abstract cache (callee spec = proved contracts of C26 for LRUCache; dict semantics for a plain dict)
# ----------------------------------------------------------------------------------------------

class CacheModel:
    """ghost state st.ghost['cache'] = (dom, val): which keys are stored, and the stored templates"""

    def __init__(self, kind):
        self.kind = kind  # 'lru' | 'dict'
        self.cls = U.LRUCache if kind == "lru" else dict

    def alloc(self, st):
        self.dom0 = z3.Const("cache_dom", OSet)
        self.val0 = z3.Const("cache_val", OMap)
        st.ghost = dict(st.ghost)
        st.ghost["cache"] = (self.dom0, self.val0)
        self.ref = st.alloc(HObj(self.cls, fields={}), initial=True)
        st.get(self.ref).plain_setattr = True
        return self.ref

    @staticmethod
    def key_term(k):
        if isinstance(k, tuple) and len(k) == 2:
            return pair(to_term(k[0], "obj"), to_term(k[1], "obj"))
        try:
            return to_term(k, "obj")
        except Unsupported:
            return z3.Const(fresh_name("badkey"), Obj)

    def install(self, I):
        name = self.cls.__name__
        m = self

        def get(I_, st, args, kwargs, node):
            recv, key = args[0], args[1]
            default = args[2] if len(args) > 2 else kwargs.get("default", None)
            dom, val = st.ghost["cache"]
            kt = m.key_term(key)
            out = []
            for s, b in I_.fork_bool(st, z3.Select(dom, kt)):
                r = Sym(z3.Select(val, kt), "obj") if b else default
                A.call_event(s, "cache.get", [recv, key], kwargs, r, node)
                out.append((s, r))
            return out

        def setitem(I_, st, args, kwargs, node):
            recv, key, v = args
            dom, val = st.ghost["cache"]
            kt = m.key_term(key)
            nd, nv = z3.Store(dom, kt, True), z3.Store(val, kt, to_term(v, "obj"))
            if m.kind == "lru":
                # C26.__setitem__: the key is stored; at most the least recently used OTHER key is evicted
                ek = z3.Const(fresh_name("evicted_key"), Obj)
                ev = z3.Const(fresh_name("evicts"), B_)
                nd = z3.If(z3.And(ev, ek != kt), z3.Store(nd, ek, False), nd)
            st.ghost = dict(st.ghost)
            st.ghost["cache"] = (nd, nv)
            A.call_event(st, "cache.__setitem__", [recv, key, v], kwargs, None, node)
            return [(st, None)]

        I.specs[f"{name}.get"] = get
        I.specs[f"{name}.__setitem__"] = setitem


# ----------------------------------------------------------------------------------------------
# Environment._load_template
# ----------------------------------------------------------------------------------------------

class LoadTemplate(LVC):
    prop = "C25"
    target = "jinja2.environment:Environment._load_template"
    timeout_quick = 20000

    def __init__(self, kind):
        self.ckind = kind  # 'none' | 'lru' | 'dict'
        super().__init__("C25", f"C25.load[cache={kind}]")

    def configure(self, I):
        install_unexpected(I)
        self.oc, self.res = callee_model("load")
        load = abstract_loader_method("load", self.oc, self.res, outcomes=(OUT_RETURN, OUT_TNF, OUT_OTHER), name_index=1)

        def is_up_to_date(I_, st, o, node):
            r = Sym(utd(o.t), "bool")
            st.trace.append(Event("call", "Template.is_up_to_date", [o], None, r, lineno=getattr(node, "lineno", None)))
            return [(st, r)]

        def globals_attr(I_, st, o, node):
            return [(st, Sym(tpl_globals(o.t), "obj", tags=("template_globals",)))]

        def update(I_, st, recv, args, kwargs, node):
            A.call_event(st, "globals.update", [recv] + list(args), kwargs, None, node)
            return [(st, None)]

        install_opaque(I, methods={"load": load, "update": update}, attrs={"is_up_to_date": is_up_to_date, "globals": globals_attr})

        def weakref_ref(I_, st, args, kwargs, node):
            r = Sym(wr(to_term(args[0], "obj")), "obj")
            A.call_event(st, "weakref.ref", args, kwargs, r, node)
            return [(st, r)]

        I.specs[("fn", id(weakref.ref))] = weakref_ref
        I.specs["Environment.make_globals"] = A.abstract_fn("make_globals", result=lambda st, args, kwargs: Sym(mk_globals(to_term(args[1], "obj")), "obj"))
        if self.ckind != "none":
            self.cache = CacheModel(self.ckind)
            self.cache.install(I)

    def setup(self, I, st):
        for ax in key_axioms():
            st.assume(ax)
        self.loader = sym("loader", "obj")
        self.tname = sym("name", "obj")
        self.globals = sym("globals", "obj")
        self.auto_reload = sym("auto_reload", "bool")
        cache_ref = self.cache.alloc(st) if self.ckind != "none" else None
        self.env = A.obj(st, jinja2.Environment, "self", fields={"loader": self.loader, "cache": cache_ref, "auto_reload": self.auto_reload})
        self.key = pair(wr(self.loader.t), self.tname.t)
        if self.ckind != "none":
            # what is stored is a template, never None (instantiated at the key; other keys are never looked up)
            st.assume(z3.Implies(z3.Select(self.cache.dom0, self.key), z3.Select(self.cache.val0, self.key) != NONE))
        return [self.env, self.tname, self.globals], {}

    # ---- vocabulary -------------------------------------------------------------------------
    def hit(self):
        c = self.cache
        return z3.And(z3.Select(c.dom0, self.key), z3.Or(z3.Not(self.auto_reload.t), utd(z3.Select(c.val0, self.key))))

    def cache_now(self, out):
        return out.st.ghost["cache"]

    def cache_unchanged(self, out):
        d, v = self.cache_now(out)
        return d is self.cache.dom0 and v is self.cache.val0

    def load_call_ok(self, ev):
        """loader.load(self, name, self.make_globals(globals))"""
        mg = A.calls_in = None
        if len(ev.args) != 4 or ev.kwargs:
            return False
        if ev.args[0] is not self.loader or ev.args[1] != self.env or ev.args[2] is not self.tname:
            return False
        return to_term(ev.args[3], "obj") == mk_globals(self.globals.t)

    # ---- postconditions ---------------------------------------------------------------------
    def p_no_loader(self, pre, out):
        """TypeError iff the environment has no loader; then nothing else happens"""
        is_none = self.loader.t == NONE
        if out.raised and out.value.cls is TypeError and not getattr(out.value, "from_call", None):
            if [e for e in out.st.trace if e.kind == "call"]:
                return False
            return is_none
        return z3.Not(is_none)

    def p_key(self, pre, out):
        """the cache is only consulted / written under the key (weakref(loader), name)"""
        if unexpected(out):
            return False
        conj = []
        for e in A.calls(out, "cache.get") + A.calls(out, "cache.__setitem__"):
            k = e.args[1]
            if not (isinstance(k, tuple) and len(k) == 2) or e.args[0] != self.cache.ref:
                return False
            conj.append(CacheModel.key_term(k) == self.key)
        for e in A.calls(out, "weakref.ref"):
            if e.args[0] is not self.loader:
                return False
        return z3.And(*conj) if conj else True

    def p_hit_or_load(self, pre, out):
        """cache hit <=> stored and (not auto_reload or up to date): returned without loading, cache untouched;
        otherwise loader.load is called exactly once with (self, name, make_globals(globals))"""
        if out.raised and out.value.cls is TypeError and not getattr(out.value, "from_call", None):
            return None
        loads = A.calls(out, "load")
        gets, sets = A.calls(out, "cache.get"), A.calls(out, "cache.__setitem__")
        if self.ckind == "none":
            if len(loads) != 1:
                return False
            return self.load_call_ok(loads[0])
        if len(gets) != 1:
            return False
        if not loads:
            # served from the cache
            if not out.returned or sets or not self.cache_unchanged(out):
                return False
            return z3.And(self.hit(), to_term(out.value, "obj") == z3.Select(self.cache.val0, self.key))
        if len(loads) != 1:
            return False
        ok = self.load_call_ok(loads[0])
        if ok is False:
            return False
        return z3.And(z3.Not(self.hit()), ok)

    def p_store(self, pre, out):
        """a loaded template is returned and stored under the key (a dict keeps every other entry; an LRU cache
        may evict other entries but never adds or alters one); a failing load leaves the cache as it was"""
        loads = A.calls(out, "load")
        if not loads:
            return None
        ev = loads[0]
        if isinstance(ev.result, Exc):
            if not (out.raised and out.value is ev.result):
                return False
            return True if self.ckind == "none" else (self.cache_unchanged(out) and not A.calls(out, "cache.__setitem__"))
        if not (out.returned and out.value is ev.result):
            return False
        if self.ckind == "none":
            return True
        sets = A.calls(out, "cache.__setitem__")
        if len(sets) != 1 or sets[0].args[2] is not ev.result:
            return False
        d, v = self.cache_now(out)
        k = z3.Const(fresh_name("k"), Obj)
        res = to_term(ev.result, "obj")
        others = z3.ForAll([k], z3.Implies(k != self.key, z3.And(
            (z3.Select(d, k) == z3.Select(self.cache.dom0, k)) if self.ckind == "dict" else z3.Implies(z3.Select(d, k), z3.Select(self.cache.dom0, k)),
            z3.Select(v, k) == z3.Select(self.cache.val0, k))))
        return z3.And(z3.Select(d, self.key), z3.Select(v, self.key) == res, others)

    def p_reload_check(self, pre, out):
        """is_up_to_date is consulted only for the stored template and only when auto_reload is on;
        new globals are merged into a cached template, never into the environment"""
        if self.ckind == "none":
            return not A.calls(out, "Template.is_up_to_date") and not A.calls(out, "globals.update")
        conj = []
        tpl = z3.Select(self.cache.val0, self.key)
        for e in A.calls(out, "Template.is_up_to_date"):
            conj.append(z3.And(self.auto_reload.t, to_term(e.args[0], "obj") == tpl))
        ups = A.calls(out, "globals.update")
        if len(ups) > 1 or (ups and A.calls(out, "load")):
            return False
        for e in ups:
            if len(e.args) != 2 or e.args[1] is not self.globals:
                return False
            conj.append(to_term(e.args[0], "obj") == tpl_globals(tpl))
        return z3.And(*conj) if conj else True

    posts = [("type_error_iff_no_loader", p_no_loader), ("cache_key_is_loader_and_name", p_key), ("hit_iff_stored_and_fresh", p_hit_or_load),
             ("loaded_template_stored", p_store), ("reload_check_and_globals", p_reload_check)]

    def concretize(self, model, pre, out):
        w = {"op": "load", "cache": self.ckind, "auto_reload": bool(model_value(model, self.auto_reload.t)),
             "loader_none": model_value(model, self.loader.t == NONE) is True,
             "load_outcome": model_value(model, self.oc(self.loader.t, self.tname.t)),
             "globals_truthy": model_value(model, jinja2_truthy(self.globals.t)) is True}
        if self.ckind != "none":
            w["stored"] = model_value(model, z3.Select(self.cache.dom0, self.key)) is True
            w["uptodate"] = model_value(model, utd(z3.Select(self.cache.val0, self.key))) is True
        return w

    def replay(self, w):
        return replay_load(w)


def jinja2_truthy(t):
    from pyvc.interp import InterpBase
    return InterpBase.truthy_fn(t)


class FakeTemplate:
    def __init__(self, ident, uptodate=True):
        self.ident, self._up, self.checked = ident, uptodate, 0
        self.globals = {}

    @property
    def is_up_to_date(self):
        self.checked += 1
        return self._up

    def __repr__(self):
        return f"<tpl {self.ident}>"


def replay_load_one(w):
    kind = w["cache"]
    out = w.get("load_outcome")
    loader = None if w.get("loader_none") else FakeLoader("L", out if out in (0, 1, 3) else OUT_OTHER)
    other = FakeLoader("other", OUT_RETURN)
    env = jinja2.Environment(loader=loader, cache_size={"none": 0, "lru": 16, "dict": -1}[kind], auto_reload=bool(w.get("auto_reload")))
    g = {"g": 1} if w.get("globals_truthy") else {}
    stored = FakeTemplate("stored", bool(w.get("uptodate")))
    decoys = {}
    if kind != "none":
        decoys = {(weakref.ref(other), "NAME"): FakeTemplate("decoy-other-loader"), "NAME": FakeTemplate("decoy-name-only"),
                  (weakref.ref(other), "X"): FakeTemplate("decoy-x")}
        for k, v in decoys.items():
            env.cache[k] = v
        if loader is not None:
            decoys[(weakref.ref(loader), "OTHERNAME")] = FakeTemplate("decoy-other-name")
            env.cache[(weakref.ref(loader), "OTHERNAME")] = decoys[(weakref.ref(loader), "OTHERNAME")]
            if w.get("stored"):
                env.cache[(weakref.ref(loader), "NAME")] = stored
    before = dict(env.cache.items()) if kind != "none" else None
    got = run_native(lambda: env._load_template("NAME", g))
    after = dict(env.cache.items()) if kind != "none" else None
    calls = loader.calls if loader is not None else []
    if loader is None:
        want, want_calls, want_after = ("raise", "TypeError"), 0, before
    else:
        hit = kind != "none" and w.get("stored") and (not w.get("auto_reload") or w.get("uptodate"))
        key = (weakref.ref(loader), "NAME")
        if hit:
            want, want_calls, want_after = ("ok", stored), 0, before
        else:
            want_calls = 1
            if loader.outcome == OUT_RETURN:
                want = ("ok", ("result", "L", "load", "NAME"))
                want_after = None if before is None else {**before, key: want[1]}
            else:
                want = ("raise", "TemplateNotFound" if loader.outcome == OUT_TNF else "OtherError")
                want_after = before
    g_ok = True
    if got[0] == "ok" and got[1] is stored:
        g_ok = stored.globals == g and (stored.checked <= (1 if w.get("auto_reload") else 0))
    if calls:
        c = calls[0]
        g_ok = g_ok and c[1] == "NAME" and c[2] is env and dict(c[3]).get("g") == g.get("g") and "range" in c[3]
    bad = got[:2] != want[:2] or len(calls) != want_calls or after != want_after or not g_ok
    return (bad, f"_load_template('NAME') cache={kind} auto_reload={w.get('auto_reload')} stored={w.get('stored')} uptodate={w.get('uptodate')} "
                 f"loader outcome={out}: real={got[:2]!r} load calls={len(calls)} cache after={after!r}; spec={want[:2]!r} load calls={want_calls} "
                 f"cache after={want_after!r}; globals ok={g_ok}")


def replay_load(w):
    v, d = replay_load_one(w)
    if v or v is None:
        return v, d
    for kind, ar, stored, up, oc, gt in itertools.product([w["cache"]], (False, True), (False, True), (False, True), (0, 1, 3), (False, True)):
        w2 = {"op": "load", "cache": kind, "auto_reload": ar, "stored": stored, "uptodate": up, "load_outcome": oc, "globals_truthy": gt, "loader_none": False}
        v2, d2 = replay_load_one(w2)
        if v2:
            return v2, d2 + " (found near the verifier's counter-model)"
    return v, d


# ----------------------------------------------------------------------------------------------
# create_cache / copy_cache
# ----------------------------------------------------------------------------------------------

def is_empty_lru(st, v, cap_term):
    if not (isinstance(v, Ref) and v.id in st.allocated and isinstance(st.get(v), HObj) and st.get(v).cls is U.LRUCache):
        return False
    h = st.get(v)
    q, m = h.fields.get("_queue"), h.fields.get("_mapping")
    if not (isinstance(q, Ref) and isinstance(m, Ref)):
        return False
    hq, hm = st.get(q), st.get(m)
    if not (isinstance(hq, HList) and hq.concrete and hq.items == [] and isinstance(hm, HDict) and hm.concrete and hm.items == {}):
        return False
    return to_term(h.fields["capacity"], "int") == cap_term


def is_empty_dict(st, v):
    return isinstance(v, Ref) and v.id in st.allocated and isinstance(st.get(v), HDict) and st.get(v).concrete and st.get(v).items == {}


class CreateCache(VC):
    prop = "C25"
    target = "jinja2.environment:create_cache"

    def __init__(self):
        super().__init__("C25", "C25.create_cache")

    def configure(self, I):
        install_unexpected(I)
        I.inline.update({"jinja2.utils:LRUCache.__init__", "jinja2.utils:LRUCache._postinit"})

    def setup(self, I, st):
        self.size = sym("size", "int")
        return [self.size], {}

    def p_kind(self, pre, out):
        """0 -> no cache, negative -> a fresh empty dict, n > 0 -> a fresh empty LRUCache of capacity n"""
        if out.raised or unexpected(out):
            return False
        v, n = out.value, self.size.t
        if v is None:
            return n == 0
        if is_empty_dict(out.st, v):
            return n < 0
        r = is_empty_lru(out.st, v, n)
        if r is False:
            return False
        return z3.And(n > 0, r)

    posts = [("kind_by_size", p_kind)]

    def concretize(self, model, pre, out):
        return {"op": "create_cache", "size": model_value(model, self.size.t)}

    def replay(self, w):
        return replay_caches(w)


class CopyCache(VC):
    prop = "C25"
    target = "jinja2.environment:copy_cache"

    def __init__(self, kind):
        self.ckind = kind
        super().__init__("C25", f"C25.copy_cache[{kind}]")

    def configure(self, I):
        install_unexpected(I)
        I.inline.update({"jinja2.utils:LRUCache.__init__", "jinja2.utils:LRUCache._postinit"})

    def setup(self, I, st):
        self.cap = sym("capacity", "int")
        st.assume(self.cap.t >= 1)
        if self.ckind == "none":
            self.cache = None
        elif self.ckind == "dict":
            self.cache = A.adict(st, "cache", "obj", "obj")
        else:
            q = st.alloc(HList(arr=z3.Const("q", OArr), n=z3.Int("qn"), k="obj", tag="deque"), initial=True)
            m = A.adict(st, "m", "obj", "obj")
            self.cache = A.obj(st, U.LRUCache, "cache", fields={"capacity": self.cap, "_queue": q, "_mapping": m})
        return [self.cache], {}

    def p_copy(self, pre, out):
        """an EMPTY cache of the same kind (and capacity); the source is not touched"""
        if out.raised or unexpected(out) or any(i not in out.st.allocated for i, _ in out.st.written):
            return False
        v = out.value
        if self.ckind == "none":
            return v is None
        if self.ckind == "dict":
            return is_empty_dict(out.st, v) and v != self.cache
        if v == self.cache:
            return False
        return is_empty_lru(out.st, v, self.cap.t)

    posts = [("empty_copy_of_same_kind", p_copy)]

    def concretize(self, model, pre, out):
        return {"op": "copy_cache", "kind": self.ckind, "capacity": model_value(model, self.cap.t)}

    def replay(self, w):
        return replay_caches(w)


def replay_caches(w):
    def shape(c):
        if c is None:
            return ("none",)
        if type(c) is dict:
            return ("dict", len(c))
        if type(c) is U.LRUCache:
            return ("lru", c.capacity, len(c))
        return ("?", repr(c))

    bad, log = False, []
    sizes = sorted({w.get("size", 1), w.get("capacity", 1), -3, -1, 0, 1, 2, 400})
    for n in sizes:
        got = run_native(lambda: shape(E.create_cache(n)))
        want = ("ok", ("none",) if n == 0 else ("dict", 0) if n < 0 else ("lru", n, 0))
        if got != want:
            bad = True
            log.append(f"create_cache({n}): real={got!r} spec={want!r}")
        src = E.create_cache(n) if n <= 0 else U.LRUCache(n)
        if src is not None:
            src["k"] = "v"
        got = run_native(lambda: shape(E.copy_cache(src)))
        if got != want or (src is not None and (E.copy_cache(src) is src or src.get("k") != "v")):
            bad = True
            log.append(f"copy_cache(create_cache({n}) with one entry): real={got!r} spec={want!r}")
    return (bad, "; ".join(log) or "create_cache / copy_cache agree with the statement on sizes " + repr(sizes))


# ----------------------------------------------------------------------------------------------
# Template.is_up_to_date, Template.from_code, BaseLoader.load
# ----------------------------------------------------------------------------------------------

class IsUpToDate(VC):
    prop = "C25"
    target = "jinja2.environment:Template.is_up_to_date"

    def __init__(self, has_check):
        self.has_check = has_check
        super().__init__("C25", f"C25.is_up_to_date[{'check' if has_check else 'no_check'}]")

    def configure(self, I):
        install_unexpected(I)

        def call_obj(I_, st, args, kwargs, node):
            r = fresh("check_result", "obj")
            A.call_event(st, "uptodate()", args, kwargs, r, node)
            return [(st, r)]

        I.specs["call_obj"] = call_obj

    def setup(self, I, st):
        self.check = sym("uptodate_func", "obj")
        st.assume(self.check.t != NONE)
        self.tpl = A.obj(st, E.Template, "self", fields={"_uptodate": self.check if self.has_check else None})
        return [self.tpl], {}

    def p_result(self, pre, out):
        """no check => True (never reloaded); otherwise exactly the answer of the loader's check, asked once"""
        if out.raised or unexpected(out) or out.st.written:
            return False
        calls = A.calls(out, "uptodate()")
        if not self.has_check:
            return out.value is True and not calls
        return len(calls) == 1 and calls[0].args == (self.check,) and not calls[0].kwargs and out.value is calls[0].result

    posts = [("answer_of_the_check", p_result)]

    def concretize(self, model, pre, out):
        return {"op": "is_up_to_date", "has_check": self.has_check}

    def replay(self, w):
        return replay_template(w)


def replay_template(w):
    env = jinja2.Environment()
    log, bad = [], False
    for answer in (True, False):
        calls = []

        def check():
            calls.append(1)
            return answer

        t = env.from_string("x")
        if t.is_up_to_date is not True:
            bad = True
            log.append("template without check is not up to date")
        code = env.compile("x", "n", "f")
        t2 = E.Template.from_code(env, code, {}, check)
        got = t2.is_up_to_date
        if got is not answer or len(calls) != 1:
            bad = True
            log.append(f"from_code(.., uptodate) then is_up_to_date: {got!r} after {len(calls)} calls, check answers {answer}")
        t3 = E.Template.from_code(env, code, {})
        if t3.is_up_to_date is not True:
            bad = True
            log.append("from_code without check is not up to date")
    return (bad, "; ".join(log) or "Template.from_code / is_up_to_date agree with the statement")


class FromCode(VC):
    prop = "C25"
    target = "jinja2.environment:Template.from_code"

    def __init__(self):
        super().__init__("C25", "C25.from_code")

    def configure(self, I):
        install_unexpected(I)
        c = self

        def exec_(I_, st, args, kwargs, node):
            A.call_event(st, "exec", args, kwargs, None, node)
            return [(st, None)]

        I.specs[("fn", id(exec))] = exec_

        def from_ns(I_, st, args, kwargs, node):
            r = st.alloc(HObj(E.Template, fields={"_uptodate": None, "environment": args[1], "globals": args[3]}))
            A.call_event(st, "_from_namespace", args, kwargs, r, node)
            return [(st, r)]

        I.specs["jinja2.environment:Template._from_namespace"] = from_ns

        def co_filename(I_, st, o, node):
            return [(st, fresh("co_filename", "str"))]

        install_opaque(I, attrs={"co_filename": co_filename})

    def setup(self, I, st):
        self.env, self.code, self.globals, self.check = sym("environment", "obj"), sym("code", "obj"), sym("globals", "obj"), sym("uptodate", "obj")
        return [E.Template, self.env, self.code, self.globals, self.check], {}

    def p_check_stored(self, pre, out):
        """the template built from the code carries exactly the check passed in"""
        if out.raised or unexpected(out):
            return False
        ns = A.calls(out, "_from_namespace")
        ex = A.calls(out, "exec")
        if len(ns) != 1 or len(ex) != 1 or out.value is not ns[0].result or ex[0].args[0] is not self.code:
            return False
        if ns[0].args[1] is not self.env or ns[0].args[3] is not self.globals or ns[0].args[2] != ex[0].args[1]:
            return False
        return out.st.get(out.value).fields.get("_uptodate") is self.check

    posts = [("check_stored_on_template", p_check_stored)]

    def concretize(self, model, pre, out):
        return {"op": "from_code"}

    def replay(self, w):
        return replay_template(w)


class BaseLoad(VC):
    """BaseLoader.load: the template is compiled from the source get_source returned for this name (unless the
    bytecode cache holds code for it) and carries the uptodate function returned with that source."""
    prop = "C25"
    target = "jinja2.loaders:BaseLoader.load"

    def __init__(self):
        super().__init__("C25", "C25.BaseLoader.load")

    def configure(self, I):
        install_unexpected(I)
        c = self

        def get_source(I_, st, args, kwargs, node):
            s1 = st.fork()
            e = Exc(TemplateNotFound, (args[2],), tag="get_source", origin=getattr(node, "lineno", None))
            e.from_call = "get_source"
            A.call_event(s1, "get_source", args, kwargs, e, node)
            r = (c.source, c.filename, c.check)
            A.call_event(st, "get_source", args, kwargs, r, node)
            return [(s1, Raised(e)), (st, r)]

        I.specs["BaseLoader.get_source"] = get_source

        def attr(name, value):
            def h(I_, st, o, node):
                return [(st, value() if callable(value) else value)]
            return h

        def bucket_code(I_, st, o, node):
            if o is not c.bucket:
                return None
            return [(st, st.ghost.get("bucket.code", c.bucket_code0))]

        def meth(name):
            def h(I_, st, recv, args, kwargs, node):
                r = {"get_bucket": c.bucket, "compile": c.compiled, "from_code": c.template, "set_bucket": None}[name]
                A.call_event(st, name, [recv] + list(args), kwargs, r, node)
                return [(st, r)]
            return h

        install_opaque(I, methods={n: meth(n) for n in ("get_bucket", "compile", "from_code", "set_bucket")},
                       attrs={"bytecode_cache": attr("bytecode_cache", lambda: c.bcc), "template_class": attr("template_class", lambda: c.tcls), "code": bucket_code})

        def setattr_obj(I_, st, args, kwargs, node):
            o, name, v = args
            if o is c.bucket and name == "code":
                st.ghost = dict(st.ghost)
                st.ghost["bucket.code"] = v
                st.trace.append(Event("call", "bucket.code=", [o, v], lineno=getattr(node, "lineno", None)))
                return [(st, None)]
            return None

        I.specs["setattr_obj"] = setattr_obj

    def setup(self, I, st):
        self.obj = A.obj(st, L.BaseLoader, "self")
        self.env, self.tname = sym("environment", "obj"), sym("name", "obj")
        self.source, self.filename, self.check = sym("source", "obj"), sym("filename", "obj"), sym("uptodate", "obj")
        self.bcc, self.bucket, self.bucket_code0 = sym("bytecode_cache", "obj"), sym("bucket", "obj"), sym("bucket_code", "obj")
        self.compiled, self.template, self.tcls = sym("compiled", "obj"), sym("template", "obj"), sym("template_class", "obj")
        self.globals = sym("globals", "obj")
        return [self.obj, self.env, self.tname, self.globals], {}

    def p_current_source(self, pre, out):
        if unexpected(out):
            return False
        gs = A.calls(out, "get_source")
        if len(gs) != 1 or gs[0].args[1] is not self.env or gs[0].args[2] is not self.tname:
            return False
        fc = A.calls(out, "from_code")
        if isinstance(gs[0].result, Exc):
            return out.raised and out.value is gs[0].result and not fc and not A.calls(out, "compile")
        if out.raised or len(fc) != 1 or out.value is not fc[0].result:
            return False
        a = fc[0].args
        if len(a) != 5 or a[0] is not self.tcls or a[1] is not self.env or a[4] is not self.check:
            return False
        comp = A.calls(out, "compile")
        conj = []
        if comp:
            if len(comp) != 1 or comp[0].args[1:] != (self.source, self.tname, self.filename) or a[2] is not comp[0].result:
                return False
            # compiled only when there is no bytecode cache or its bucket holds no code
            conj.append(z3.Or(self.bcc.t == NONE, self.bucket_code0.t == NONE))
        else:
            if a[2] is not self.bucket_code0:
                return False
            conj.append(z3.And(self.bcc.t != NONE, self.bucket_code0.t != NONE))
        for e in A.calls(out, "get_bucket"):
            if e.args[1:] != (self.env, self.tname, self.filename, self.source):
                return False
        g = a[3]
        if g is self.globals:
            conj.append(self.globals.t != NONE)
        elif isinstance(g, Ref) and isinstance(out.st.get(g), HDict) and out.st.get(g).concrete and out.st.get(g).items == {}:
            conj.append(self.globals.t == NONE)
        else:
            return False
        return z3.And(*conj)

    posts = [("template_from_current_source_with_its_check", p_current_source)]

    def concretize(self, model, pre, out):
        return {"op": "base_load"}

    def replay(self, w):
        return replay_base_load(w)


def replay_base_load(w):
    log, bad = [], False
    for version in ("one", "two"):
        checks = []

        class Ld(jinja2.BaseLoader):
            def get_source(self, environment, template):
                def check():
                    checks.append(template)
                    return False
                return f"{template}:{version}", None, check

        env = jinja2.Environment(loader=Ld(), cache_size=0)
        t = Ld().load(env, "n", None)
        out = t.render()
        if out != f"n:{version}" or t.is_up_to_date is not False or checks != ["n"]:
            bad = True
            log.append(f"load('n') of source version {version}: renders {out!r}, check calls {checks!r}")
    return (bad, "; ".join(log) or "BaseLoader.load builds the template from the current source with the loader's check")


# ----------------------------------------------------------------------------------------------
# loaders' up-to-date checks
# ----------------------------------------------------------------------------------------------

def call_returned_closure(I, outs, idx, prepare):
    """for every normal outcome of get_source call the returned closure (element idx) in the state `prepare` made"""
    res = []
    for o in outs:
        if o.raised:
            continue
        clo = o.value[idx] if isinstance(o.value, tuple) and len(o.value) > idx else None
        if not isinstance(clo, Closure):
            res.append(Outcome(o.st, "return", ("not-a-closure", clo), len(res)))
            continue
        st = o.st
        st.ghost = dict(st.ghost)
        st.ghost["mark"] = len(st.trace)
        prepare(st, o)
        for s, v in I.call_closure(st, clo, [], {}):
            if isinstance(v, Raised):
                res.append(Outcome(s, "raise", v.exc, len(res)))
            else:
                res.append(Outcome(s, "return", v, len(res)))
    return res


def later_events(out):
    return out.st.trace[out.st.ghost.get("mark", 0):]


class DictLoaderCheck(VC):
    """DictLoader.get_source and the closure it returns, called after ANY change of the mapping."""
    prop = "C25"
    target = "jinja2.loaders:DictLoader.get_source"
    timeout_quick = 20000

    def __init__(self, phase):
        self.phase = phase  # 'get_source' | 'uptodate'
        super().__init__("C25", f"C25.uptodate.dict[{phase}]")

    def configure(self, I):
        install_unexpected(I)

    def setup(self, I, st):
        str_not_none(st)
        self.mapping = A.adict(st, "mapping", "str", "str")
        h = st.get(self.mapping)
        self.dom0, self.val0 = h.dom, h.val
        self.obj = A.obj(st, L.DictLoader, "self", fields={"mapping": self.mapping})
        self.env, self.template = sym("environment", "obj"), sym("template", "str")
        self.dom1 = z3.Const("mapping_dom_later", h.dom.sort())
        self.val1 = z3.Const("mapping_val_later", h.val.sort())
        return [self.obj, self.env, self.template], {}

    def paths(self, I):
        pre, outs = super().paths(I)
        if self.phase == "get_source":
            return pre, outs

        def change(st, o):
            h = st.get(self.mapping)
            h.dom, h.val, h.size = self.dom1, self.val1, z3.Int(fresh_name("size_later"))

        return pre, call_returned_closure(I, outs, 2, change)

    def p_get_source(self, pre, out):
        """(mapping[name], None, check) when the name is in the mapping, TemplateNotFound(name) otherwise"""
        if self.phase != "get_source":
            return None
        if unexpected(out) or out.st.written:
            return False
        has = z3.Select(self.dom0, self.template.t)
        if out.raised:
            return z3.Not(has) if tnf_named(out, self.template) else False
        v = out.value
        if not (isinstance(v, tuple) and len(v) == 3 and v[1] is None and isinstance(v[2], Closure)):
            return False
        return z3.And(has, to_term(v[0], "str") == z3.Select(self.val0, self.template.t))

    def p_check(self, pre, out):
        """True iff the mapping still maps the name to the source that was loaded; a deleted or modified entry
        gives False; the check never raises and does not modify the mapping"""
        if self.phase != "uptodate":
            return None
        if out.raised or unexpected(out) or out.st.written:
            return False
        t = self.template.t
        same = z3.And(z3.Select(self.dom1, t), z3.Select(self.val1, t) == z3.Select(self.val0, t))
        return to_term(out.value, "bool") == same

    posts = [("source_or_not_found", p_get_source), ("true_iff_source_unchanged", p_check)]

    def concretize(self, model, pre, out):
        t = self.template.t
        return {"op": "dict", "had": model_value(model, z3.Select(self.dom0, t)) is True, "source": z3str(model, z3.Select(self.val0, t)),
                "has_later": model_value(model, z3.Select(self.dom1, t)) is True, "source_later": z3str(model, z3.Select(self.val1, t))}

    def replay(self, w):
        return replay_dict(w)


def replay_dict(w):
    log, bad = [], False
    cases = [(w.get("had", True), w.get("source", "s"), w.get("has_later", False), w.get("source_later", "s"))]
    cases += [(True, "s", True, "s"), (True, "s", True, "t"), (True, "s", False, ""), (False, "", False, ""), (True, "", False, ""), (True, "", True, "")]
    for had, src, has2, src2 in cases:
        m = {"other": "o"}
        if had:
            m["n"] = src
        ld = L.DictLoader(m)
        got = run_native(lambda: ld.get_source(None, "n"))
        if not had:
            if got != ("raise", "TemplateNotFound", "n"):
                bad = True
                log.append(f"get_source of a missing name: {got!r}")
            continue
        if got[0] != "ok" or got[1][0] != src or got[1][1] is not None:
            bad = True
            log.append(f"get_source('n') with mapping n->{src!r}: {got!r}")
            continue
        check = got[1][2]
        if has2:
            m["n"] = src2
        else:
            del m["n"]
        snapshot = dict(m)
        g2 = run_native(check)
        want = ("ok", bool(has2 and src2 == src))
        if g2 != want or m != snapshot:
            bad = True
            log.append(f"loaded {src!r}, then mapping {'n->' + repr(src2) if has2 else 'without n'}: check gives {g2!r}, spec {want!r}")
    return (bad, "; ".join(log) or "DictLoader check agrees with the statement")


class FunctionLoaderVC(VC):
    prop = "C25"
    target = "jinja2.loaders:FunctionLoader.get_source"

    def __init__(self):
        super().__init__("C25", "C25.function_loader")

    def configure(self, I):
        install_unexpected(I)
        c = self

        def call_obj(I_, st, args, kwargs, node):
            outs = []
            for kind in ("none", "str", "tuple"):
                s = st.fork()
                if kind == "none":
                    r = None
                elif kind == "str":
                    r = c.src
                else:
                    r = c.tup
                    s.assume(z3.Not(isinst_fn(str)(r.t)), r.t != NONE)
                A.call_event(s, "load_func", args, kwargs, r, node)
                outs.append((s, r))
            return outs

        I.specs["call_obj"] = call_obj

        def getitem_obj(I_, st, args, kwargs, node):
            r = fresh("item", "obj")
            A.call_event(st, "tuple.__getitem__", args, kwargs, r, node)
            return [(st, r)]

        I.specs["getitem_obj"] = getitem_obj

    def setup(self, I, st):
        str_not_none(st)
        self.func = sym("load_func", "obj")
        self.src, self.tup = sym("returned_source", "str"), sym("returned_tuple", "obj")
        self.obj = A.obj(st, L.FunctionLoader, "self", fields={"load_func": self.func})
        self.env, self.template = sym("environment", "obj"), sym("template", "obj")
        return [self.obj, self.env, self.template], {}

    def p_pass_through(self, pre, out):
        """None -> TemplateNotFound(name); a bare string -> (source, None, no check); a tuple is passed through,
        so the supplied check is the one the template gets"""
        calls = A.calls(out, "load_func")
        if unexpected(out) or len(calls) != 1 or calls[0].args != (self.func, self.template) or calls[0].kwargs:
            return False
        r = calls[0].result
        if r is None:
            return tnf_named(out, self.template)
        if out.raised:
            return False
        if r is self.src:
            v = out.value
            return isinstance(v, tuple) and len(v) == 3 and v[0] is self.src and v[1] is None and v[2] is None
        return out.value is self.tup

    posts = [("passes_the_check_through", p_pass_through)]

    def concretize(self, model, pre, out):
        return {"op": "function"}

    def replay(self, w):
        return replay_function(w)


def replay_function(w):
    log, bad = [], False

    def chk():
        return False

    tup = ("src", "file", chk)
    for rv, want in ((None, ("raise", "TemplateNotFound", "n")), ("src", ("ok", ("src", None, None))), (tup, ("ok", tup)), (("s", None, None), ("ok", ("s", None, None)))):
        seen = []
        ld = L.FunctionLoader(lambda name: (seen.append(name), rv)[1])
        got = run_native(lambda: ld.get_source(None, "n"))
        if got != want or seen != ["n"]:
            bad = True
            log.append(f"load_func returns {rv!r}: get_source gives {got!r}, spec {want!r}")
    return (bad, "; ".join(log) or "FunctionLoader.get_source agrees with the statement")


fs2_exists = z3.Function("fs_later.exists", S_, B_)
fs2_mtime = z3.Function("fs_later.mtime", S_, I_)   # ordered (integer ticks): <, <=, > comparisons are decided too


class LaterFS(FSModel):
    """after get_source returned the file system may have changed arbitrarily: getmtime raises OSError when
    the file is gone, else returns the (possibly different) current mtime; isfile is the current existence"""
    later = False

    def cur_exists(self, p):
        return fs2_exists(p) if self.later else fs_isfile(p)

    def cur_mtime(self, p):
        return fs2_mtime(p) if self.later else fs_mtime(p)

    def getmtime(self, I, st, args, kwargs, node):
        if not self.later:
            return FSModel.getmtime(self, I, st, args, kwargs, node)
        p = to_term(args[0], "str")
        out = []
        for s, b in I.fork_bool(st, fs2_exists(p)):
            if b:
                r = Sym(fs2_mtime(p), "int")
                A.call_event(s, "os.path.getmtime", args, kwargs, r, node)
                out.append((s, r))
            else:
                e = Exc(FileNotFoundError, (), tag="getmtime", origin=getattr(node, "lineno", None))
                e.from_call = "os.path.getmtime"
                A.call_event(s, "os.path.getmtime", args, kwargs, e, node)
                out.append((s, Raised(e)))
        return out

    def install(self, I):
        FSModel.install(self, I)
        import ntpath
        import posixpath
        m = self

        def isfile(I_, st, args, kwargs, node):
            f = fs2_exists if m.later else fs_isfile
            r = Sym(f(to_term(args[0], "str")), "bool")
            A.call_event(st, "os.path.isfile", args, kwargs, r, node)
            return [(st, r)]

        I.specs[("fn", id(posixpath.isfile))] = isfile
        I.specs[("fn", id(ntpath.isfile))] = isfile


def searchpath_loops():
    """(frame qualname, loop ordinal, node) of every `for .. in self.searchpath` of class FileSystemLoader outside the body of
    get_source itself and outside list_templates: the closures of get_source and the private helper methods"""
    import sys
    from pyvc import extract
    tree, _, _ = extract.module_ast(sys.modules["jinja2.loaders"])
    cls = next(n for n in tree.body if isinstance(n, ast.ClassDef) and n.name == "FileSystemLoader")
    found = []

    def loops_of(fn_node):
        k = 0
        for sub in ast.walk(fn_node):   # same numbering as the engine's loop_ordinal
            if isinstance(sub, (ast.For, ast.While, ast.AsyncFor)):
                yield k, sub
                k += 1

    def over_searchpath(loop):
        it = getattr(loop, "iter", None)
        return isinstance(it, ast.Attribute) and it.attr == "searchpath"

    def owned(fn_node, loop):
        """the loop belongs to fn_node itself, not to a function nested in it"""
        for sub in ast.walk(fn_node):
            if sub is not fn_node and isinstance(sub, (ast.FunctionDef, ast.AsyncFunctionDef, ast.Lambda)) and any(x is loop for x in ast.walk(sub)):
                return False
        return True

    def visit(fn_node, qualname, top):
        for k, loop in loops_of(fn_node):
            if over_searchpath(loop) and owned(fn_node, loop) and not (top and fn_node.name in ("get_source", "list_templates")):
                found.append((qualname, k, loop))
        for sub in ast.walk(fn_node):
            if sub is not fn_node and isinstance(sub, (ast.FunctionDef, ast.AsyncFunctionDef)) and owned_def(fn_node, sub):
                visit(sub, f"{qualname}.<locals>.{sub.name}", False)

    def owned_def(fn_node, d):
        for sub in ast.walk(fn_node):
            if sub is not fn_node and sub is not d and isinstance(sub, (ast.FunctionDef, ast.AsyncFunctionDef)) and any(x is d for x in ast.walk(sub)):
                return False
        return True

    for m in cls.body:
        if isinstance(m, (ast.FunctionDef, ast.AsyncFunctionDef)):
            visit(m, f"FileSystemLoader.{m.name}", True)
    return found



class FSCheck(FSGetSource):
    """the `uptodate` closure returned by FileSystemLoader.get_source, called after the file system changed"""

    def __init__(self, platform="posix"):
        FSGetSource.__init__(self, platform, name="C25.uptodate.fs")
        self.prop = "C25"

    def configure(self, I):
        FSGetSource.configure(self, I)
        self.fs = LaterFS(self.platform)
        self.fs.install(I)
        # a loop over self.searchpath that is run by the check - in the closure itself or in a private helper of the class
        # reached from it: none of the candidates seen so far exists now or is the loaded file
        c = self

        def inv(ctx):
            T = c.opened_path(Outcome(ctx.st, "return", None, 0))
            j = z3.Int(fresh_name("j"))
            return [z3.ForAll([j], z3.Implies(z3.And(0 <= j, j < ctx.k), z3.And(z3.Not(fs2_exists(c.cand(j))), c.cand(j) != T)))]

        for qualname, ordinal, loop in searchpath_loops():
            names = {x.id for x in ast.walk(loop) if isinstance(x, ast.Name) and isinstance(x.ctx, ast.Store)}
            names -= {x.id for x in ast.walk(loop.target) if isinstance(x, ast.Name)}
            I.loops[(qualname, ordinal)] = LoopSpec(inv, havoc={n: "str" for n in sorted(names)}, name="shadow_loop")

    def paths(self, I):
        pre, outs = FSGetSource.paths(self, I)

        def change(st, o):
            self.fs.later = True

        self.fs.later = False
        try:
            return pre, call_returned_closure(I, outs, 2, change)
        finally:
            self.fs.later = False

    def opened_path(self, out):
        return to_term(A.calls(out, "open")[0].args[0], "str")

    # the search path that had the file when it was loaded: index i0 with T == cand(i0), the first one (hypothesis of both clauses)
    def hit_hyp(self, T, i0):
        return z3.And(0 <= i0, i0 < self.SPn, T == self.cand(i0), self.none_before(i0))

    def shadowed(self, i0):
        """a file of the same name now exists in a search path that is consulted BEFORE the one the template came from:
        it is the loader's current source for the name (an addition in the loader)"""
        j = z3.Int(fresh_name("j"))
        return z3.Exists([j], z3.And(0 <= j, j < i0, fs2_exists(self.cand(j))))

    def later_access(self, out, T):
        """structural part: the check only examines the loaded file and candidates of the same name in the search paths"""
        if out.raised:
            return None
        bad = [e.name for e in later_events(out) if e.kind == "call" and e.name.startswith("unexpected:")]
        if bad:
            # a shape of the check this contract does not recognise: undecided, never a violation
            raise Unsupported(f"the up-to-date check calls {bad[0][11:]} which has no spec")
        if unexpected(out):
            return None
        conj, n_mtime = [], 0
        for e in later_events(out):
            if e.kind != "call":
                continue
            if e.name in ("os.path.getmtime", "os.stat"):
                n_mtime += 1
                conj.append(to_term(e.args[0], "str") == T)
            elif e.name == "os.path.isfile":
                i = z3.Int(fresh_name("i"))
                conj.append(z3.Exists([i], z3.And(0 <= i, i < self.SPn, to_term(e.args[0], "str") == self.cand(i))))
            elif e.name != "posixpath.join":
                return None
        return conj

    def p_check(self, pre, out):
        """(no file of that name has appeared in an earlier search path:) True iff the file that was read still exists
        with the mtime recorded when it was read; False (not an exception) when it is gone"""
        T = self.opened_path(out)
        conj = self.later_access(out, T)
        if conj is None:
            return False
        i0 = z3.Int(fresh_name("i0"))
        same = z3.And(fs2_exists(T), fs2_mtime(T) == fs_mtime(T))
        return z3.Implies(z3.And(self.hit_hyp(T, i0), z3.Not(self.shadowed(i0))), z3.And(to_term(out.value, "bool") == same, *conj))

    def p_shadow(self, pre, out):
        """False when a file of the same name has appeared in a search path consulted earlier (the loader would now
        return that file: the cached template is not built from the current source)"""
        T = self.opened_path(out)
        if self.later_access(out, T) is None:
            return False
        i0 = z3.Int(fresh_name("i0"))
        return z3.Implies(z3.And(self.hit_hyp(T, i0), self.shadowed(i0)), z3.Not(to_term(out.value, "bool")))

    posts = [("true_iff_mtime_unchanged", p_check), ("false_when_shadowed_by_earlier_search_path", p_shadow)]

    def concretize(self, model, pre, out):
        if out is None:
            return {"op": "fs_check", "exists_later": False, "same_mtime": False, "mtime_order": 0, "shadowed": False}
        T = self.opened_path(out)
        # shadowed in the counter-model: some candidate before the hit exists now
        sh = False
        n = model_value(model, self.SPn)
        for i in range(max(0, min(8, n if isinstance(n, int) else 0))):
            c = self.cand(z3.IntVal(i))
            if model_value(model, c == T) is True:
                break
            if model_value(model, fs2_exists(c)) is True:
                sh = True
        return {"op": "fs_check", "exists_later": model_value(model, fs2_exists(T)) is True,
                "same_mtime": model_value(model, fs2_mtime(T) == fs_mtime(T)) is True,
                "mtime_order": mtime_order(model, T), "shadowed": sh}

    def finding_key(self, res):
        w = res.witness or {}
        if "false_when_shadowed" in res.name and w.get("exists_later") and w.get("same_mtime"):
            return "shadowed-by-earlier-search-path"
        return "other"

    def replay(self, w):
        return replay_fs_check(w, "fs")


class PkgCheck(PkgGetSource):
    """the `up_to_date` closure of PackageLoader.get_source (directory package)"""

    def __init__(self, platform="posix"):
        PkgGetSource.__init__(self, platform, False, name="C25.uptodate.package")
        self.prop = "C25"

    def configure(self, I):
        PkgGetSource.configure(self, I)
        self.fs = LaterFS(self.platform)
        self.fs.install(I)

    def paths(self, I):
        pre, outs = PkgGetSource.paths(self, I)

        def change(st, o):
            self.fs.later = True

        self.fs.later = False
        try:
            return pre, call_returned_closure(I, outs, 2, change)
        finally:
            self.fs.later = False

    def p_check(self, pre, out):
        """True iff the file still exists with the recorded mtime; False when it is gone (FS-STABLE: it does not
        vanish between the existence test and the mtime query of one check)"""
        T = self.p
        if out.raised or unexpected(out):
            return False  # a deleted file gives False, never an exception
        conj = []
        for e in later_events(out):
            if e.kind == "call":
                if e.name not in ("os.path.getmtime", "os.path.isfile", "os.stat"):
                    return False
                conj.append(to_term(e.args[0], "str") == T)
        if not conj:
            return False
        same = z3.And(fs2_exists(T), fs2_mtime(T) == fs_mtime(T))
        return z3.And(to_term(out.value, "bool") == same, *conj)

    posts = [("true_iff_mtime_unchanged", p_check)]

    def concretize(self, model, pre, out):
        T = self.p
        return {"op": "pkg_check", "exists_later": model_value(model, fs2_exists(T)) is True,
                "same_mtime": model_value(model, fs2_mtime(T) == fs_mtime(T)) is True,
                "mtime_order": mtime_order(model, T)}

    def replay(self, w):
        return replay_fs_check(w, "package")


def mtime_order(model, T):
    """difference (seconds) between the file's mtime now and the one recorded when it was read, as the counter-model has it:
    negative = OLDER, 0 = same, positive = newer; a fraction = a change inside the same whole second"""
    from contracts.c28 import TICKS_PER_SECOND
    a, b = model_value(model, fs2_mtime(T)), model_value(model, fs_mtime(T))
    if not (isinstance(a, int) and isinstance(b, int)) or a == b:
        return 0
    sign = 1 if a > b else -1
    return sign * 0.25 if a // TICKS_PER_SECOND == b // TICKS_PER_SECOND else sign * 2


def replay_fs_check(w, which):
    log, bad = [], False
    first = (w.get("exists_later", False), w.get("mtime_order", 0 if w.get("same_mtime") else 1), bool(w.get("shadowed")))
    # deleted; unchanged; replaced by a NEWER file; by an OLDER one (restored backup, old checkout); saved again within
    # the same second (sub-second mtime step, forwards and backwards)
    cases = [first] + [(e, d, False) for e, d in ((True, 0), (True, 2), (True, -2), (True, 0.25), (True, -0.25), (True, 0.001), (False, 0))]
    for exists, delta, shadow in cases:
        same = delta == 0
        path, early = "/srv/t/a.html", "/srv/first/a.html"
        if which == "fs":
            ld = object.__new__(L.FileSystemLoader)
            # two search paths: the template is found in the SECOND one
            ld.searchpath, ld.encoding, ld.followlinks = ["/srv/first", "/srv/t"], "utf-8", False
        else:
            ld = object.__new__(L.PackageLoader)
            ld._template_root, ld._archive, ld._loader, ld.encoding, ld.package_name, ld.package_path = "/srv/t", None, None, "utf-8", "p", "t"
            shadow = False
        with fake_fs("posix", [path], mtime=5.5) as fs:
            got = run_native(lambda: ld.get_source(None, "a.html"))
            if got[0] != "ok" or not callable(got[1][2]):
                return (True, f"{which} loader get_source('a.html') with the file present: {got!r}")
            check = got[1][2]
            if not exists:
                fs.files.discard(path)
            elif not same:
                fs.mtime = 5.5 + delta
            if shadow:
                fs.files.add(early)   # an addition in the loader: the first search path now has the name too
                current = run_native(lambda: ld.get_source(None, "a.html"))
            del fs.log[:]
            # the closure is defined in jinja2.loaders, so the fake file system still answers it
            g2 = run_native(check)
            touched = {p for _, p in fs.log}
        want = ("ok", bool(exists and same and not shadow))
        if g2 != want or touched - {path, early}:
            bad = True
            how = "same" if same else f"{'newer' if delta > 0 else 'OLDER'} by {abs(delta)} s"
            extra = f", and {early!r} ADDED in the earlier search path (the loader now returns {current[1][0] if current[0] == 'ok' else current!r})" if shadow else ""
            log.append(f"file {'present' if exists else 'deleted'}, mtime {how} than when loaded{extra}: check gives {g2!r} (touched {sorted(touched)!r}), spec {want!r}")
    return (bad, "; ".join(log) or f"{which} loader check agrees with the statement")


# ----------------------------------------------------------------------------------------------
# get_template / select_template / get_or_select_template dispatch
# ----------------------------------------------------------------------------------------------

joined = z3.Function("Environment.join_path", Obj, Obj, Obj)
FAIL_SELECT = (OUT_TNF, OUT_TNFS, OUT_UNDEF)


def env_specs(I, c, outcomes):
    c.oc, c.res = callee_model("_load_template")
    h = abstract_loader_method("_load_template", c.oc, c.res, outcomes=outcomes, name_index=0)
    I.specs["Environment._load_template"] = lambda I_, st, args, kwargs, node: h(I_, st, args[0], list(args[1:]), kwargs, node)
    I.specs["Environment.join_path"] = A.abstract_fn("join_path", result=lambda st, args, kwargs: Sym(joined(to_term(args[1], "obj"), to_term(args[2], "obj")), "obj"))


class GetTemplate(VC):
    prop = "C25"
    target = "jinja2.environment:Environment.get_template"

    def __init__(self, with_parent):
        self.with_parent = with_parent
        super().__init__("C25", f"C25.get_template[{'parent' if with_parent else 'no_parent'}]")

    def configure(self, I):
        install_unexpected(I)
        env_specs(I, self, (OUT_RETURN, OUT_TNF, OUT_OTHER))

    def setup(self, I, st):
        self.env = A.obj(st, jinja2.Environment, "self")
        self.tname, self.globals = sym("name", "obj"), sym("globals", "obj")
        self.parent = sym("parent", "obj") if self.with_parent else None
        if self.with_parent:
            st.assume(self.parent.t != NONE)
        return [self.env, self.tname, self.parent, self.globals], {}

    def p_dispatch(self, pre, out):
        """a Template object is returned unchanged; a name goes through the cache (_load_template) exactly once,
        joined with the parent when one is given; its outcome is the outcome"""
        if unexpected(out):
            return False
        is_t = isinst_fn(E.Template)(self.tname.t)
        calls = A.calls(out, "_load_template")
        if not calls:
            return z3.And(is_t, True) if out.returned and out.value is self.tname else False
        if len(calls) != 1:
            return False
        ev = calls[0]
        if ev.args[0] != self.env or len(ev.args) != 3 or ev.kwargs or ev.args[2] is not self.globals:
            return False
        want_name = joined(self.tname.t, self.parent.t) if self.with_parent else self.tname.t
        same = (out.value is ev.result)
        if not same:
            return False
        return z3.And(z3.Not(is_t), to_term(ev.args[1], "obj") == want_name)

    posts = [("through_the_cache", p_dispatch)]

    def concretize(self, model, pre, out):
        return {"op": "dispatch"}

    def replay(self, w):
        return replay_dispatch(w)


class SelectTemplate(LVC):
    prop = "C25"
    target = "jinja2.environment:Environment.select_template"
    timeout_quick = 20000

    def __init__(self, with_parent):
        self.with_parent = with_parent
        super().__init__("C25", f"C25.select_template[{'parent' if with_parent else 'no_parent'}]")

    def configure(self, I):
        install_unexpected(I)
        env_specs(I, self, (OUT_RETURN, OUT_TNF, OUT_TNFS, OUT_UNDEF, OUT_OTHER))
        c = self

        def inv(ctx):
            return [c.all_fail_before(ctx.k)]

        I.loops[("Environment.select_template", 0)] = LoopSpec(inv, havoc=loop_assigned(self.target, kind="obj"), name="names_loop")

    def nm(self, i):
        x = z3.Select(self.NM, i)
        return joined(x, self.parent.t) if self.with_parent else x

    def oc_at(self, i):
        return self.oc(to_term(self.env, "obj"), self.nm(i))

    def fails(self, i):
        o = self.oc_at(i)
        return z3.And(z3.Not(isinst_fn(E.Template)(z3.Select(self.NM, i))), z3.Or(*[o == v for v in FAIL_SELECT]))

    def all_fail_before(self, k):
        j = z3.Int(fresh_name("j"))
        return z3.ForAll([j], z3.Implies(z3.And(0 <= j, j < k), self.fails(j)))

    def setup(self, I, st):
        self.NM = z3.Const("names", OArr)
        self.n = z3.Int("n_names")
        st.assume(self.n >= 0)
        self.names = st.alloc(HList(arr=self.NM, n=self.n, k="obj"), initial=True)
        self.env = A.obj(st, jinja2.Environment, "self")
        self.globals = sym("globals", "obj")
        self.parent = sym("parent", "obj") if self.with_parent else None
        if self.with_parent:
            st.assume(self.parent.t != NONE)
        return [self.env, self.names, self.parent, self.globals], {}

    def p_first(self, pre, out):
        """the first entry that is a Template object or whose name can be loaded; TemplatesNotFound iff every entry
        is a name that raises TemplateNotFound / UndefinedError (or the list is empty); other errors pass through"""
        if unexpected(out) or out.st.written:
            return False
        i = z3.Int(fresh_name("i"))
        if out.returned:
            v = to_term(out.value, "obj")
            x = z3.Select(self.NM, i)
            is_t = isinst_fn(E.Template)(x)
            return z3.Exists([i], z3.And(0 <= i, i < self.n, self.all_fail_before(i), z3.Or(
                z3.And(is_t, v == x),
                z3.And(z3.Not(is_t), self.oc_at(i) == OUT_RETURN, v == self.res(to_term(self.env, "obj"), self.nm(i))))))
        e = out.value
        if getattr(e, "from_call", None):
            if e.cls is not OtherError:
                return False
            return z3.Exists([i], z3.And(0 <= i, i < self.n, self.all_fail_before(i), z3.Not(isinst_fn(E.Template)(z3.Select(self.NM, i))), self.oc_at(i) == OUT_OTHER))
        if e.cls is not TemplatesNotFound:
            return False
        return z3.Or(self.n == 0, self.all_fail_before(self.n))

    def p_calls(self, pre, out):
        for e in A.calls(out, "_load_template"):
            if e.args[0] != self.env or len(e.args) != 3 or e.kwargs or e.args[2] is not self.globals:
                return False
        return True

    posts = [("first_loadable_name", p_first), ("arguments_passed_through", p_calls)]

    def concretize(self, model, pre, out):
        n = max(0, min(5, model_value(model, self.n)))
        items = []
        for i in range(n):
            ii = z3.IntVal(i)
            if model_value(model, isinst_fn(E.Template)(z3.Select(self.NM, ii))) is True:
                items.append("T")
            else:
                v = model_value(model, self.oc_at(ii))
                items.append(v if v in (0, 1, 2, 3, 4) else OUT_OTHER)
        return {"op": "select", "items": items, "parent": self.with_parent}

    def replay(self, w):
        return replay_dispatch(w)


class GetOrSelect(VC):
    prop = "C25"
    target = "jinja2.environment:Environment.get_or_select_template"

    def __init__(self):
        super().__init__("C25", "C25.get_or_select_template")

    def configure(self, I):
        install_unexpected(I)
        for m in ("get_template", "select_template"):
            I.specs[f"Environment.{m}"] = A.abstract_fn(m, raises=[TemplateNotFound])

    def setup(self, I, st):
        self.env = A.obj(st, jinja2.Environment, "self")
        self.x, self.parent, self.globals = sym("template_name_or_list", "obj"), sym("parent", "obj"), sym("globals", "obj")
        return [self.env, self.x, self.parent, self.globals], {}

    def p_dispatch(self, pre, out):
        """a name (or Undefined) -> get_template, a Template -> itself, anything else -> select_template"""
        if unexpected(out):
            return False
        x = self.x.t
        is_name = z3.Or(isinst_fn(str)(x), isinst_fn(Undefined)(x))
        is_t = isinst_fn(E.Template)(x)
        gt, sl = A.calls(out, "get_template"), A.calls(out, "select_template")
        calls = gt + sl
        if not calls:
            return z3.And(z3.Not(is_name), is_t) if out.returned and out.value is self.x else False
        if len(calls) != 1:
            return False
        ev = calls[0]
        if ev.args != (self.env, self.x, self.parent, self.globals) or ev.kwargs:
            return False
        if (out.value is not ev.result):
            return False
        return is_name if gt else z3.And(z3.Not(is_name), z3.Not(is_t))

    posts = [("dispatch", p_dispatch)]

    def concretize(self, model, pre, out):
        return {"op": "dispatch"}

    def replay(self, w):
        return replay_dispatch(w)


def replay_dispatch(w):
    """get_template / select_template / get_or_select_template on a real environment with a fake _load_template"""
    log, bad = [], False

    class Env(jinja2.Environment):
        def _load_template(self, name, globals):
            self.seen.append((name, globals))
            o = self.outcomes.get(name, OUT_TNF)
            if o == OUT_RETURN:
                return ("loaded", name)
            raise {OUT_TNF: TemplateNotFound(name), OUT_TNFS: TemplatesNotFound([name]), OUT_UNDEF: UndefinedError(name), OUT_OTHER: OtherError(name)}[o]

        def join_path(self, template, parent):
            return f"{parent}>{template}"

    def run(items, parent, how):
        env = Env()
        env.seen, env.outcomes = [], {}
        T = env.from_string("x")
        names = []
        for i, it in enumerate(items):
            if it == "T":
                names.append(T)
            else:
                nm = f"n{i}"
                names.append(nm)
                env.outcomes[f"{parent}>{nm}" if parent else nm] = it
        g = {"g": 1}
        want, want_seen = ("raise", "TemplatesNotFound"), []
        for nm in names:
            if nm is T:
                want = ("ok", T)
                break
            full = f"{parent}>{nm}" if parent else nm
            want_seen.append((full, g))
            o = env.outcomes[full]
            if o == OUT_RETURN:
                want = ("ok", ("loaded", full))
                break
            if o == OUT_OTHER:
                want = ("raise", "OtherError")
                break
        single = how == "get" or (how == "gos" and len(names) == 1)
        if single and names[0] is not T:
            # one name: the outcome of _load_template is the outcome
            o = env.outcomes[want_seen[0][0]]
            want = ("ok", ("loaded", want_seen[0][0])) if o == OUT_RETURN else ("raise", {OUT_TNF: "TemplateNotFound", OUT_TNFS: "TemplatesNotFound",
                                                                                          OUT_UNDEF: "UndefinedError", OUT_OTHER: "OtherError"}[o])
        if how == "get":
            got = run_native(lambda: env.get_template(names[0], parent, g))
        elif how == "select":
            got = run_native(lambda: env.select_template(names, parent, g))
        else:
            got = run_native(lambda: env.get_or_select_template(names if len(names) != 1 else names[0], parent, g))
        if got[:2] != want or env.seen != want_seen:
            return f"{how}({items!r}, parent={parent!r}): real={got[:2]!r} loads={env.seen!r}; spec={want!r} loads={want_seen!r}"
        return None

    family = [list(w["items"])] if w.get("items") is not None else []
    family += [list(p) for k in (1, 2, 3) for p in itertools.product(["T", 0, 1, 2, 3, 4], repeat=k) if k < 3 or p[0] in (1, 4)]
    for items in family:
        for parent in (None, "P"):
            for how in ("select", "gos") + (("get",) if len(items) == 1 else ()):
                if not items:
                    continue
                r = run(items, parent, how)
                if r:
                    return (True, r)
    env = Env()
    env.seen, env.outcomes = [], {}
    got = run_native(lambda: env.select_template([], None, None))
    if got[:2] != ("raise", "TemplatesNotFound"):
        return (True, f"select_template([]) -> {got!r}")
    return (False, "dispatch agrees with the statement on the witness and a family of small name lists")


# ----------------------------------------------------------------------------------------------
# bounded stand-in: histories on the real classes against a reference cache model
# ----------------------------------------------------------------------------------------------

class RefCache:
    """reference model (DESIGN Appendix A.4 + C25 statement): capacity c (0 = none, -1 = unbounded), LRU order"""

    def __init__(self, cap, auto_reload):
        self.cap, self.auto, self.order, self.val = cap, auto_reload, [], {}

    def get(self, key, current, has_check):
        """current: current source version or None (deleted) -> version served or TemplateNotFound"""
        if self.cap != 0 and key in self.val:
            self.order.remove(key)
            self.order.append(key)
            v = self.val[key]
            if not self.auto or not has_check or v == current:
                return v
        if current is None:
            return TemplateNotFound
        if self.cap != 0:
            if key in self.val:
                self.order.remove(key)
            elif self.cap > 0 and len(self.order) == self.cap:
                del self.val[self.order.pop(0)]
            self.order.append(key)
            self.val[key] = current
        return current


HIST_OPS = [("get", "a"), ("get", "b"), ("select", ("a", "b")), ("select", ("b", "a")), ("mod", "a"), ("mod", "b"), ("del", "a"), ("del", "b")]


def run_history(kind, cap, auto, ops, tmp=None):
    """-> None or a description of the first divergence"""
    src = {"a": 0, "b": 0}
    counter = itertools.count(1)
    has_check = kind != "function_plain"
    if kind == "dict":
        mapping = {n: f"{n}{v}" for n, v in src.items()}
        loader = L.DictLoader(mapping)
    elif kind in ("function", "function_plain"):
        def load_func(name):
            v = src.get(name)
            if v is None:
                return None
            text = f"{name}{v}"
            if kind == "function_plain":
                return text
            return text, None, (lambda: src.get(name) == v)
        loader = L.FunctionLoader(load_func)
    else:
        for n, v in src.items():
            with open(os.path.join(tmp, n), "w") as f:
                f.write(f"{n}{v}")
            os.utime(os.path.join(tmp, n), (1000, 1000))
        loader = L.FileSystemLoader(tmp)
    env = jinja2.Environment(loader=loader, cache_size=cap, auto_reload=auto)
    ref = RefCache(cap, auto)
    stamps = {}
    for step, (op, arg) in enumerate(ops):
        if op in ("mod", "old", "sub"):
            # "sub": the new content's mtime differs by less than a second from the previous one;  "old": the new content carries an OLDER mtime than the one loaded (restored backup / old checkout)
            src[arg] = next(counter)
            if kind == "dict":
                mapping[arg] = f"{arg}{src[arg]}"
            elif kind == "fs":
                p = os.path.join(tmp, arg)
                with open(p, "w") as f:
                    f.write(f"{arg}{src[arg]}")
                if op == "sub":
                    # saved again within the same second: a millisecond step from the current stamp
                    stamp = stamps.get(arg, 1000) + 0.001 * src[arg]
                else:
                    stamp = 1000 + src[arg] if op == "mod" else 1000 - src[arg]
                stamps[arg] = stamp
                os.utime(p, (stamp, stamp))
            continue
        if op == "del":
            src[arg] = None
            if kind == "dict":
                mapping.pop(arg, None)
            elif kind == "fs":
                try:
                    os.unlink(os.path.join(tmp, arg))
                except FileNotFoundError:
                    pass
            continue
        names = (arg,) if op == "get" else arg
        want = TemplateNotFound
        for n in names:
            r = ref.get(n, src[n], has_check)
            if r is not TemplateNotFound:
                want = f"{n}{r}"
                break
        try:
            t = env.get_template(arg) if op == "get" else env.select_template(list(arg))
            got = t.render()
        except TemplateNotFound:
            got = TemplateNotFound
        except Exception as ex:  # noqa
            got = ("raised", repr(ex))
        if got != want:
            return f"step {step} {op}({arg!r}): real={got!r} reference={want!r}"
        if cap != 0:
            keys = [k[1] if isinstance(k, tuple) and len(k) == 2 else repr(k) for k in (env.cache.keys() if cap < 0 else reversed(list(env.cache.keys())))]
            if sorted(keys) != sorted(ref.order) or (cap > 0 and (len(keys) > cap or keys != ref.order)):
                return f"step {step} {op}({arg!r}): cache holds {keys!r}, reference {ref.order!r} (capacity {cap})"
        elif env.cache is not None:
            return "size-0 cache is not None"
    return None


def bounded_histories(task, tier, seed):
    import shutil
    import tempfile
    t0 = time.time()
    # quick tier: full depth on DictLoader and FileSystemLoader, one less on the two FunctionLoader variants (pure volume)
    depth = (4 if task.loader_kind in ("dict", "fs") else 3) if tier == "quick" else 5
    n, rs = 0, []
    tmp = tempfile.mkdtemp(prefix="c25hist")
    try:
        for kind in (task.loader_kind,):
            d = depth if kind != "fs" else depth - 1
            for L_ in range(1, d + 1):
                for ops in itertools.product(HIST_OPS + ([("old", "a"), ("sub", "a")] if kind == "fs" else []), repeat=L_):
                    if ops[-1][0] not in ("get", "select"):
                        continue  # a history is only observed at a lookup
                    for cap in (0, 1, 2, -1):
                        for auto in (True, False):
                            n += 1
                            r = run_history(kind, cap, auto, ops, tmp)
                            if r:
                                w = {"op": "history", "kind": kind, "cap": cap, "auto_reload": auto, "ops": [list(o) if isinstance(o[1], str) else [o[0], list(o[1])] for o in ops]}
                                rs.append(Res(f"{task.name}.diverges", "refuted", "bounded", time.time() - t0,
                                              f"{kind} loader, cache_size={cap}, auto_reload={auto}, history {ops!r}: {r}", "bounded", w))
                                return rs
    finally:
        shutil.rmtree(tmp, ignore_errors=True)
    task.stats = {"cases": n}
    rs.append(Res(f"{task.name}.all", "bounded-ok", "bounded", time.time() - t0, f"{n} histories agree with the reference cache model", "bounded"))
    return rs


def replay_history(w):
    import shutil
    import tempfile
    if w.get("op") != "history":
        return (None, "no native replay")
    ops = [(o[0], o[1] if isinstance(o[1], str) else tuple(o[1])) for o in w["ops"]]
    tmp = tempfile.mkdtemp(prefix="c25hist")
    try:
        r = run_history(w["kind"], w["cap"], w["auto_reload"], ops, tmp)
    finally:
        shutil.rmtree(tmp, ignore_errors=True)
    return (bool(r), r or "history agrees with the reference model")


HIST_BOUND = ("all histories of length <= 4 (quick: 3 on the FunctionLoader variants; thorough 5; FileSystemLoader one less) ending in a lookup over 2 names with get / select([a,b]) / "
              "select([b,a]) / modify / delete, cache sizes 0, 1, 2, unbounded, auto_reload on/off, on DictLoader, FunctionLoader (with and "
              "without check) and FileSystemLoader (real files, forced mtime changes, newer, OLDER, and differing by a millisecond within the same second); rendered output and cache keys vs the reference model")


def hist_task(kind):
    t = FnTask("C25", f"C25.bounded.histories[{kind}]", bounded_histories, "bounded", replay_history)
    t.loader_kind = kind
    t.bound_text = HIST_BOUND
    return t


# ---- LRU order through the environment: hits made while the cache is NOT yet full must count as uses ----------

class StubTemplate:
    """what a loader's load() hands to the environment; cheap, so that long histories can be enumerated"""

    def __init__(self, name, version, src):
        self.name, self.version, self._src, self.globals = name, version, src, {}

    @property
    def is_up_to_date(self):
        return self._src.get(self.name) == self.version


class StubLoader(jinja2.BaseLoader):
    """counts how often the environment comes back to the loader (= the template was not served from the cache)"""

    def __init__(self, src):
        self.src, self.loads = src, []

    def load(self, environment, name, globals=None):
        v = self.src.get(name)
        if v is None:
            raise TemplateNotFound(name)
        self.loads.append(name)
        return StubTemplate(name, v, self.src)


LRU_NAMES = "abcd"
LRU_OPS = [("get", n) for n in LRU_NAMES] + [("mod", "a")]


def run_lru_history(cap, auto, ops):
    """statement: 'a cache of size n never holds more than n templates and evicts the least recently used one',
    where every lookup that is served from the cache is a use -- also while the cache still has free slots.
    Oracle: the reference LRU map says which lookups must go back to the loader, which object is served,
    and the recency order of the cached names."""
    src = {n: 0 for n in LRU_NAMES}
    loader = StubLoader(src)
    env = jinja2.Environment(loader=loader, cache_size=cap, auto_reload=auto)
    ref = RefCache(cap, auto)
    served = {}
    counter = itertools.count(1)
    for step, (op, n) in enumerate(ops):
        if op == "mod":
            src[n] = next(counter)
            continue
        before = list(ref.order)
        was_cached = n in ref.val and (not auto or ref.val[n] == src[n])
        want_version = ref.get(n, src[n], True)
        n_loads = len(loader.loads)
        t = env.get_template(n)
        reloaded = len(loader.loads) != n_loads
        if reloaded == was_cached:
            return (f"step {step} get({n!r}) with reference order (least recent first) {before!r}, capacity {cap}: "
                    + (f"{n!r} was the victim of an earlier eviction although it was not the least recently used: the loader was asked again"
                       if reloaded else f"{n!r} was still served from the cache although it should have been evicted / reloaded"))
        if t.version != want_version or (was_cached and served.get(n) is not t):
            return f"step {step} get({n!r}): served version {t.version!r} (same object: {served.get(n) is t}), reference {want_version!r}"
        served[n] = t
        keys = [k[1] if isinstance(k, tuple) and len(k) == 2 else repr(k) for k in reversed(list(env.cache.keys()))]
        if len(keys) > cap or keys != ref.order:
            return f"step {step} get({n!r}): cache order (least recent first) {keys!r}, reference {ref.order!r} (capacity {cap})"
    return None


def bounded_lru_order(task, tier, seed):
    t0 = time.time()
    depth = 5 if tier == "quick" else 7
    n, rs = 0, []
    for cap in (3, 2, 1):
        for L_ in range(1, depth + 1):
            for ops in itertools.product(LRU_OPS, repeat=L_):
                if ops[-1][0] != "get":
                    continue
                for auto in (True, False):
                    n += 1
                    r = run_lru_history(cap, auto, ops)
                    if r:
                        w = {"op": "lru_history", "cap": cap, "auto_reload": auto, "ops": [list(o) for o in ops]}
                        rs.append(Res(f"{task.name}.diverges", "refuted", "bounded", time.time() - t0,
                                      f"cache_size={cap}, auto_reload={auto}, history {ops!r}: {r}", "bounded", w))
                        return rs
    task.stats = {"cases": n}
    rs.append(Res(f"{task.name}.all", "bounded-ok", "bounded", time.time() - t0, f"{n} lookup histories evict exactly the least recently used template", "bounded"))
    return rs


def replay_lru_history(w):
    if w.get("op") != "lru_history":
        return replay_history(w)
    ops = [tuple(o) for o in w["ops"]]
    r = run_lru_history(w["cap"], w["auto_reload"], ops)
    if not r:
        # the textbook case: a hit while a slot is still free, then two evictions
        for auto in (True, False):
            r = r or run_lru_history(3, auto, [("get", x) for x in "abacdab"])
    return (bool(r), r or "history agrees with the reference LRU model")


lru_order = FnTask("C25", "C25.bounded.lru_order", bounded_lru_order, "bounded", replay_lru_history)
lru_order.bound_text = ("all histories of length <= 5 (thorough 7) ending in a lookup over get(a|b|c|d) and modify(a), cache sizes 1, 2, 3, auto_reload on/off, "
                        "through Environment.get_template with a counting loader: which lookups go back to the loader, the object served and the "
                        "recency order of the cache vs the reference LRU model (includes hits while the cache is not yet full followed by evictions)")


def capacity_tasks():
    """C25.capacity: the LRUCache operations the template cache uses, under the contracts of C26 (same VCs, run here so
    that the statement's 'never more than n, evicts the least recently used one, a hit is a use' clause is decided by C25)"""
    from contracts import c26
    ts = [c26.GetItem(), c26.SetItem(), c26.Get(), c26.SetDefault(), c26.DelItem(), c26.Contains(), c26.Len(), c26.Init()]
    for t in ts:
        t.name = t.name.replace("C26.", "C25.capacity.")
        t.prop = "C25"
    return ts




TASKS = [
    LoadTemplate("none"), LoadTemplate("lru"), LoadTemplate("dict"),
    CreateCache(), CopyCache("none"), CopyCache("dict"), CopyCache("lru"),
    IsUpToDate(True), IsUpToDate(False), FromCode(), BaseLoad(),
    DictLoaderCheck("get_source"), DictLoaderCheck("uptodate"), FunctionLoaderVC(), FSCheck(), PkgCheck(),
    GetTemplate(False), GetTemplate(True), SelectTemplate(False), SelectTemplate(True), GetOrSelect(),
    hist_task("dict"), hist_task("function"), hist_task("function_plain"), hist_task("fs"), lru_order,
] + capacity_tasks()

META = {
    "level": "proof",
    "explanation": "Environment._load_template is executed symbolically over an abstract cache (dict semantics, or the LRUCache contracts proved in C26): "
                   "the cached template is returned iff one is stored under (weakref(loader), name) and (auto_reload is off or its check says up to date); "
                   "otherwise loader.load is called exactly once and its result stored under that key; without a cache every call loads. create_cache / "
                   "copy_cache give no cache / a dict / an LRUCache(n). The up-to-date checks of DictLoader, FunctionLoader, FileSystemLoader and "
                   "PackageLoader are the real closures, run after an arbitrary change of the mapping / file system: true iff the source is unchanged, "
                   "false (never an exception) after deletion. BaseLoader.load / Template.from_code / is_up_to_date carry the loader's check to the "
                   "cached template; get_template / select_template / get_or_select_template go through _load_template. The induction over histories "
                   "is a stated lemma, exercised by a bounded stand-in on the real classes.",
    "assumptions": [
        "the LRUCache contracts used as callee spec of the cache (get refreshes recency, __setitem__ evicts only the least recently used key) are "
        "the C26 VCs, re-run here as C25.capacity.*",
        "weakref.ref(a) == weakref.ref(b) iff a is b (loaders alive); A-EQ template names compare as abstract atoms",
        "FS-STABLE inside one call: a file does not vanish between os.path.isfile and os.path.getmtime of one PackageLoader check",
        "template sources in a DictLoader mapping are strings (never None)",
        "abstract loader.load is deterministic during one call and raises TemplateNotFound or some other exception",
    ],
    "trusted_base": ["z3 5.1 / cvc5 1.0.3", "pyvc symbolic executor", "dependency specs: dict, weakref.ref, os.path.getmtime/isfile, open/read, exec"],
}
