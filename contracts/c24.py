"""C24  HTML-producing filters cannot be used to inject markup.

Proof part (VC contracts on the real function bodies):
  htmlsafe_json_dumps / do_tojson   no < > & ' in the output (dependency spec of str.replace), Markup result,
                                    the policies' dumps function and kwargs are used and not modified
  do_xmlattr                        every emitted item is escape(key)="escape(value)", keys that could leave the
                                    attribute name raise ValueError, None/undefined skipped (unbounded, loop invariant)
  do_forceescape                    escape(str(__html__() form))
  Markup-argument clause            indent / replace / join / format / truncate / wordwrap: ghost-tag analysis over
                                    the Markup combinator dependency specs
Bounded stand-ins: tojson round trip, xmlattr, forceescape, the Markup-argument clause on the real markupsafe, urlize.
"""
from __future__ import annotations

import ast
import itertools
import json
import re
import time

import z3

from pyvc.contract import VC, Res, FnTask
from pyvc.values import State, Sym, Ref, BoundMethod, HObj, HList, HDict, Exc, SSeq, Obj, fresh, fresh_name, sym, Unsupported
from pyvc.smt import to_term, model_value, host_const
from pyvc.interp import Raised
from pyvc.stmts import LoopSpec
from pyvc import abstract as A

import markupsafe
import jinja2
import jinja2.filters as F
import jinja2.utils as U
from jinja2.nodes import EvalContext
from jinja2.exceptions import FilterArgumentError

from contracts.c23 import Bounded, strings, seeded

FOUR = "<>&'"
has_char = {c: z3.Function(f"str_contains[{c}]", Obj, z3.BoolSort()) for c in FOUR}


def markup_ctor_spec(I, st, args, kwargs, node):
    """Markup(x): the same text, tagged safe."""
    v = args[0] if args else ""
    if isinstance(v, Sym):
        return [(st, v.with_tags("markup"))]
    return [(st, Sym(to_term(v, "obj"), "obj", {"markup", "literal"}))]


# =====================================================================================
# htmlsafe_json_dumps : character clause
# =====================================================================================

class TojsonChars(VC):
    """The result contains none of < > & ' whatever `dumps` returned, and is Markup.
    Dependency spec of str.replace(old, new) for a one-character `old`:
      old is in the result iff it was in the receiver and `new` contains it;
      another character c is in the result iff it was in the receiver, or old was and c is in `new`."""
    prop = "C24"
    target = "jinja2.utils:htmlsafe_json_dumps"

    def __init__(self, custom_dumps):
        self.custom = custom_dumps
        super().__init__("C24", "C24.tojson" + (".custom_dumps" if custom_dumps else ""))

    def configure(self, I):
        def dumps_spec(I_, st, args, kwargs, node):
            r = fresh("dumped", "obj", {"jsonstr"})
            A.call_event(st, "dumps", args, kwargs, r, node)
            return [(st, r)]

        I.specs[("fn", id(json.dumps))] = dumps_spec

        def call_obj(I_, st, args, kwargs, node):
            if args[0] is self.dumps:
                return dumps_spec(I_, st, args[1:], kwargs, node)
            return None

        I.specs["call_obj"] = call_obj

        def getattr_obj(I_, st, args, kwargs, node):
            o, name = args
            if isinstance(o, Sym) and "jsonstr" in o.tags:
                return [(st, BoundMethod(o, name))]
            return None

        I.specs["getattr_obj"] = getattr_obj

        def method_obj(I_, st, args, kwargs, node):
            recv, name = args[0], args[1]
            if name != "replace" or "jsonstr" not in recv.tags:
                return None
            old, new = args[2], args[3]
            if not (isinstance(old, str) and len(old) == 1 and isinstance(new, str) and len(args) == 4):
                raise Unsupported("str.replace: only (one-character old, literal new) is specified", node)
            r = fresh("replaced", "obj", recv.tags)
            for c in FOUR:
                if c == old:
                    st.assume(has_char[c](r.t) == z3.And(has_char[c](recv.t), c in new))
                else:
                    had_old = has_char[old](recv.t) if old in FOUR else z3.Bool(fresh_name("had_old"))
                    st.assume(has_char[c](r.t) == z3.Or(has_char[c](recv.t), z3.And(had_old, c in new)))
            A.call_event(st, "str.replace", args, kwargs, r, node)
            return [(st, r)]

        I.specs["method_obj"] = method_obj
        I.specs[("fn", id(markupsafe.Markup))] = markup_ctor_spec

    def setup(self, I, st):
        self.obj = sym("obj", "obj")
        self.dumps = sym("dumps_fn", "obj") if self.custom else None
        self.kw = {"indent": sym("indent", "obj"), "sort_keys": True}
        return [self.obj, self.dumps], dict(self.kw)

    def p_chars(self, pre, out):
        if out.raised:
            return False
        r = to_term(out.value, "obj")
        return z3.And(*[z3.Not(has_char[c](r)) for c in FOUR])

    def p_markup(self, pre, out):
        return (not out.raised) and isinstance(out.value, Sym) and "markup" in out.value.tags

    def p_dumps(self, pre, out):
        """exactly one serialisation, of `obj`, with the caller's keyword arguments; the result derives from it
        through replacements only"""
        if out.raised:
            return False
        d = A.calls(out, "dumps")
        if len(d) != 1 or list(d[0].args) != [self.obj] or d[0].kwargs != self.kw:
            return False
        cur = d[0].result
        for e in A.calls(out, "str.replace"):
            if e.args[0] is not cur:
                return False
            cur = e.result
        return z3.eq(out.value.t, cur.t)

    posts = [("chars", p_chars), ("markup", p_markup), ("serialises_obj", p_dumps)]

    def concretize(self, model, pre, out):
        d = A.calls(out, "dumps")
        present = ""
        if d:
            present = "".join(c for c in FOUR if model_value(model, has_char[c](d[0].result.t)) is True)
        return {"value": present or FOUR, "custom_dumps": self.custom}

    def replay(self, w):
        return check_tojson({"value": w["value"], "indent": None, "via": "utils", "custom_dumps": w.get("custom_dumps", False)})


def _compact_dumps(obj, **kw):
    kw.pop("separators", None)
    return json.dumps(obj, separators=(",", ":"), **kw)


def check_tojson(w):
    """Native oracle: none of the four characters, Markup, and json.loads gives the value back."""
    v, indent = w["value"], w.get("indent")
    if w.get("via") == "filter":
        env = jinja2.Environment()
        if w.get("custom_dumps"):
            env.policies["json.dumps_function"] = _compact_dumps
        before = dict(env.policies["json.dumps_kwargs"])
        r = F.do_tojson(EvalContext(env), v, indent)
        if env.policies["json.dumps_kwargs"] != before:
            return (True, f"tojson({v!r}, indent={indent}) modified policies['json.dumps_kwargs'] to {env.policies['json.dumps_kwargs']!r}")
    else:
        kw = {} if indent is None else {"indent": indent}
        r = U.htmlsafe_json_dumps(v, dumps=_compact_dumps if w.get("custom_dumps") else None, **kw)
    bad_chars = [c for c in FOUR if c in r]
    if bad_chars:
        return (True, f"tojson({v!r}) = {str(r)!r} contains {bad_chars}")
    if not isinstance(r, markupsafe.Markup):
        return (True, f"tojson({v!r}) is not Markup")
    try:
        back = json.loads(str(r))
    except Exception as ex:  # noqa
        return (True, f"tojson({v!r}) = {str(r)!r} does not parse: {ex}")
    if indent is not None and indent and isinstance(v, (list, dict)) and v and "\n" not in r and not w.get("custom_dumps"):
        return (True, f"tojson({v!r}, indent={indent}) = {str(r)!r} ignores indent")
    return (back != v, f"tojson({v!r}, indent={indent}) = {str(r)!r} parses back to {back!r}")


class Tojson(VC):
    """do_tojson hands value to htmlsafe_json_dumps with the policies' dumps function and kwargs (plus indent),
    returns its result, and leaves the policies' kwargs dict as it was."""
    prop = "C24"
    target = "jinja2.filters:do_tojson"

    def __init__(self, with_indent):
        self.with_indent = with_indent
        super().__init__("C24", "C24.tojson.filter" + (".indent" if with_indent else ""))

    def configure(self, I):
        I.specs["jinja2.utils:htmlsafe_json_dumps"] = A.abstract_fn("htmlsafe_json_dumps", returns="obj", tags=("markup",))

    def setup(self, I, st):
        self.value, self.dumps, self.indent = sym("value", "obj"), sym("dumps_fn", "obj"), sym("indent", "obj")
        self.sk = sym("sort_keys", "obj")
        self.kwd = st.alloc(HDict(items={"sort_keys": self.sk}), initial=True)
        pol = st.alloc(HDict(items={"json.dumps_function": self.dumps, "json.dumps_kwargs": self.kwd}), initial=True)
        env = A.obj(st, jinja2.Environment, "env", fields={"policies": pol})
        ctx = A.obj(st, EvalContext, "eval_ctx", fields={"environment": env, "autoescape": sym("autoescape", "bool")})
        if self.with_indent:
            st.assume(to_term(self.indent, "obj") != host_const(None))
        return [ctx, self.value, self.indent if self.with_indent else None], {}

    def p_call(self, pre, out):
        if out.raised:
            return False
        ev = A.calls(out, "htmlsafe_json_dumps")
        if len(ev) != 1 or out.value is not ev[0].result:
            return False
        e = ev[0]
        want = {"dumps": self.dumps, "sort_keys": self.sk}
        if self.with_indent:
            want["indent"] = self.indent
        return list(e.args) == [self.value] and e.kwargs == want

    def p_frame(self, pre, out):
        return out.st.get(self.kwd).items == {"sort_keys": self.sk}

    posts = [("delegates", p_call), ("policies_unchanged", p_frame)]

    def concretize(self, model, pre, out):
        return {"value": {"b": [1, "<"], "a": None}, "indent": 2 if self.with_indent else None, "via": "filter"}

    def replay(self, w):
        v, d = check_tojson(w)
        if v:
            return v, d
        # sort_keys policy honoured, custom dumps function honoured
        env = jinja2.Environment()
        r = F.do_tojson(EvalContext(env), {"b": 1, "a": 2}, w.get("indent"))
        if str(r).index('"a"') > str(r).index('"b"'):
            return (True, f"policies['json.dumps_kwargs'] (sort_keys) not passed: {str(r)!r}")
        env.policies["json.dumps_function"] = lambda o, **kw: "CUSTOM"
        r = F.do_tojson(EvalContext(env), 1, w.get("indent"))
        return (str(r) != "CUSTOM", f"policies['json.dumps_function'] used: {str(r)!r}")


# =====================================================================================
# do_xmlattr
# =====================================================================================
I_ = z3.IntSort()
# String-free encoding (z3's sequence solver does not honour its timeout on satisfiable queries that mix strings,
# arrays and quantifiers): every text is an opaque atom, texts are built by uninterpreted constructors.
f_esc = z3.Function("markupsafe_escape", Obj, Obj)              # escape(x)
f_str = z3.Function("py_str", Obj, Obj)                         # str(x)
f_cat = z3.Function("str_concat", Obj, Obj, Obj)                # a + b
f_bad_key = z3.Function("attr_key_re_search", Obj, z3.BoolSort())   # _attr_key_re.search(key) is not None
f_join_sp = z3.Function("str_join_space", z3.ArraySort(I_, Obj), I_, Obj)  # " ".join(list)
ITEM_TEMPLATE = '{}="{}"'
_MATCH = object()  # a match object (anything that is not None)


def fstring_fn(template, n):
    """the text of an f-string with the literal parts of `template` and n formatted values"""
    return z3.Function("fstring[" + template + "]", *([Obj] * n + [Obj]))


def _attr_key_search_stub(*a):
    raise AssertionError("ghost function")


class _AbstractMapping(__import__("collections").abc.Mapping):
    """a Mapping known only through .items() (a finite sequence of key/value pairs); never instantiated"""


class XmlAttr(VC):
    """For a mapping with any number of items (key_i, value_i), i < N, with
         emit(i) = value_i is neither None nor Undefined,
       the result is  sp + " ".join(f'{escape(key_i)}="{escape(value_i)}"' for emitted i, in order)
       (sp = " " iff autospace and the joined text is non-empty), Markup iff autoescape;
       ValueError iff some emitted key matches _attr_key_re (C24.xmlattr.key_re states what that regex covers)."""
    prop = "C24"
    target = "jinja2.filters:do_xmlattr"
    timeout_quick = 20000

    def __init__(self):
        super().__init__("C24", "C24.xmlattr")

    # ---- spec vocabulary
    def emit(self, i):
        v = z3.Select(self.V, i)
        from pyvc.ops import isinst_fn
        return z3.Not(z3.Or(v == host_const(None), isinst_fn(F.Undefined)(v)))

    def fmt(self, i):
        return fstring_fn(ITEM_TEMPLATE, 2)(f_str(f_esc(z3.Select(self.K, i))), f_str(f_esc(z3.Select(self.V, i))))

    def configure(self, I):
        import types
        c = self

        def items(I_, st, args, kwargs, node):
            return [(st, SSeq((c.K, c.V), c.N, ("obj", "obj")))]

        I.specs["_AbstractMapping.items"] = items

        def attr_hook(I_, st, obj, name, node):
            if obj is F._attr_key_re and name == "search":
                return [(st, _attr_key_search_stub)]
            return None

        I.attr_hook = attr_hook

        def search(I_, st, args, kwargs, node):
            out = []
            for s1, b in I_.fork_bool(st, f_bad_key(to_term(args[0], "obj"))):
                A.call_event(s1, "_attr_key_re.search", args, kwargs, _MATCH if b else None, node)
                out.append((s1, _MATCH if b else None))
            return out

        I.specs[("fn", id(_attr_key_search_stub))] = search

        def esc(I_, st, args, kwargs, node):
            return [(st, Sym(f_esc(to_term(args[0], "obj")), "obj", {"text", "markup", "escaped"}))]

        I.specs[("fn", id(F.escape))] = esc
        I.specs[("fn", id(markupsafe.Markup))] = markup_ctor_spec
        I.specs["str_obj"] = lambda I_, st, args, kwargs, node: [(st, Sym(f_str(args[0].t), "obj", {"text"}))]

        def joined_str(self_, e, st, fr):
            """f-string: template (literal parts) applied to str() of the values"""
            exprs, template = [], ""
            for v in e.values:
                if isinstance(v, ast.Constant):
                    template += v.value.replace("{", "{{").replace("}", "}}")
                else:
                    if v.format_spec is not None:
                        raise Unsupported("format spec in f-string", e)
                    template += "{}" if v.conversion == -1 else "{!" + chr(v.conversion) + "}"
                    exprs.append(v.value)

            def fin(s1, vals):
                results = [(s1, [])]
                for x in vals:
                    nxt = []
                    for s2, acc in results:
                        for s3, sv in self_.call(s2, str, [x], {}, e):
                            nxt.append((s3, sv if isinstance(sv, Raised) else acc + [sv]))
                    results = nxt
                out = []
                for s2, acc in results:
                    if isinstance(acc, Raised):
                        out.append((s2, acc))
                    else:
                        out.append((s2, Sym(fstring_fn(template, len(acc))(*[to_term(x, "obj") for x in acc]), "obj", {"text"})))
                return out

            from pyvc.interp import seq
            return seq(self_.ev_list(exprs, st, fr), fin)

        I.ev_JoinedStr = types.MethodType(joined_str, I)

        def join(I_, st, args, kwargs, node):
            recv, lst = args
            if recv != " ":
                raise Unsupported("str.join: only the one-space separator is specified here", node)
            arr, n = c.list_terms(st, lst)
            r = Sym(f_join_sp(arr, n), "obj", {"text"})
            A.call_event(st, "str.join", args, kwargs, r, node)
            return [(st, r)]

        I.specs["str.join"] = join
        I.specs[("binop", ast.Add)] = lambda I_, st, args, kwargs, node: [(st, Sym(f_cat(to_term(args[0], "obj"), to_term(args[1], "obj")), "obj", {"text"}))]

        def inv(ctx):
            arr, n = c.list_terms(ctx.st, ctx.local("items"))
            k = ctx.k
            i = z3.Int(fresh_name("i"))
            return [
                c.guard(n == c.cnt(k)),
                c.guard(z3.ForAll([i], z3.Implies(z3.And(0 <= i, i < k, c.emit(i)), z3.Select(arr, c.cnt(i)) == c.fmt(i)))),
                c.guard(z3.ForAll([i], z3.Implies(z3.And(0 <= i, i < k, c.emit(i)), z3.Not(f_bad_key(z3.Select(c.K, i)))))),
            ]

        def heap(st, local):
            h = st.get(local["items"])
            h.items = None
            h.arr = z3.Const(fresh_name("items_arr"), z3.ArraySort(I_, Obj))
            h.n = z3.Int(fresh_name("items_n"))
            h.k = "obj"

        I.loops[("do_xmlattr", 0)] = LoopSpec(inv, havoc={}, heap=heap, name="items_loop")

    def list_terms(self, st, ref):
        h = st.get(ref)
        if h.concrete:
            arr = z3.K(I_, z3.Const("no_item", Obj))
            for j, x in enumerate(h.items):
                arr = z3.Store(arr, j, to_term(x, "obj"))
            return arr, z3.IntVal(len(h.items))
        return h.arr, h.n

    def setup(self, I, st):
        self.K = z3.Const("keys", z3.ArraySort(I_, Obj))
        self.V = z3.Const("values", z3.ArraySort(I_, Obj))
        self.N = z3.Int("n_items")
        self.cnt = z3.Function("emitted_before", I_, I_)  # ghost: number of emitted items among the first i
        i, j = z3.Ints("ci cj")
        step = lambda t: z3.If(self.emit(t), 1, 0)  # noqa: E731
        st.assume(self.N >= 0, self.cnt(0) == 0)
        # Every quantified fact is guarded by the ghost switch G (a free Boolean): obligations are proved in the form
        # pc => (G => goal), which for G = true is the intended statement, while the satisfiability queries of the path
        # exploration can take G = false and stay quantifier-free (z3 does not honour its timeout on satisfiable
        # quantified queries here).
        self.G = z3.Bool("ghost_quantified_facts")
        # definition of the ghost counter, and its monotonicity (a consequence by induction on j - i)
        st.assume(self.guard(z3.ForAll([i], z3.Implies(i >= 0, self.cnt(i + 1) == self.cnt(i) + step(i)), patterns=[self.cnt(i + 1)])))
        st.assume(self.guard(z3.ForAll([i, j], z3.Implies(z3.And(0 <= i, i < j), self.cnt(i) + step(i) <= self.cnt(j)),
                                       patterns=[z3.MultiPattern(self.cnt(i), self.cnt(j))])))
        # requires: keys are non-empty strings (the empty key, which cannot form an attribute name at all, is decided
        # quantifier-free by C24.xmlattr.items1 / items2)
        from pyvc.interp import InterpBase
        st.assume(self.guard(z3.ForAll([i], z3.Implies(z3.And(0 <= i, i < self.N), InterpBase.truthy_fn(z3.Select(self.K, i))))))
        self.d = st.alloc(HObj(_AbstractMapping), initial=True)
        self.autospace, self.autoescape = sym("autospace", "bool"), sym("autoescape", "bool")
        ctx = A.obj(st, EvalContext, "eval_ctx", fields={"autoescape": self.autoescape})
        return [ctx, self.d, self.autospace], {}

    def guard(self, f):
        return z3.Implies(self.G, f)

    def bad_emitted(self):
        i = z3.Int(fresh_name("bi"))
        return z3.Exists([i], z3.And(0 <= i, i < self.N, self.emit(i), f_bad_key(z3.Select(self.K, i))))

    def p_errors(self, pre, out):
        if out.raised:
            if out.value.cls is not ValueError:
                return False
            return self.guard(self.bad_emitted())
        return self.guard(z3.Not(self.bad_emitted()))

    def p_items(self, pre, out):
        if out.raised:
            return None
        ev = A.calls(out, "str.join")
        if len(ev) != 1:
            return False
        arr, n = self.list_terms(out.st, ev[0].args[1])
        i = z3.Int(fresh_name("i"))
        return self.guard(z3.And(n == self.cnt(self.N),
                                 z3.ForAll([i], z3.Implies(z3.And(0 <= i, i < self.N, self.emit(i)), z3.Select(arr, self.cnt(i)) == self.fmt(i)))))

    def p_result(self, pre, out):
        if out.raised:
            return None
        ev = A.calls(out, "str.join")
        if len(ev) != 1:
            return False
        J = ev[0].result.t
        r = to_term(out.value, "obj")
        from pyvc.interp import InterpBase
        nonempty = InterpBase.truthy_fn(J)
        return r == z3.If(z3.And(self.autospace.t, nonempty), f_cat(to_term(" ", "obj"), J), J)

    def p_markup(self, pre, out):
        if out.raised:
            return None
        tagged = isinstance(out.value, Sym) and "markup" in out.value.tags
        return self.autoescape.t if tagged else z3.Not(self.autoescape.t)

    posts = [("errors", p_errors), ("items", p_items), ("result", p_result), ("markup_iff_autoescape", p_markup)]

    def concretize(self, model, pre, out):
        n = max(0, min(4, model_value(model, self.N)))
        items = []
        for i in range(n):
            emit = model_value(model, self.emit(z3.IntVal(i))) is True
            bad = model_value(model, f_bad_key(z3.Select(self.K, i))) is True
            v = model.eval(z3.Select(self.V, i), model_completion=True)
            is_none = str(v) == str(model.eval(host_const(None), model_completion=True))
            items.append([f"k {i}" if bad else f"k{i}", f"v<{i}>\"" if emit else (None if is_none else "UNDEFINED")])
        return {"items": items, "autospace": bool(model_value(model, self.autospace.t)), "autoescape": bool(model_value(model, self.autoescape.t))}

    def replay(self, w):
        v, d = check_xmlattr(w)
        if v:
            return v, d
        # structural refutations carry no usable model: run the fixed family of cases
        for w2 in cases_xmlattr("quick", 0):
            v, d = check_xmlattr(w2)
            if v:
                return v, d
        return False, d


class XmlAttrSmall(XmlAttr):
    """The same contract for concrete mappings of n = 1, 2 items with symbolic keys and values (loop unrolled,
    quantifier-free): gives concrete counterexamples where the unbounded contract can only time out."""

    def __init__(self, n):
        self.n_items = n
        VC.__init__(self, "C24", f"C24.xmlattr.items{n}")

    def setup(self, I, st):
        n = self.n_items
        self.keys = [sym(f"key{i}", "obj") for i in range(n)]
        self.vals = [sym(f"value{i}", "obj") for i in range(n)]
        self.K = z3.K(I_, z3.Const("no_key", Obj))
        self.V = z3.K(I_, z3.Const("no_value", Obj))
        for i in range(n):
            self.K = z3.Store(self.K, i, self.keys[i].t)
            self.V = z3.Store(self.V, i, self.vals[i].t)
        self.N = z3.IntVal(n)
        self.G = z3.BoolVal(True)
        st.assume(z3.Distinct(*[k.t for k in self.keys]) if n > 1 else z3.BoolVal(True))
        if n > 1:  # distinct strings: at most one of them is empty
            st.assume(z3.Or(*[z3.Not(self.empty(i)) for i in range(n)]))
        self.d = st.alloc(HDict(items={k: v for k, v in zip(self.keys, self.vals)}), initial=True)
        self.autospace, self.autoescape = sym("autospace", "bool"), sym("autoescape", "bool")
        ctx = A.obj(st, EvalContext, "eval_ctx", fields={"autoescape": self.autoescape})
        return [ctx, self.d, self.autospace], {}

    def empty(self, i):
        from pyvc.interp import InterpBase
        return z3.Not(InterpBase.truthy_fn(self.keys[i].t))

    def bad_emitted(self):
        # a key "could leave the attribute name" if it contains a terminator (the regex) or is empty: an empty key
        # never enters the attribute-name state, `="value"` is then tokenised as names and further attributes
        return z3.Or(*[z3.And(self.emit(z3.IntVal(i)), z3.Or(f_bad_key(self.keys[i].t), self.empty(i))) for i in range(self.n_items)])

    def finding_key(self, res):
        w = res.witness or {}
        if any(k == "" and v not in (None, "UNDEFINED") for k, v in w.get("items", [])):
            return "empty-key"
        return json.dumps(w, sort_keys=True)

    def p_items(self, pre, out):
        if out.raised:
            return None
        ev = A.calls(out, "str.join")
        if not ev:
            # " ".join([]) is evaluated by the engine itself: nothing was emitted
            return z3.And(*[z3.Not(self.emit(z3.IntVal(i))) for i in range(self.n_items)])
        if len(ev) != 1:
            return False
        arr, n = self.list_terms(out.st, ev[0].args[1])
        cases = []
        for pattern in itertools.product((False, True), repeat=self.n_items):
            cond = z3.And(*[self.emit(z3.IntVal(i)) == z3.BoolVal(b) for i, b in enumerate(pattern)])
            want = [self.fmt(z3.IntVal(i)) for i, b in enumerate(pattern) if b]
            cases.append(z3.Implies(cond, z3.And(n == len(want), *[z3.Select(arr, j) == w for j, w in enumerate(want)])))
        return z3.And(*cases)

    def p_result(self, pre, out):
        if not out.raised and not A.calls(out, "str.join"):
            return to_term(out.value, "obj") == to_term("", "obj")
        return XmlAttr.p_result(self, pre, out)

    posts = [("errors", XmlAttr.p_errors), ("items", p_items), ("result", p_result), ("markup_iff_autoescape", XmlAttr.p_markup)]

    def concretize(self, model, pre, out):
        items = []
        for i in range(self.n_items):
            emit = model_value(model, self.emit(z3.IntVal(i))) is True
            bad = model_value(model, f_bad_key(self.keys[i].t)) is True
            v = model.eval(self.vals[i].t, model_completion=True)
            is_none = str(v) == str(model.eval(host_const(None), model_completion=True))
            key = "" if model_value(model, self.empty(i)) is True else (f"k {i}" if bad else f"k{i}")
            items.append([key, f"v<{i}> x=y\"" if emit else (None if is_none else "UNDEFINED")])
        return {"items": items, "autospace": bool(model_value(model, self.autospace.t)), "autoescape": bool(model_value(model, self.autoescape.t))}


ATTR_TERMINATORS = " \t\n\r\x0c/>="  # characters that end an attribute name (HTML spec 13.2.5.33) plus the documented ones


def html_escape(x):
    """MarkupSafe escaping, written out: & < > ' " ; objects with __html__ are used as they are"""
    if hasattr(x, "__html__"):
        return str(x.__html__())
    return str(x).replace("&", "&amp;").replace("<", "&lt;").replace(">", "&gt;").replace("'", "&#39;").replace('"', "&#34;")


def spec_xmlattr(items, autospace, autoescape):
    """-> ('raise',) | ('either',) | ('ok', text, is_markup)"""
    from jinja2 import Undefined
    emitted = [(k, v) for k, v in items if v is not None and not isinstance(v, Undefined)]
    if any(c in k for k, _ in emitted for c in ATTR_TERMINATORS) or any(k == "" for k, _ in emitted):
        return ("raise",)  # the empty key cannot form an attribute name: ="v" is tokenised as names / further attributes
    if any(c.isspace() for k, _ in emitted for c in k):
        return ("either",)  # other white space: rejecting it is allowed ("keys with spaces are not allowed")
    rv = " ".join(f'{html_escape(k)}="{html_escape(v)}"' for k, v in emitted)
    if autospace and rv:
        rv = " " + rv
    return ("ok", rv, bool(autoescape))


def _xml_value(v):
    from jinja2 import Undefined
    if v == "UNDEFINED":
        return Undefined(name="missing")
    if isinstance(v, dict) and "markup" in v:
        return markupsafe.Markup(v["markup"])
    return v


def check_xmlattr(w):
    items = [(k, _xml_value(v)) for k, v in w["items"]]
    d = dict(items)
    items = list(d.items())
    env = jinja2.Environment()
    ctx = EvalContext(env)
    ctx.autoescape = bool(w["autoescape"])
    want = spec_xmlattr(items, w["autospace"], w["autoescape"])
    try:
        r = F.do_xmlattr(ctx, d, w["autospace"])
    except ValueError as ex:
        return (want[0] not in ("raise", "either"), f"xmlattr({w['items']!r}) raised ValueError({ex})")
    except Exception as ex:  # noqa
        return (True, f"xmlattr({w['items']!r}) raised {type(ex).__name__}: {ex}")
    if want[0] == "raise":
        return (True, f"xmlattr({w['items']!r}) = {str(r)!r}: a key that can leave the attribute name was accepted")
    if want[0] == "either":
        return (False, f"xmlattr({w['items']!r}) = {str(r)!r} (white space other than the attribute-name terminators in a key)")
    bad = str(r) != want[1] or isinstance(r, markupsafe.Markup) != want[2]
    return (bad, f"xmlattr({w['items']!r}, autospace={w['autospace']}, autoescape={w['autoescape']}) = {r!r}, specification {want[1]!r} markup={want[2]}")


XML_KEY_ALPHA = ["a", " ", "/", ">", "=", '"', "<", "\t", "é", "\n", "'", "&"]
XML_VALUES = [None, "UNDEFINED", "", "v", "<\"&'>", 0, {"markup": "<b>"}, "a b=c/>"]


def cases_xmlattr(tier, seed):
    keys = list(strings(XML_KEY_ALPHA, 2))  # including the empty key
    for k in keys:
        for v in XML_VALUES:
            for autospace in (True, False):
                yield {"items": [[k, v]], "autospace": autospace, "autoescape": True}
    for k1, k2 in itertools.product(["a", "b c", "x>", "é", "d\x0c", "e\r", "f\x0b"], repeat=2):
        if k1 == k2:
            continue
        for v1, v2 in itertools.product(XML_VALUES, repeat=2):
            yield {"items": [[k1, v1], [k2, v2]], "autospace": True, "autoescape": False}
    yield {"items": [], "autospace": True, "autoescape": True}
    yield {"items": [["class", "a"], ["", "x onmouseover=alert(document.domain)//"]], "autospace": True, "autoescape": True}
    yield {"items": [["a", 1], ["b", None], ["c", "UNDEFINED"], ["d", "<"]], "autospace": False, "autoescape": True}


def xmlattr_key_re(task, tier, seed):
    """Regex facts read off the live pattern: it is one character class (so `search` succeeds iff some character of
    the key is in the class) and the class contains every character that ends an HTML attribute name, plus the
    documented ones (space, /, >, =)."""
    import re._parser as sre_parse
    pat = F._attr_key_re
    rs = []
    tree = list(sre_parse.parse(pat.pattern, pat.flags))
    single = len(tree) == 1 and str(tree[0][0]) == "IN"
    rs.append(Res("C24.xmlattr.key_re.single_class", "discharged" if single else "refuted", "regex", 0,
                  "" if single else f"pattern {pat.pattern!r} is not a single character class", "regex", {"items": [["a b", "v"]], "autospace": True, "autoescape": True}))
    missing = [c for c in ATTR_TERMINATORS if pat.search("k" + c + "k") is None]
    rs.append(Res("C24.xmlattr.key_re.covers_terminators", "discharged" if not missing else "refuted", "regex", 0,
                  "" if not missing else f"characters {missing!r} can end the attribute name but are accepted in keys", "regex",
                  {"items": [["k" + (missing[0] if missing else " ") + "k", "v"]], "autospace": True, "autoescape": True}))
    return rs


# =====================================================================================
# do_forceescape, escape
# =====================================================================================
f_html = z3.Function("call___html__", Obj, Obj)      # value.__html__()
f_has_html = z3.Function("has___html__", Obj, z3.BoolSort())
f_pystr = z3.Function("py_str", Obj, Obj)
f_esc_o = z3.Function("markupsafe_escape_obj", Obj, Obj)


class ForceEscape(VC):
    """forceescape(value) = escape(str(value.__html__())) if value has __html__ else escape(str(value)):
    the text always goes through escape as a plain str, whatever its markup status was."""
    prop = "C24"
    target = "jinja2.filters:do_forceescape"

    def __init__(self):
        super().__init__("C24", "C24.forceescape")

    def configure(self, I):
        def getattr_obj(I_, st, args, kwargs, node):
            o, name = args
            if name != "__html__" or not isinstance(o, Sym):
                return None
            out = []
            for s1, b in I_.fork_bool(st, f_has_html(o.t)):
                if b:
                    out.append((s1, BoundMethod(o, "__html__")))
                else:
                    out.append((s1, Raised(Exc(AttributeError, ("__html__",), origin=getattr(node, "lineno", None)))))
            return out

        I.specs["getattr_obj"] = getattr_obj

        def method_obj(I_, st, args, kwargs, node):
            recv, name = args[0], args[1]
            if name != "__html__" or len(args) != 2:
                return None
            r = Sym(f_html(recv.t), "obj", {"html_form"})
            A.call_event(st, "__html__", [recv], {}, r, node)
            return [(st, r)]

        I.specs["method_obj"] = method_obj
        I.specs["str_obj"] = lambda I_, st, args, kwargs, node: [(st, Sym(f_pystr(args[0].t), "obj", {"plain_str"}))]

        def esc(I_, st, args, kwargs, node):
            r = Sym(f_esc_o(to_term(args[0], "obj")), "obj", {"markup", "escaped"})
            A.call_event(st, "escape", args, kwargs, r, node)
            return [(st, r)]

        I.specs[("fn", id(F.escape))] = esc
        import typing
        I.specs[("fn", id(typing.cast))] = lambda I_, st, args, kwargs, node: [(st, args[1])]

    def setup(self, I, st):
        self.value = sym("value", "obj")
        return [self.value], {}

    def p_escaped(self, pre, out):
        if out.raised:
            return False
        v = self.value.t
        want = f_esc_o(f_pystr(z3.If(f_has_html(v), f_html(v), v)))
        ev = A.calls(out, "escape")
        if len(ev) != 1 or out.value is not ev[0].result:
            return False
        return to_term(out.value, "obj") == want

    posts = [("always_escapes", p_escaped)]

    def concretize(self, model, pre, out):
        return {"has_html": bool(model_value(model, f_has_html(self.value.t)))}

    def replay(self, w):
        for w2 in cases_forceescape("quick", 0):
            v, d = check_forceescape(w2)
            if v:
                return v, d
        return False, "forceescape agrees with the specification on the sample"


class _HtmlObj:
    def __init__(self, s):
        self.s = s

    def __html__(self):
        return self.s

    def __str__(self):
        return "WRONG<str() used>"


ESC_ALPHA = ["a", "<", ">", "&", "'", '"', " "]


def cases_forceescape(tier, seed):
    for s in strings(ESC_ALPHA, 4):
        yield {"s": s, "as": "str"}
        yield {"s": s, "as": "markup"}
    for s in strings(ESC_ALPHA, 2):
        yield {"s": s, "as": "html_object"}
    for v in (0, 1.5, None, True):
        yield {"s": v, "as": "scalar"}


def check_forceescape(w):
    s = w["s"]
    v = s if w["as"] in ("str", "scalar") else (markupsafe.Markup(s) if w["as"] == "markup" else _HtmlObj(s))
    r = F.do_forceescape(v)
    want = html_escape(str(s))
    bad = str(r) != want or not isinstance(r, markupsafe.Markup)
    if not bad and w["as"] == "str":
        # the escape filter itself: MarkupSafe escaping
        e = jinja2.filters.FILTERS["escape"](s)
        bad = str(e) != want or not isinstance(e, markupsafe.Markup)
    return (bad, f"forceescape({w['as']} {s!r}) = {r!r}, specification {want!r}")


def filter_table():
    return {"escape": markupsafe.escape, "e": markupsafe.escape, "forceescape": F.do_forceescape, "safe": F.do_mark_safe,
            "tojson": F.do_tojson, "xmlattr": F.do_xmlattr, "urlize": F.do_urlize, "indent": F.do_indent, "replace": F.do_replace,
            "join": F.do_join, "format": F.do_format, "truncate": F.do_truncate, "wordwrap": F.do_wordwrap, "striptags": F.do_striptags}


def escape_table(task, tier, seed):
    """the escape / e filters are MarkupSafe's escape; forceescape, tojson, xmlattr, urlize, ... are the functions under
    contract; the async join variant delegates to sync_do_join (C09.variant)"""
    T = jinja2.filters.FILTERS
    rs = []
    for name, fn in filter_table().items():
        ok = T.get(name) is fn
        rs.append(Res(f"C24.table.filter[{name}]", "discharged" if ok else "refuted", "table", 0,
                      "" if ok else f"FILTERS[{name!r}] is {T.get(name)!r}", "table", {"name": name}))
    return rs


def replay_table(w):
    T = jinja2.filters.FILTERS
    return (T.get(w["name"]) is not filter_table()[w["name"]], f"FILTERS[{w['name']!r}] = {T.get(w['name'])!r}")


# =====================================================================================
# Markup-argument clause: indent, replace, join, format, truncate, wordwrap
# =====================================================================================
# Ghost-tag analysis.  Every string is an opaque atom with tags
#     markup  it is a markupsafe.Markup instance
#     taint   it contains caller-supplied text that was never escaped
# Dependency specs of the MarkupSafe combinators (markupsafe documentation: "operations on a markup string are
# markup aware: all arguments are passed through escape()"):
#     Markup(x)                same text, markup, taint kept (Markup() trusts its argument)
#     escape(x)                x if markup, else a clean markup string
#     str(x) / soft_str(x)     plain copy (taint kept) / x itself
#     m + x, x + m, m.join(xs), m.replace(a, b), m % xs  for markup m: markup; plain operands are escaped
#                              (their taint is dropped), markup operands contribute their taint
#     p + q, p.join(xs), p.replace(a, b), p % xs         for plain operands only / plain receiver: plain, taints united
#     slices, splitlines, rsplit, strip                  pieces with the receiver's tags
# Obligation: the result is not (markup and tainted).

def atom(name, markup, taint, levels=()):
    """levels: ghost escape levels of the tracked text contained in this string (0 = the characters themselves,
    1 = escaped once, ...); only the filter's main value is tracked (C23.indent.escaping_consistent)"""
    tags = {"text"}
    if markup:
        tags.add("markup")
    if taint:
        tags.add("taint")
    tags.update(f"lvl:{n}" for n in levels)
    return fresh(name, "obj", tags)


def levels_of(v):
    return sorted(int(t[4:]) for t in v.tags if t.startswith("lvl:")) if isinstance(v, Sym) else []


def is_text(v):
    return isinstance(v, str) or (isinstance(v, Sym) and "text" in v.tags)


def is_markup(v):
    return isinstance(v, Sym) and "markup" in v.tags


def tainted(v):
    return isinstance(v, Sym) and "taint" in v.tags


def combine(name, recv_markup, parts):
    """result of a combinator whose markup-ness is recv_markup, over text operands `parts`"""
    parts = [x for x in parts if is_text(x)]
    lv = set()
    if recv_markup:
        t = any(tainted(x) for x in parts if is_markup(x))
        for x in parts:  # plain operands of a markup combinator are escaped once more
            lv.update(levels_of(x) if is_markup(x) else [n + 1 for n in levels_of(x)])
    else:
        t = any(tainted(x) for x in parts)
        for x in parts:
            lv.update(levels_of(x))
    return atom(name, recv_markup, t, lv)


def install_markup_algebra(I, nlines):
    import textwrap
    import typing

    def seq_items(st, v):
        if isinstance(v, Ref):
            h = st.get(v)
            if isinstance(h, HList) and h.concrete:
                return list(h.items)
            if isinstance(h, HDict) and h.concrete:
                return list(h.items.values())
            raise Unsupported("markup algebra: abstract sequence operand")
        if isinstance(v, (tuple, list)):
            return list(v)
        return [v]

    def add(I_, st, args, kwargs, node):
        a, b = args
        if not (is_text(a) and is_text(b)):
            return None
        return [(st, combine("cat", is_markup(a) or is_markup(b), [a, b]))]

    I.specs[("binop", ast.Add)] = add

    def mod(I_, st, args, kwargs, node):
        a, b = args
        if not is_text(a):
            return None
        return [(st, combine("fmt", is_markup(a), [a] + seq_items(st, b)))]

    I.specs[("binop", ast.Mod)] = mod

    def method(I_, st, recv, name, margs, node):
        if name == "join":
            items = seq_items(st, margs[0])
            # the separator only occurs between two items
            return [(st, combine("joined", is_markup(recv), ([recv] if len(items) >= 2 else []) + items))]
        if name == "replace":
            return [(st, combine("replaced", is_markup(recv), [recv] + list(margs[:2])))]
        if name == "splitlines":
            return [(st, st.alloc(HList(items=[atom(f"line{i}", is_markup(recv), tainted(recv), levels_of(recv)) for i in range(nlines)])))]
        if name == "rsplit":
            out = []
            for k in (1, 2):
                s1 = st.fork()
                out.append((s1, s1.alloc(HList(items=[atom(f"part{i}", is_markup(recv), tainted(recv), levels_of(recv)) for i in range(k)]))))
            return out
        if name in ("strip", "lower", "upper"):
            return [(st, atom(name, is_markup(recv), tainted(recv), levels_of(recv)))]
        if name == "__html__" and is_markup(recv):
            return [(st, recv)]
        raise Unsupported(f"markup algebra: str.{name}", node)

    def method_obj(I_, st, args, kwargs, node):
        recv, name = args[0], args[1]
        if not is_text(recv):
            return None
        return method(I_, st, recv, name, list(args[2:]), node)

    I.specs["method_obj"] = method_obj
    for nm in ("join", "replace", "splitlines", "rsplit", "strip"):
        I.specs[f"str.{nm}"] = (lambda nm_: lambda I_, st, args, kwargs, node: method(I_, st, args[0], nm_, list(args[1:]), node))(nm)

    def getattr_obj(I_, st, args, kwargs, node):
        o, name = args
        if not is_text(o):
            return None
        if name == "__html__" and not is_markup(o):
            return [(st, Raised(Exc(AttributeError, ("__html__",), origin=getattr(node, "lineno", None))))]
        return [(st, BoundMethod(o, name))]

    I.specs["getattr_obj"] = getattr_obj

    def attr_hook(I_, st, obj, name, node):
        # a plain str literal has no __html__
        if isinstance(obj, str) and name == "__html__":
            return [(st, Raised(Exc(AttributeError, ("__html__",), origin=getattr(node, "lineno", None))))]
        return None

    I.attr_hook = attr_hook

    def isinstance_obj(I_, st, args, kwargs, node):
        v, cl = args
        if not is_text(v):
            return None
        t = markupsafe.Markup if is_markup(v) else str
        return [(st, any(issubclass(t, c) for c in cl))]

    I.specs["isinstance_obj"] = isinstance_obj
    I.specs["len_obj"] = lambda I_, st, args, kwargs, node: [(st, _nonneg(st))] if is_text(args[0]) else None
    I.specs["getslice_obj"] = lambda I_, st, args, kwargs, node: [(st, atom("slice", is_markup(args[0]), tainted(args[0]), levels_of(args[0])))] if is_text(args[0]) else None
    I.specs["str_obj"] = lambda I_, st, args, kwargs, node: [(st, atom("str", False, tainted(args[0]), levels_of(args[0])))] if is_text(args[0]) else None

    def markup_ctor(I_, st, args, kwargs, node):
        v = args[0]
        if not is_text(v):
            return None
        return [(st, atom("Markup", True, tainted(v), levels_of(v)))]

    def esc(I_, st, args, kwargs, node):
        v = args[0]
        if is_markup(v):
            return [(st, v)]
        return [(st, atom("escaped", True, False, [n + 1 for n in levels_of(v)]))]

    def soft(I_, st, args, kwargs, node):
        return [(st, args[0])]

    I.specs[("fn", id(markupsafe.Markup))] = markup_ctor
    I.specs[("fn", id(F.escape))] = esc
    I.specs[("fn", id(F.soft_str))] = soft
    I.specs[("fn", id(typing.cast))] = lambda I_, st, args, kwargs, node: [(st, args[1])]

    def wrap(I_, st, args, kwargs, node):
        line = args[0]
        out = []
        for k in (0, 1, 2):  # textwrap.wrap returns plain str pieces of the line
            s1 = st.fork()
            out.append((s1, s1.alloc(HList(items=[atom(f"wrapped{i}", False, tainted(line), levels_of(line)) for i in range(k)]))))
        return out

    I.specs[("fn", id(textwrap.wrap))] = wrap

    def map_spec(I_, st, args, kwargs, node):
        fn, it = args
        results = [(st, [])]
        for x in seq_items(st, it):
            nxt = []
            for s1, acc in results:
                for s2, r in I_.call(s1, fn, [x], {}, node):
                    nxt.append((s2, r if isinstance(r, Raised) else acc + [r]))
            results = nxt
        return [(s1, acc if isinstance(acc, Raised) else tuple(acc)) for s1, acc in results]

    I.specs[("fn", id(map))] = map_spec
    I.specs[("fn", id(enumerate))] = lambda I_, st, args, kwargs, node: [(st, tuple((i, x) for i, x in enumerate(seq_items(st, args[0]))))]


def _nonneg(st):
    n = fresh("len", "int")
    st.assume(n.t >= 0)
    return n


def kind_atom(name, kind, track=False):
    """'M' a Markup value (trusted), 'P' a plain caller-supplied string"""
    # the text of a Markup value is, by definition, already in its escaped form (level 1)
    return atom(name, kind == "M", kind == "P", ([1] if kind == "M" else [0]) if track else ())


MARKER = {"s": "<s>", "width": "<w>", "end": "<e>", "wrapstring": "<ws>", "old": "<s>", "new": "<n>", "d": "<d>", "arg": "<a%d>", "item": "<i%d>"}


class MarkupArgsVC(VC):
    prop = "C24"

    def __init__(self, filt, cfg):
        self.filt, self.cfg = filt, cfg
        self.target = {"join": "jinja2.filters:sync_do_join"}.get(filt, f"jinja2.filters:do_{filt}")
        super().__init__("C24", f"C24.markup_args.{filt}")
        self.flags = {}

    def configure(self, I):
        install_markup_algebra(I, self.cfg.get("lines", 1))

    def setup(self, I, st):
        c, f = self.cfg, self.filt
        env = A.obj(st, jinja2.Environment, "env", fields={"policies": st.alloc(HDict(items={"truncate.leeway": 0}), initial=True), "newline_sequence": "\n"})
        if f == "indent":
            self.flags = {"first": sym("first", "bool"), "blank": sym("blank", "bool")}
            width = 4 if c["width"] == "int" else kind_atom("width", c["width"])
            return [kind_atom("s", c["s"], track=True), width, self.flags["first"], self.flags["blank"]], {}
        if f == "truncate":
            self.flags = {"killwords": sym("killwords", "bool")}
            return [env, kind_atom("s", c["s"]), 10, self.flags["killwords"], kind_atom("end", c["end"]), 0], {}
        if f == "wordwrap":
            ws = None if c["wrapstring"] == "None" else kind_atom("wrapstring", c["wrapstring"])
            return [env, kind_atom("s", c["s"]), 79, True, ws, True], {}
        if f == "format":
            vals = [kind_atom(f"arg{i}", k) for i, k in enumerate(c["args"])]
            if c["mode"] == "args":
                return [kind_atom("value", c["s"])] + vals, {}
            return [kind_atom("value", c["s"])], {f"k{i}": v for i, v in enumerate(vals)}
        ctx = A.obj(st, EvalContext, "eval_ctx", fields={"autoescape": bool(c["autoescape"]), "environment": env})
        if f == "replace":
            return [ctx, kind_atom("s", c["s"]), kind_atom("old", c["old"]), kind_atom("new", c["new"]), None], {}
        if f == "join":
            items = st.alloc(HList(items=[kind_atom(f"item{i}", k) for i, k in enumerate(c["items"])]), initial=True)
            return [ctx, items, kind_atom("d", c["d"])], {}
        raise AssertionError(f)

    def p_clean(self, pre, out):
        if out.raised:
            return None
        return not (is_markup(out.value) and tainted(out.value))

    posts = [("no_unescaped", p_clean)]

    def describe(self, out):
        return f"{self.filt} {cfg_key(self.filt, self.cfg)}: the result is Markup and contains an unescaped plain argument; " + VC.describe(self, out)

    def concretize(self, model, pre, out):
        w = {"filter": self.filt, "cfg": self.cfg}
        for k, v in self.flags.items():
            w[k] = bool(model_value(model, v.t))
        return w


def cfg_key(filt, cfg):
    return ",".join(f"{k}={cfg[k]}" for k in sorted(cfg) if k != "lines")


def markup_configs(filt):
    MP = ("M", "P")
    if filt == "indent":
        return [{"s": s, "width": w, "lines": n} for s in MP for w in ("M", "P", "int") for n in (1, 2, 3)]
    if filt == "truncate":
        return [{"s": s, "end": e} for s in MP for e in MP]
    if filt == "wordwrap":
        return [{"s": s, "wrapstring": w, "lines": n} for s in MP for w in ("M", "P", "None") for n in (1, 2)]
    if filt == "format":
        return [{"s": s, "args": list(a), "mode": m} for s in MP for a in (("P",), ("M",), ("P", "M")) for m in ("args", "kwargs")]
    if filt == "replace":
        return [{"s": s, "old": o, "new": n, "autoescape": ae} for s in MP for o in MP for n in MP for ae in (True, False)]
    if filt == "join":
        return [{"d": d, "items": list(it), "autoescape": ae} for d in MP for it in ((), ("P",), ("M",), ("P", "M"), ("M", "P"), ("P", "P")) for ae in (True, False)]
    raise AssertionError(filt)


class MarkupArgs(VC):
    """All configurations (which operands are Markup, which are plain strings; number of lines) of one filter."""
    prop = "C24"
    kind = "vc"

    def __init__(self, filt):
        self.filt = filt
        self.target = {"join": "jinja2.filters:sync_do_join"}.get(filt, f"jinja2.filters:do_{filt}")
        VC.__init__(self, "C24", f"C24.markup_args.{filt}")

    def run(self, tier, seed):
        rs = []
        for cfg in markup_configs(self.filt):
            rs += MarkupArgsVC(self.filt, cfg).run(tier, seed)
        return rs

    def finding_key(self, res):
        w = res.witness or {}
        return cfg_key(self.filt, w["cfg"]) if "cfg" in w else "no-witness"

    def replay(self, w):
        return check_markup_args(w)


def _mk(kind, text):
    return markupsafe.Markup(text) if kind == "M" else text


def check_markup_args(w):
    """Native oracle: when the real filter returns Markup, no plain-string operand occurs in it unescaped."""
    f, c = w["filter"], w["cfg"]
    env = jinja2.Environment()
    plain = []

    def val(kind, marker, body=None):
        text = marker if body is None else body
        if kind == "P":
            plain.append(marker)
        elif kind == "M":
            text = text.replace("<", "[").replace(">", "]")  # a trusted value; keep it distinguishable
        return _mk(kind, text)

    lines = c.get("lines", 1)
    if f == "indent":
        s = val(c["s"], "<s>", "\n".join(["<s>", "", "<s> x"][:lines]) + ("\n" if lines == 1 else ""))
        width = 4 if c["width"] == "int" else val(c["width"], "<w>")
        r = F.do_indent(s, width, w.get("first", False), w.get("blank", False))
    elif f == "truncate":
        s = val(c["s"], "<s>", "<s> some words that go on and on")
        r = F.do_truncate(env, s, 10, w.get("killwords", False), val(c["end"], "<e>"), 0)
    elif f == "wordwrap":
        s = val(c["s"], "<s>", "\n".join(["<s> aaa bbb ccc ddd", "<s> eee"][:lines]))
        ws = None if c["wrapstring"] == "None" else val(c["wrapstring"], "<ws>")
        r = F.do_wordwrap(env, s, 7, True, ws, True)
    elif f == "format":
        vals = [val(k, "<a%d>" % i) for i, k in enumerate(c["args"])]
        if c["mode"] == "args":
            r = F.do_format(val(c["s"], "<s>", "<s>" + " %s" * len(vals)), *vals)
        else:
            r = F.do_format(val(c["s"], "<s>", "<s>" + "".join(f" %(k{i})s" for i in range(len(vals)))), **{f"k{i}": v for i, v in enumerate(vals)})
    else:
        ctx = EvalContext(env)
        ctx.autoescape = bool(c["autoescape"])
        if f == "replace":
            r = F.do_replace(ctx, val(c["s"], "<s>", "<s> and <s>"), val(c["old"], "<s>"), val(c["new"], "<n>"))
        else:
            r = F.sync_do_join(ctx, [val(k, "<i%d>" % i) for i, k in enumerate(c["items"])], val(c["d"], "<d>"))
    if not hasattr(r, "__html__"):
        return (False, f"{f} {cfg_key(f, c)}: result {r!r} is a plain str (escaped on output)")
    leaked = [m for m in plain if m in str(r)]
    return (bool(leaked), f"{f} {cfg_key(f, c)} {({k: v for k, v in w.items() if k not in ('filter', 'cfg')})}: result {r!r} is Markup and contains {leaked} unescaped")


def cases_markup_args(tier, seed):
    for f in MARKUP_FILTERS:
        for cfg in markup_configs(f):
            flagsets = [{}]
            if f == "indent":
                flagsets = [{"first": a, "blank": b} for a in (False, True) for b in (False, True)]
            if f == "truncate":
                flagsets = [{"killwords": a} for a in (False, True)]
            for fl in flagsets:
                yield dict({"filter": f, "cfg": cfg}, **fl)


MARKUP_FILTERS = ["indent", "truncate", "wordwrap", "format", "replace", "join"]

# =====================================================================================
# bounded stand-ins
# =====================================================================================
JSON_ALPHA = ["<", ">", "&", "'", '"', "\\", "a", " ", "é", "/"]


def cases_tojson(tier, seed):
    strs = list(strings(JSON_ALPHA, 3 if tier == "thorough" else 2)) + ["</script>", "<!--", "]]>", "a'b\"c", "\x00\x1f", "𝄞", "&amp;"]
    for v in strs:
        for via in ("utils", "filter"):
            yield {"value": v, "indent": None, "via": via}
    scalars = [None, True, False, 0, -1, 1.5, 10 ** 20, ""]
    for v in scalars:
        yield {"value": v, "indent": None, "via": "filter"}
    small = ["<", "'&'", "a>", ""]
    for a, b in itertools.product(small, repeat=2):
        for indent in (None, 0, 2):
            for via in ("utils", "filter"):
                yield {"value": [a, {b: [a, None, 1]}, []], "indent": indent, "via": via}
                yield {"value": {a: {"x<": b}, "k'": [b, [a]]}, "indent": indent, "via": via, "custom_dumps": via == "filter"}


def cases_markup_native(tier, seed):
    return cases_markup_args(tier, seed)


# ---- urlize -----------------------------------------------------------------------------
URL_ALPHA = ["a", ".", "/", ":", "@", "<", ">", '"', "'", "&", "(", ")", " ", "w"]
_ENT = r"&(?:amp|lt|gt|#39|#34);"
_TEXT = rf"(?:[^<>\"'&]|{_ENT})*"
_HREF = rf"(?:[^<>\"'&\s]|{_ENT})*"
_OPEN = rf"<a href=\"({_HREF})\"(?: rel=\"{_TEXT}\")?(?: target=\"{_TEXT}\")?>"
_UNIT = rf"(?:[^<>\"'&]|{_ENT})"  # one text character or one character reference (no nested repetition: linear matching)
_STRICT = re.compile(rf"(?:{_UNIT}|{_OPEN}{_UNIT}*</a>)*\Z")
# the same, but a displayed URL cut by trim_url_limit may end in a truncated character reference before "..."
_LENIENT = re.compile(rf"(?:{_UNIT}|{_OPEN}{_UNIT}*(?:&[a-z#0-9]{{0,3}}(?=\.\.\.</a>))?{_UNIT}*</a>)*\Z")
_OPEN_RE = re.compile(_OPEN)


def html_unescape(x):
    return x.replace("&lt;", "<").replace("&gt;", ">").replace("&#39;", "'").replace("&#34;", '"').replace("&amp;", "&")


URL_ARGSETS = [
    {},
    {"trim_url_limit": 3},
    {"trim_url_limit": 13},
    {"rel": 'x" onclick="y', "target": "<b>'"},
    {"rel": "a b", "target": "_blank", "extra_schemes": ["aa:", "aa://"]},
]
URLIZE_FILTER_ARGS = [
    {"rel": None, "nofollow": False, "target": None, "extra_schemes": None},
    {"rel": "a b", "nofollow": True, "target": "_blank", "extra_schemes": ["aa:"]},
    {"rel": 'x" onclick="y <b>', "nofollow": False, "target": '"><script>', "extra_schemes": ["aa://"]},
    {"rel": None, "nofollow": True, "target": None, "extra_schemes": ['a":']},
    {"rel": None, "nofollow": False, "target": None, "extra_schemes": ["a:"]},
    {"rel": None, "nofollow": False, "target": None, "extra_schemes": ["aa:<"]},
]
URL_CORES = ["http://a.aa", "https://w.aa/a", "www.a.aa", "a@a.aa", "mailto:a@a.aa", "a.com", "http://1.1.1.1", "aa:a", "aa://w", "http://a.aa/?a=a&w=w"]


def urlize_inputs(tier, lo, hi, shard=None, nshards=1):
    n = 0
    for ln in range(lo, hi + 1):
        for t in itertools.product(URL_ALPHA, repeat=ln):
            n += 1
            if shard is not None and n % nshards != shard:
                continue
            yield "".join(t)


def cases_urlize_short(maxlen):
    def gen(tier, seed):
        for s in urlize_inputs(tier, 0, maxlen):
            yield {"text": s, "args": {}}
        for s in urlize_inputs(tier, 0, min(maxlen, 3)):
            for a in URL_ARGSETS[1:]:
                yield {"text": s, "args": a}
    return gen


def cases_urlize_len5(shard, nshards):
    def gen(tier, seed):
        for s in urlize_inputs(tier, 5, 5, shard, nshards):
            yield {"text": s, "args": {}}
    return gen


def cases_urlize_links(tier, seed):
    tails = list(strings(URL_ALPHA, 2))
    for h in [""] + URL_ALPHA:
        for c in URL_CORES:
            for tl in tails:
                for a in URL_ARGSETS:
                    yield {"text": h + c + tl, "args": a}
    for s in seeded(URL_ALPHA + ["http://", "www.", ".com", "mailto:", "\n", "\t", ","], seed, 300, 3, 12):
        for a in URL_ARGSETS:
            yield {"text": s, "args": a}
    for c in URL_CORES + ["x", "<b>", "a b"]:
        for tl in ("", ")", '"', ". w", "<"):
            for fa in URLIZE_FILTER_ARGS:
                for ae in (True, False):
                    yield {"text": c + tl, "filter_args": fa, "autoescape": ae}


def tokenise_ok(r, text, trim):
    """-> (ok, reason).  Only well-formed <a href=".." [rel=".."] [target=".."]>text</a> with quoted, escaped,
    whitespace-free href; no < > " ' and no bare & anywhere else; with the tags removed the text is the input."""
    if not _STRICT.match(r):
        return False, "output is not (text | well-formed anchor)*"
    for m in _OPEN_RE.finditer(r):
        href = html_unescape(m.group(1))
        core = href
        for pre in ("https://", "mailto:"):
            if core.startswith(pre) and core[len(pre):] in text and core not in text:
                core = core[len(pre):]
        if core not in text:
            return False, f"href {href!r} is not taken from the input"
    if trim is None:
        plain = html_unescape(re.sub(r"</a>", "", _OPEN_RE.sub("", r)))
        want = text
        for m in _OPEN_RE.finditer(r):
            href = html_unescape(m.group(1))
            if href.startswith("mailto:") and href in want:
                want = want.replace(href, href[7:], 1)  # a mailto: link displays the address only
        if plain != want:
            return False, f"text content {plain!r} differs from the input"
    return True, ""


def check_urlize(w):
    text = w["text"]
    if "filter_args" in w:
        fa = w["filter_args"]
        env = jinja2.Environment()
        ctx = EvalContext(env)
        ctx.autoescape = bool(w["autoescape"])
        valid = all(re.fullmatch(r"[A-Za-z0-9_.+-]{2,}:/{0,2}", sch) for sch in (fa["extra_schemes"] or ()))
        try:
            r = F.do_urlize(ctx, text, None, fa["nofollow"], fa["target"], fa["rel"], fa["extra_schemes"])
        except FilterArgumentError as ex:
            return (valid, f"do_urlize({text!r}, {fa}) raised FilterArgumentError({ex})")
        if not valid:
            return (True, f"do_urlize({text!r}, {fa}) accepted an extra scheme that is not [\\w.+-]{{2,}}:(/){{0,2}}")
        if isinstance(r, markupsafe.Markup) != bool(w["autoescape"]):
            return (True, f"do_urlize({text!r}) with autoescape={w['autoescape']} returned {type(r).__name__}")
        ok, why = tokenise_ok(str(r), text, None)
        if ok and "<a " in r:
            # documented: rel argument + nofollow + policies["urlize.rel"] (default "noopener", always added)
            want_rel = set((fa["rel"] or "").split()) | ({"nofollow"} if fa["nofollow"] else set()) | set((env.policies["urlize.rel"] or "").split())
            m = re.search(r' rel="([^"]*)"', str(r))
            got = set(html_unescape(m.group(1)).split()) if m else set()
            if not r.startswith('<a href="mailto:') and got != want_rel:
                ok, why = False, f"rel attribute {got} != {want_rel}"
        return (not ok, f"do_urlize({text!r}, {fa}, autoescape={w['autoescape']}) = {str(r)!r}: {why}")
    a = w["args"]
    r = U.urlize(text, **a)
    ok, why = tokenise_ok(r, text, a.get("trim_url_limit"))
    return (not ok, f"urlize({text!r}, {a}) = {r!r}: {why}")


def classify_urlize(w):
    """one class: the displayed URL is cut by trim_url_limit in the middle of a character reference"""
    a = w.get("args") or {}
    if a.get("trim_url_limit") is None:
        return None
    r = U.urlize(w["text"], **a)
    if not _STRICT.match(r) and _LENIENT.match(r):
        return "trim-cuts-character-reference"
    return None


def B(name, cases, check, bound, classify=None, thorough_only=False):
    b = Bounded(name, cases, check, bound, classify, prop="C24")
    b.thorough_only = thorough_only
    return b


_URL_BOUND = "alphabet {a . / : @ < > \" ' & ( ) space w}"
BOUNDED = [
    B("C24.bounded.tojson", cases_tojson, check_tojson,
      "all strings of length <= 2 (thorough: 3) over {< > & ' \" \\ a space é /} and seeded strings, scalars, nested lists/dicts over 4 adversarial strings x indent in {None, 0, 2}, through htmlsafe_json_dumps and the filter, default and custom dumps: none of < > & ', Markup, json.loads round trip"),
    B("C24.bounded.xmlattr", cases_xmlattr, check_xmlattr,
      "all one-item mappings with keys of length 0..2 over {a space / > = \" < tab é \\n ' &} x 8 values x autospace, 42 key pairs x 64 value pairs, against the specification",
      lambda w: "empty-key" if any(k == "" and v not in (None, "UNDEFINED") for k, v in w["items"]) else None),
    B("C24.bounded.forceescape", cases_forceescape, check_forceescape,
      "all strings of length <= 4 over {a < > & ' \" space} as str and Markup, length <= 2 as __html__ objects, scalars; also the escape filter"),
    B("C24.bounded.markup_args", cases_markup_native, check_markup_args,
      "every Markup/plain configuration of the operands of indent, truncate, wordwrap, format, replace, join (the configurations of C24.markup_args) with marker strings, on the real MarkupSafe",
      lambda w: w["filter"] + ":" + cfg_key(w["filter"], w["cfg"])),
    B("C24.bounded.urlize", cases_urlize_short(4), check_urlize,
      f"utils.urlize on all inputs of length <= 4 over the {_URL_BOUND}; length <= 3 crossed with 4 adversarial trim/rel/target/extra_schemes settings", classify_urlize),
    B("C24.bounded.urlize.links", cases_urlize_links, check_urlize,
      f"(one optional character) + 10 URL/e-mail cores + all tails of length <= 2 over the {_URL_BOUND} x 5 argument settings; 300 seeded fragment strings; do_urlize with 6 rel/nofollow/target/extra_schemes settings x autoescape", classify_urlize),
] + [
    B(f"C24.bounded.urlize.len5[{i}]", cases_urlize_len5(i, 4), check_urlize, f"utils.urlize on all inputs of length 5 over the {_URL_BOUND} (shard {i} of 4)", classify_urlize, thorough_only=True)
    for i in range(4)
]

TASKS = [XmlAttr(), XmlAttrSmall(1), XmlAttrSmall(2), FnTask("C24", "C24.xmlattr.key_re", xmlattr_key_re, "regex", check_xmlattr), ForceEscape(),
         FnTask("C24", "C24.table", escape_table, "table", replay_table),
         TojsonChars(False), TojsonChars(True), Tojson(False), Tojson(True),
         *[MarkupArgs(f) for f in MARKUP_FILTERS], *BOUNDED]

META = {
    "level": "proof",
    "explanation": "Proved on the real bodies: htmlsafe_json_dumps output has none of < > & ' (four replacements over the dependency "
                   "spec of str.replace), is Markup and is one serialisation of the object; do_tojson passes the policies' dumps function and "
                   "kwargs (+indent) without modifying them; do_xmlattr for mappings of any size (loop invariant with a ghost counter of "
                   "emitted items): each item is escape(key)=\"escape(value)\", None/undefined skipped, ValueError iff an emitted key "
                   "matches _attr_key_re, which is one character class containing every attribute-name terminator (regex fact); "
                   "do_forceescape always escapes the str of the __html__ form; the Markup-argument clause for indent/replace/join/format/"
                   "truncate/wordwrap by ghost tags over dependency specs of the MarkupSafe combinators (fails for indent = DESIGN F14, "
                   "known finding). The deciding step for urlize (regex matching) and the JSON round trip is a bounded check with the stated bound.",
    "assumptions": ["A4 dependency specs: MarkupSafe combinators escape plain operands; escape/Markup/soft_str as documented; str.replace; json.dumps returns a str",
                    "xmlattr: keys are strings; d.items() enumerates a finite sequence of pairs",
                    "Markup-argument clause: splitlines yields 1..3 lines, textwrap.wrap 0..2 pieces (bounded shapes, symbolic contents)",
                    "a Markup argument is trusted by definition (the clause concerns plain-string arguments)"],
    "trusted_base": ["z3 5.1 / cvc5", "pyvc symbolic executor", "markupsafe 3.0 (escape, Markup operators) as specified in the module",
                     "re._parser (structure of _attr_key_re)", "json.loads (round-trip oracle)", "executable specifications / tokeniser of the bounded stand-ins (this module)"],
}
