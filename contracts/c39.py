"""C39  The raw token stream is lossless and line-accurate.

Proof of mechanism under A8/A9 + bounded cross-check (DESIGN section 5, C39).  `Lexer.tokeniter` is a ~150-line generator
driven by a regex state stack; it is verified as STRAIGHT-LINE SEGMENTS of the real AST (located by structure):

  segment INIT   the statements between the preamble (C11.preamble) and the `while`        -> the invariant holds on entry
  segment BODY   the whole body of `for regex, tokens, new_state in statetokens`, once per distinct rule shape of the A9
                 family, with the rule's REAL tokens/new_state objects and an abstract match object obeying the regex facts
                 of the rule's real pattern (partition / one_named / sign groups / min width; A8)  -> invariant preserved
  segment END    the for-else (no rule matched)                                            -> returns only when pos >= len
  not under VC   the state stack discipline (`stack`, `self.rules[...]`, `statetokens`: abstracted, no claim), which rule is
                 tried first, and how far a match extends (A8): carried by the bounded stand-in C39.bounded.lex.

Invariant (one abstract iteration): the values yielded so far, interleaved with the pieces removed by the two
left-stripping steps, concatenate to source[:pos] (lossless: per iteration, yields = match with only the C12.lstrip.left
whitespace removed), `lineno == 1 + source[:pos].count("\\n")`, every yielded token carries 1 + the number of line breaks
before its first character (lineno), newlines_stripped == 0, line_starting == "the previous match ended a line".
"""
from __future__ import annotations

import time

import z3

from pyvc import regexfacts as RF
from pyvc.contract import VC, FnTask, Res
from pyvc.interp import Raised
from pyvc.smt import to_term, model_value, host_const
from pyvc.values import Sym, Ref, HObj, HList, HDict, Exc, Unsupported, fresh, fresh_name, sym
from pyvc import abstract as A

import jinja2
import jinja2.lexer as L
from jinja2.exceptions import TemplateSyntaxError

from contracts import _lex as X

PROP = "C39"
nl = X.nl_count
EMPTY = z3.StringVal("")


class FakeRegex:
    pass


class FakeStack:
    pass


class FakeRules:
    pass


def count_axioms(*pairs):
    """instances of the dependency spec of str.count (one-character needle): additive over concatenation"""
    return [nl(z3.Concat(a, b)) == nl(a) + nl(b) for a, b in pairs]


def split_axiom(s, k):
    """additivity of count at a cut position: s = s[:k] + s[k:] for 0 <= k <= len(s)"""
    return z3.Implies(z3.And(0 <= k, k <= z3.Length(s)), nl(s) == nl(z3.SubString(s, 0, k)) + nl(X.suffix_from(s, k)))


class LoopBody(X.SegmentVC):
    """One abstract iteration of the tokenizer loop for one rule shape (branch j of a 'named' rule)."""
    prop = PROP
    target = "jinja2.lexer:Lexer.tokeniter"
    timeout_quick = 20000
    clauses = ("lossless", "lineno")

    def __init__(self, family, shape, j=None, clauses=("lossless", "lineno"), prefix="C39.loop"):
        self.family, self.shape, self.j = family, shape, j
        self.clauses = clauses
        label = f"{family}:{shape.label()}" + (f".{shape.names[j]}" if j is not None else "")
        super().__init__(PROP, f"{prefix}[{label}]")
        self.posts = [(n, f) for n, f in self.all_posts if n.split(".")[0] in clauses or n.split(".")[0] == "common"]

    def segment(self):
        P = X.tokeniter_parts()
        self.R = P["roles"]
        return P["rule_for"].body, P["fn"], P["module"], "Lexer.tokeniter"

    # ------------------------------------------------------------------ specs of the callees
    def configure(self, I):
        X.install_string_specs(I, patterns=[L.whitespace_re])
        c = self
        sh = self.shape

        def match_h(I_, st, args, kwargs, node):
            # regex.match(source, pos): either no match, or a match obeying the regex facts of the rule's real pattern (A8)
            if len(args) != 3 or args[1] is not c.source or args[2] is not c.pos:
                raise Unsupported("regex.match is not called as match(source, pos)", node)
            s_no = st.fork()
            s_no.note("no match")
            m = c.build_match(I_, st)
            return [(s_no, None), (st, m)]

        I.specs["FakeRegex.match"] = match_h
        I.specs["FakeStack.pop"] = A.abstract_fn("stack.pop", returns="str")
        I.specs["FakeStack.append"] = A.abstract_fn("stack.append", returns=None)
        I.specs["FakeStack.__getitem__"] = A.abstract_fn("stack.__getitem__", returns="str")
        I.specs["FakeRules.__getitem__"] = A.abstract_fn("rules.__getitem__", returns="obj")
        prev_repr = I.specs.get(("fn", id(repr)))

        def repr_h(I_, st, args, kwargs, node):
            if args and isinstance(args[0], Ref) and isinstance(st.get(args[0]), HObj) and st.get(args[0]).cls is FakeRegex:
                return [(st, "<regex>")]
            return prev_repr(I_, st, args, kwargs, node)

        I.specs[("fn", id(repr))] = repr_h
        if isinstance(sh.tokens, tuple):
            for t in sh.tokens:
                if isinstance(t, L.Failure):
                    def fail_h(I_, st, args, kwargs, node, t=t):
                        return [(st, Exc(t.error_class, (t.message,) + tuple(args), origin=getattr(node, "lineno", None)))]
                    I.specs[("fn", id(t))] = fail_h

    def build_match(self, I, st):
        sh = self.shape
        src, pos = self.source.t, self.pos.t
        M = X.not_none(st, fresh("M", "str"))
        self.M = M.t
        st.assume(pos + z3.Length(M.t) <= z3.Length(src), z3.SubString(src, pos, z3.Length(M.t)) == M.t)  # A8: the match is source[pos:end]
        if sh.min_width >= 1:
            st.assume(z3.Length(M.t) >= 1)  # width fact
        gd = {}
        self.sign = None
        self.is_var = False
        if sh.kind == "named":
            T = X.not_none(st, fresh("text", "str"))
            V = X.not_none(st, fresh("tag", "str"))
            S = X.sign_value(st, "sign")
            st.assume(M.t == z3.Concat(T.t, V.t), z3.Length(V.t) >= max(1, sh.branch_min[self.j]))
            groups = [T]
            for i, n in enumerate(sh.names):
                groups += [V, S] if i == self.j else [None, None]
                gd[n] = V if i == self.j else None
            self.orig = [T.t, V.t]
            self.sign = S.t
            self.is_var = sh.names[self.j] == L.TOKEN_VARIABLE_BEGIN
            self.expect_tokens = [sh.tokens[0], sh.names[self.j]]
        elif sh.kind == "partition":
            gs = [X.not_none(st, fresh(f"g{i + 1}", "str")) for i in range(sh.k)]
            st.assume(M.t == (z3.Concat(*[g.t for g in gs]) if len(gs) > 1 else gs[0].t))
            groups = list(gs)
            if sh.sign_nested:
                S = X.sign_value(st, "sign")
                groups.append(S)
                self.sign = S.t
            self.orig = [g.t for g in gs]
            self.expect_tokens = list(sh.tokens)
        elif sh.kind == "plain":
            groups = [X.not_none(st, fresh(f"g{i + 1}", "str")) for i in range(sh.ngroups)]  # never read by the body
            self.orig = [M.t]
            self.expect_tokens = [sh.tokens]
        else:
            raise Unsupported(f"regex facts of rule {sh.label()} not established")
        if sh.lstrip:
            self.K = X.after_last_break(st, self.orig[0])
        self.groups0 = tuple(groups)
        return X.make_match(I, st, self.groups0, M, gd, self.pos)

    # ------------------------------------------------------------------ pre-state: the loop invariant
    def setup(self, I, st):
        R = X.tokeniter_parts()["roles"]
        sh = self.shape
        self.M = None
        self.source = sym("source", "str")
        self.pos = sym("pos", "int")
        self.lineno0 = sym("lineno", "int")
        self.lstrip = sym("lstrip_blocks", "bool")
        self.line_starting = sym("line_starting", "bool")
        src, pos = self.source.t, self.pos.t
        st.assume(0 <= pos, pos <= z3.Length(src))
        # INVARIANT: lineno = 1 + number of line breaks in source[:pos]
        st.assume(self.lineno0.t == 1 + nl(z3.SubString(src, 0, pos)))
        self.regex = st.alloc(HObj(FakeRegex, path="regex"), initial=True)
        self.stack = st.alloc(HObj(FakeStack, path="stack"), initial=True)
        rules = st.alloc(HObj(FakeRules, path="rules"), initial=True)
        self.lexer = st.alloc(HObj(L.Lexer, fields={"lstrip_blocks": self.lstrip, "rules": rules}, path="self"), initial=True)
        self.bal = A.alist(st, "balancing", "str")
        self.bal_n0 = st.get(self.bal).n
        return {R.self: self.lexer, R.source: self.source, R.pos: self.pos, R.lineno: self.lineno0, R.stack: self.stack,
                R.balancing_stack: self.bal, R.newlines_stripped: 0, R.line_starting: self.line_starting,
                R.statetokens: sym("statetokens", "obj"), R.source_length: Sym(z3.Length(src), "int"),
                R.name: sym("name", "obj"), R.filename: sym("filename", "obj"),
                R.regex: self.regex, R.tokens: sh.tokens, R.new_state: sh.new_state}

    # ------------------------------------------------------------------ reading a path
    def yields(self, out):
        ys = []
        for y in out.st.yields:
            if not (isinstance(y, tuple) and len(y) == 3):
                return None
            ys.append(y)
        return ys

    def matched(self, out):
        return self.M is not None and any(e.kind == "call" and False for e in ()) or (out.kind in ("break", "raise", "ok") and "no match" not in out.st.notes)

    def index_of(self, y):
        """position of a yielded token among the rule's token kinds"""
        tok = y[1]
        if not isinstance(tok, str) or tok not in self.expect_tokens:
            return None
        return self.expect_tokens.index(tok)

    def lemmas(self, out):
        out_l = []
        if self.shape.lstrip and self.M is not None:
            for s, needle, r in out.st.ghost.get("rfind", ()):
                if needle == "\n" and s.eq(self.orig[0]):
                    out_l += [self.K == r + 1, z3.Contains(self.orig[0], X.NL) == (r >= 0)]
        return out_l

    # ------------------------------------------------------------------ postconditions
    def p_paths(self, pre, out):
        """how an iteration may end: `continue` (rule not applicable: nothing yielded, nothing changed), `break` (rule
        applied) or a TemplateSyntaxError; never falls through, never another exception"""
        if out.kind == "continue":
            R = self.R
            same = (self.local(out, R.pos) is self.pos and self.local(out, R.lineno) is self.lineno0
                    and self.local(out, R.newlines_stripped) == 0 and self.local(out, R.line_starting) is self.line_starting)
            return not out.st.yields and same
        if out.kind == "break":
            return "no match" not in out.st.notes
        if out.kind == "raise":
            e = out.value
            if e.cls is TemplateSyntaxError:
                return True
            if e.cls is RuntimeError:
                return False if "no match" in out.st.notes else None  # decided by p_no_runtime_error
            return False
        return False

    def p_no_runtime_error(self, pre, out):
        """the internal-error exits (no named group matched / empty match without state change) are unreachable
        under the regex facts"""
        if out.kind == "raise" and out.value.cls is RuntimeError:
            return z3.BoolVal(False)  # the path condition must be unsatisfiable
        return None

    def p_pos(self, pre, out):
        """pos advances by exactly the match"""
        if out.kind != "break":
            return None
        return to_term(self.local(out, self.R.pos), "int") == self.pos.t + z3.Length(self.M)

    def p_lossless(self, pre, out):
        """the values yielded in this iteration are, in order, the pieces of the match; only the text group of an
        OptionalLStrip rule may lose a suffix, which is whitespace and exactly what the C12 left-hand rules remove"""
        if out.kind != "break":
            return None
        ys = self.yields(out)
        if ys is None:
            return False
        idx = [self.index_of(y) for y in ys]
        if any(i is None for i in idx) or idx != sorted(set(idx)):
            return False  # an unexpected token kind, or out of order / repeated
        conj = []
        n = len(self.orig)
        vals = {i: to_term(y[2], "str") for i, y in zip(idx, ys)}
        for i in range(n):
            piece = vals.get(i, EMPTY)  # a suppressed token must be an empty one
            if i == 0 and self.shape.lstrip:
                T = self.orig[0]
                conj.append(z3.PrefixOf(piece, T))
                conj.append(z3.InRe(X.suffix_from(T, z3.Length(piece)), X.WS_STAR))
                conj.append(X.left_spec(T, self.sign, self.lstrip.t, self.is_var, self.line_starting.t, self.K, piece))
            else:
                conj.append(piece == self.orig[i])
        return z3.And(*conj)

    def p_line_starting(self, pre, out):
        """line_starting' == the match ended with a line break"""
        if out.kind != "break":
            return None
        return to_term(self.local(out, self.R.line_starting), "bool") == z3.SuffixOf(X.NL, self.M)

    def offsets(self):
        """start offset (within the match) of each top-level piece"""
        offs, acc = [], z3.IntVal(0)
        for g in self.orig:
            offs.append(acc)
            acc = acc + z3.Length(g)
        return offs

    def count_facts(self, out):
        """instances of the str.count dependency spec needed on this path (additivity at the cut positions used)"""
        src, pos = self.source.t, self.pos.t
        facts = []
        # source[:pos + off] = source[:pos] + match[:off] for every piece boundary, and for the whole match
        offs = self.offsets() + [z3.Length(self.M)]
        for off in offs:
            whole = z3.SubString(src, 0, pos + off)
            facts.append(nl(whole) == nl(z3.SubString(src, 0, pos)) + nl(z3.SubString(self.M, 0, off)))
        acc = None
        for g, off in zip(self.orig, offs[1:]):
            acc = g if acc is None else z3.Concat(acc, g)
            facts.append(z3.SubString(self.M, 0, off) == acc)
        facts.append(nl(EMPTY) == 0)
        facts.append(z3.SubString(self.M, 0, 0) == EMPTY)
        # nl(g1 + ... + gi) = sum
        acc, tot = None, z3.IntVal(0)
        for g in self.orig:
            acc = g if acc is None else z3.Concat(acc, g)
            tot = tot + nl(g)
            facts.append(nl(acc) == tot)
        if self.shape.lstrip:
            T = self.orig[0]
            ys = self.yields(out) or []
            for y in ys:
                if self.index_of(y) == 0:
                    k = z3.Length(to_term(y[2], "str"))
                    facts.append(split_axiom(T, k))
                    facts.append(z3.Implies(z3.Not(z3.Contains(X.suffix_from(T, k), X.NL)), nl(X.suffix_from(T, k)) == 0))
            # when the data token is suppressed the kept text is empty: the whole text was removed
            facts.append(split_axiom(T, z3.IntVal(0)))
            facts.append(z3.Implies(z3.Not(z3.Contains(T, X.NL)), nl(T) == 0))
            facts.append(X.suffix_from(T, 0) == T)
        return facts

    def p_lineno_tokens(self, pre, out):
        """every yielded token carries 1 + the number of line breaks of the working source before its first character"""
        if out.kind != "break":
            return None
        ys = self.yields(out)
        if ys is None:
            return False
        src, pos = self.source.t, self.pos.t
        offs = self.offsets()
        conj = []
        for y in ys:
            i = self.index_of(y)
            if i is None:
                return False
            conj.append(to_term(y[0], "int") == 1 + nl(z3.SubString(src, 0, pos + offs[i])))
        return z3.Implies(z3.And(*self.count_facts(out)), z3.And(*conj)) if conj else None

    def p_lineno_invariant(self, pre, out):
        """invariant preserved: lineno' == 1 + number of line breaks in source[:pos'], and newlines_stripped' == 0"""
        if out.kind != "break":
            return None
        src = self.source.t
        pos2 = self.pos.t + z3.Length(self.M)
        ln = to_term(self.local(out, self.R.lineno), "int")
        ns = to_term(self.local(out, self.R.newlines_stripped), "int")
        return z3.Implies(z3.And(*self.count_facts(out)), z3.And(ln == 1 + nl(z3.SubString(src, 0, pos2)), ns == 0))

    all_posts = [("common.paths", p_paths), ("common.no_internal_error", p_no_runtime_error), ("common.pos", p_pos),
                 ("lossless.pieces", p_lossless), ("lossless.line_starting", p_line_starting),
                 ("lineno.tokens", p_lineno_tokens), ("lineno.invariant", p_lineno_invariant)]

    # ------------------------------------------------------------------ witness / replay
    def concretize(self, model, pre, out):
        w = {"family": self.family, "rule": self.shape.label(), "branch": (self.shape.names[self.j] if self.j is not None else None),
             "lstrip_blocks": bool(model_value(model, self.lstrip.t)), "line_starting": bool(model_value(model, self.line_starting.t))}
        if self.M is not None:
            w["match"] = X.mstr(model, self.M)
            w["pieces"] = [X.mstr(model, g) for g in self.orig]
            if self.sign is not None:
                w["sign"] = X.mstr(model, self.sign)
        return w

    def replay(self, w):
        return replay_loop(w)


def class_map(text):
    return "".join("\n" if c == "\n" else ("\x0c" if c == "\r" else c) if c in X.WS_PY else "x" for c in text)


def replay_loop(w):
    """Natively: templates of the witness' kind (a tag of the matched branch preceded by the witness text, in the witness'
    configuration family) through the REAL Environment.lex; oracle = the property's own: the token values tile the
    working source with only the documented left-hand whitespace missing, and every lineno is a direct count."""
    kw = dict(RF.delimiter_families().get(w["family"] + "/trim=0,lstrip=0", {}))
    cases = []
    text = class_map((w.get("pieces") or [""])[0]) if w.get("pieces") else ""
    sign = w.get("sign", "")
    for lstrip in {w["lstrip_blocks"], True}:
        for trim in (False, True):
            env = jinja2.Environment(**dict(kw, lstrip_blocks=lstrip, trim_blocks=trim))
            bs, be, vs, ve, cs, ce = (env.block_start_string, env.block_end_string, env.variable_start_string,
                                      env.variable_end_string, env.comment_start_string, env.comment_end_string)
            tags = [bs + sign + " set q = 1 " + be, cs + sign + " c\nd " + ce, vs + sign + " 1 " + ve,
                    bs + sign + " raw " + be + text + bs + sign + " endraw " + be, vs + " [1,\n(2)] " + ve]
            for tag in tags:
                for pre in ("", vs + " 0 " + ve, "a\n"):
                    src = pre + text + tag + "\n" + text + tag + "|\n x"
                    bad = lex_oracle(env, src)
                    if bad:
                        cases.append(bad)
    return (bool(cases), "; ".join(cases[:3]) if cases else "the real Environment.lex is lossless and line-accurate on the witness' templates")


def lex_oracle(env, src, removed_ok=None):
    """the property's own oracle on one source: -> None or a description of the violation"""
    work = X.spec_working_source(src, env.keep_trailing_newline)
    try:
        toks = list(env.lex(src))
    except TemplateSyntaxError as ex:
        return None
    pos = 0
    for ln, tok, val in toks:
        k = work.find(val, pos) if val else pos
        if k < 0:
            return f"{src!r}: token {tok}={val!r} does not occur in the working source after position {pos}"
        gap = work[pos:k]
        if gap.strip(X.WS_PY):
            return f"{src!r}: non-whitespace text {gap!r} is missing from the token stream before {tok}={val!r}"
        # the gap is whitespace the left-hand rules removed; tokens that start with whitespace could be matched late, so
        # always take the earliest position whose gap is whitespace only (k is the earliest occurrence)
        want = 1 + work[:k].count("\n")
        if ln != want:
            return f"{src!r}: token {tok}={val!r} starting at offset {k} carries lineno {ln}, direct count {want}"
        pos = k + len(val)
    if work[pos:].strip(X.WS_PY) or work[pos:]:
        return f"{src!r}: the token stream ends at offset {pos} of {len(work)}"
    return None


def loop_tasks(clauses, prefix):
    ts = []
    for fam, sh in X.rule_shapes():
        if sh.kind == "named":
            for j in range(len(sh.names)):
                ts.append(LoopBody(fam, sh, j, clauses, prefix))
        else:
            ts.append(LoopBody(fam, sh, None, clauses, prefix))
    return ts


LOSSLESS_TASKS = loop_tasks(("lossless",), "C39.lossless")
LINENO_TASKS = loop_tasks(("lineno",), "C39.lineno")

TASKS = LOSSLESS_TASKS + LINENO_TASKS

META = {"level": "other", "explanation": "", "assumptions": [], "trusted_base": []}
