"""C39  The raw token stream is lossless and line-accurate.

Proof of mechanism under A8/A9 + bounded cross-check (DESIGN section 5, C39).  `Lexer.tokeniter` is a ~150-line generator
driven by a regex state stack; it is verified as STRAIGHT-LINE SEGMENTS of the real AST (located by structure):

  segment PRE    the first statements (line-break normalisation, trailing newline): the VC of C11.preamble, run here as
                 C39.tokeniter.preamble: working source = LF-join of the lines minus at most one trailing empty line
  segment INIT   the statements between the preamble and the `while`                       -> the invariant holds on entry
  segment BODY   the whole body of `for regex, tokens, new_state in statetokens`, once per distinct rule shape of the A9
                 family, with the rule's REAL tokens/new_state objects and an abstract match object obeying the regex facts
                 of the rule's real pattern (partition / one_named / sign groups / min width; A8)  -> invariant preserved
  segment END    the for-else (no rule matched)                                            -> returns only when pos >= len
  not under VC   the state stack discipline (`stack`, `self.rules[...]`, `statetokens`: abstracted, no claim), which rule is
                 tried first, and how far a match extends (A8): carried by the bounded stand-in C39.bounded.lex.

Invariant (one abstract iteration): the values yielded so far, interleaved with the pieces removed by the two
left-stripping steps, concatenate to source[:pos] (lossless: per iteration, yields = match with only the C12.lstrip.left
whitespace removed), `lineno == 1 + source[:pos].count("\\n")`, every yielded token carries 1 + the number of line breaks
before its first character (lineno), newlines_stripped == 0, line_starting == "the previous match ended a line".
"""
from __future__ import annotations

import time

import z3

from pyvc import regexfacts as RF
from pyvc.contract import VC, FnTask, Res
from pyvc.interp import Raised
from pyvc.smt import to_term, model_value, host_const
from pyvc.values import Sym, Ref, HObj, HList, HDict, Exc, Unsupported, fresh, fresh_name, sym
from pyvc import abstract as A

import jinja2
import jinja2.lexer as L
from jinja2.exceptions import TemplateSyntaxError

from contracts import _lex as X

PROP = "C39"
nl = X.nl_count
EMPTY = z3.StringVal("")


class FakeRegex:
    pass


class FakeStack:
    pass


class FakeRules:
    pass


def split_axiom(s, k):
    """additivity of count at a cut position: s = s[:k] + s[k:] for 0 <= k <= len(s)"""
    return z3.Implies(z3.And(0 <= k, k <= z3.Length(s)), nl(s) == nl(z3.SubString(s, 0, k)) + nl(X.suffix_from(s, k)))


class LoopBody(X.SegmentVC):
    """One abstract iteration of the tokenizer loop for one rule shape (branch j of a 'named' rule)."""
    prop = PROP
    target = "jinja2.lexer:Lexer.tokeniter"
    timeout_quick = 40000
    clauses = ("lossless", "lineno")

    def __init__(self, family, shape, j=None, clauses=("lossless", "lineno"), prefix="C39.loop"):
        self.family, self.shape, self.j = family, shape, j
        self.clauses = clauses
        label = f"{family}:{shape.label()}" + (f".{shape.names[j]}" if j is not None else "")
        super().__init__(PROP, f"{prefix}[{label}]")
        self.posts = [(n, f) for n, f in self.all_posts if n.split(".")[0] in clauses or n.split(".")[0] == "common"]

    def segment(self):
        P = X.tokeniter_parts()
        self.R = P["roles"]
        return P["rule_for"].body, P["fn"], P["module"], "Lexer.tokeniter"

    # ------------------------------------------------------------------ specs of the callees
    def configure(self, I):
        X.install_string_specs(I, patterns=[L.whitespace_re])
        I.feas_timeout = 120  # an undecided feasibility check keeps the path (sound); the reachability filter runs later
        c = self
        sh = self.shape

        def match_h(I_, st, args, kwargs, node):
            # regex.match(source, pos): either no match, or a match obeying the regex facts of the rule's real pattern (A8)
            if len(args) != 3 or args[1] is not c.source or args[2] is not c.pos:
                raise Unsupported("regex.match is not called as match(source, pos)", node)
            s_no = st.fork()
            s_no.note("no match")
            m = c.build_match(I_, st)
            return [(s_no, None), (st, m)]

        I.specs["FakeRegex.match"] = match_h
        I.specs["FakeStack.pop"] = A.abstract_fn("stack.pop", returns="str")
        I.specs["FakeStack.append"] = A.abstract_fn("stack.append", returns=None)
        I.specs["FakeStack.__getitem__"] = A.abstract_fn("stack.__getitem__", returns="str")
        I.specs["FakeRules.__getitem__"] = A.abstract_fn("rules.__getitem__", returns="obj")
        prev_repr = I.specs.get(("fn", id(repr)))

        def repr_h(I_, st, args, kwargs, node):
            if args and isinstance(args[0], Ref) and isinstance(st.get(args[0]), HObj) and st.get(args[0]).cls is FakeRegex:
                return [(st, "<regex>")]
            return prev_repr(I_, st, args, kwargs, node)

        I.specs[("fn", id(repr))] = repr_h
        if isinstance(sh.tokens, tuple):
            for t in sh.tokens:
                if isinstance(t, L.Failure):
                    def fail_h(I_, st, args, kwargs, node, t=t):
                        return [(st, Exc(t.error_class, (t.message,) + tuple(args), origin=getattr(node, "lineno", None)))]
                    I.specs[("fn", id(t))] = fail_h

    def build_match(self, I, st):
        sh = self.shape
        src, pos = self.source.t, self.pos.t
        M = X.not_none(st, fresh("M", "str"))
        self.M = M.t
        st.assume(pos + z3.Length(M.t) <= z3.Length(src), z3.SubString(src, pos, z3.Length(M.t)) == M.t)  # A8: the match is source[pos:end]
        # the same equation for the last character (a consequence, stated so that z3 need not derive it)
        st.assume(z3.Implies(z3.Length(M.t) >= 1, X.char_at(src, pos + z3.Length(M.t) - 1) == X.char_at(M.t, z3.Length(M.t) - 1)))
        if sh.min_width >= 1:
            st.assume(z3.Length(M.t) >= 1)  # width fact
        gd = {}
        self.sign = None
        self.is_var = False
        if sh.kind == "named":
            T = X.not_none(st, fresh("text", "str"))
            V = X.not_none(st, fresh("tag", "str"))
            S = X.sign_value(st, "sign")
            st.assume(M.t == z3.Concat(T.t, V.t), z3.Length(V.t) >= max(1, sh.branch_min[self.j]))
            groups = [T]
            for i, n in enumerate(sh.names):
                groups += [V, S] if i == self.j else [None, None]
                gd[n] = V if i == self.j else None
            self.orig = [T.t, V.t]
            self.sign = S.t
            self.is_var = sh.names[self.j] == L.TOKEN_VARIABLE_BEGIN
            self.expect_tokens = [sh.tokens[0], sh.names[self.j]]
        elif sh.kind == "partition":
            gs = [X.not_none(st, fresh(f"g{i + 1}", "str")) for i in range(sh.k)]
            st.assume(M.t == (z3.Concat(*[g.t for g in gs]) if len(gs) > 1 else gs[0].t))
            groups = list(gs)
            if sh.sign_nested:
                S = X.sign_value(st, "sign")
                groups.append(S)
                self.sign = S.t
            self.orig = [g.t for g in gs]
            self.expect_tokens = list(sh.tokens)
        elif sh.kind == "plain":
            groups = [X.not_none(st, fresh(f"g{i + 1}", "str")) for i in range(sh.ngroups)]  # never read by the body
            self.orig = [M.t]
            self.expect_tokens = [sh.tokens]
        else:
            raise Unsupported(f"regex facts of rule {sh.label()} not established")
        if sh.lstrip:
            self.K = X.after_last_break(st, self.orig[0])
        self.groups0 = tuple(groups)
        return X.make_match(I, st, self.groups0, M, gd, self.pos)

    # ------------------------------------------------------------------ pre-state: the loop invariant
    def setup(self, I, st):
        R = X.tokeniter_parts()["roles"]
        sh = self.shape
        self.M = None
        self.source = sym("source", "str")
        self.pos = sym("pos", "int")
        self.lineno0 = sym("lineno", "int")
        self.lstrip = sym("lstrip_blocks", "bool")
        self.line_starting = sym("line_starting", "bool")
        src, pos = self.source.t, self.pos.t
        st.assume(0 <= pos, pos <= z3.Length(src))
        # INVARIANT: lineno = 1 + number of line breaks in source[:pos]
        st.assume(self.lineno0.t == 1 + nl(z3.SubString(src, 0, pos)))
        if "linestart" in self.clauses:
            st.assume(z3.Implies(self.line_starting.t, self.at_line_start(pos)))  # INVARIANT of the flag (entry: LoopInit)
        self.regex = st.alloc(HObj(FakeRegex, path="regex"), initial=True)
        self.stack = st.alloc(HObj(FakeStack, path="stack"), initial=True)
        rules = st.alloc(HObj(FakeRules, path="rules"), initial=True)
        self.lexer = st.alloc(HObj(L.Lexer, fields={"lstrip_blocks": self.lstrip, "rules": rules}, path="self"), initial=True)
        self.bal = A.alist(st, "balancing", "str")
        self.bal_n0 = st.get(self.bal).n
        return {R.self: self.lexer, R.source: self.source, R.pos: self.pos, R.lineno: self.lineno0, R.stack: self.stack,
                R.balancing_stack: self.bal, R.newlines_stripped: 0, R.line_starting: self.line_starting,
                R.statetokens: sym("statetokens", "obj"), R.source_length: Sym(z3.Length(src), "int"),
                R.name: sym("name", "obj"), R.filename: sym("filename", "obj"),
                R.regex: self.regex, R.tokens: sh.tokens, R.new_state: sh.new_state}

    # ------------------------------------------------------------------ reading a path
    def yields(self, out):
        ys = []
        for y in out.st.yields:
            if not (isinstance(y, tuple) and len(y) == 3):
                return None
            ys.append(y)
        return ys

    def index_of(self, y):
        """position of a yielded token among the rule's token kinds"""
        tok = y[1]
        if not isinstance(tok, str) or tok not in self.expect_tokens:
            return None
        return self.expect_tokens.index(tok)

    def lemmas(self, out):
        out_l = []
        if self.shape.lstrip and self.M is not None:
            for s, needle, r in out.st.ghost.get("rfind", ()):
                if needle == "\n" and s.eq(self.orig[0]):
                    out_l += [self.K == r + 1, z3.Contains(self.orig[0], X.NL) == (r >= 0)]
            g = self.local(out, self.R.groups)
            if isinstance(g, Ref):
                g0 = to_term(out.st.get(g).items[0], "str")
                T = self.orig[0]
                # facts about the kept text that follow from its term structure alone (a slice / strip of the text)
                out_l += [z3.PrefixOf(g0, T), g0 == z3.SubString(T, 0, z3.Length(g0))]
                for s, needle, r in out.st.ghost.get("rfind", ()):
                    if needle == "\n" and s.eq(T):
                        out_l += [z3.Or(z3.Length(g0) == r + 1, g0 == T), z3.Length(g0) == r + 1,
                                  X.suffix_from(T, z3.Length(g0)) == X.suffix_from(T, r + 1)]
        return out_l

    # ------------------------------------------------------------------ postconditions
    def p_paths(self, pre, out):
        """how an iteration may end: `continue` (rule not applicable: nothing yielded, nothing changed), `break` (rule
        applied) or a TemplateSyntaxError; never falls through, never another exception"""
        if out.kind == "continue":
            R = self.R
            same = (self.local(out, R.pos) is self.pos and self.local(out, R.lineno) is self.lineno0
                    and self.local(out, R.newlines_stripped) == 0 and self.local(out, R.line_starting) is self.line_starting)
            return not out.st.yields and same
        if out.kind == "break":
            return "no match" not in out.st.notes
        if out.kind == "raise":
            e = out.value
            if e.cls is TemplateSyntaxError:
                return True
            if e.cls is RuntimeError:
                return False if "no match" in out.st.notes else None  # decided by p_no_runtime_error
            return False
        return False

    def p_no_runtime_error(self, pre, out):
        """the internal-error exits (no named group matched / empty match without state change) are unreachable
        under the regex facts"""
        if out.kind == "raise" and out.value.cls is RuntimeError:
            return z3.BoolVal(False)  # the path condition must be unsatisfiable
        return None

    def p_pos(self, pre, out):
        """pos advances by exactly the match"""
        if out.kind != "break":
            return None
        return to_term(self.local(out, self.R.pos), "int") == self.pos.t + z3.Length(self.M)

    def p_lossless(self, pre, out):
        """the values yielded in this iteration are, in order, the pieces of the match; only the text group of an
        OptionalLStrip rule may lose a suffix, which is whitespace and exactly what the C12 left-hand rules remove"""
        if out.kind != "break":
            return None
        ys = self.yields(out)
        if ys is None:
            return False
        idx = [self.index_of(y) for y in ys]
        if any(i is None for i in idx) or idx != sorted(set(idx)):
            return False  # an unexpected token kind, or out of order / repeated
        conj = []
        n = len(self.orig)
        vals = {i: to_term(y[2], "str") for i, y in zip(idx, ys)}
        gfinal = self.local(out, self.R.groups) if isinstance(self.shape.tokens, tuple) else None
        if isinstance(gfinal, Ref):
            gfinal = out.st.get(gfinal).items
        for i in range(n):
            if i in vals:
                piece = vals[i]
            elif gfinal is not None and i < len(gfinal) and gfinal[i] is not None:
                piece = to_term(gfinal[i], "str")  # a suppressed token must be an empty one
                conj.append(piece == EMPTY)
            else:
                piece = EMPTY
            if i == 0 and self.shape.lstrip:
                T = self.orig[0]
                conj.append(z3.PrefixOf(piece, T))
                conj.append(X.all_ws(X.suffix_from(T, z3.Length(piece))))
                conj.append(X.left_spec(T, self.sign, self.lstrip.t, self.is_var, self.line_starting.t, self.K, piece))
            else:
                conj.append(piece == self.orig[i])
        return z3.And(*conj)

    def p_line_starting(self, pre, out):
        """line_starting' == the match ended with a line break"""
        if out.kind != "break":
            return None
        n = z3.Length(self.M)
        ends_line = z3.And(n >= 1, X.char_at(self.M, n - 1) == X.NL)  # the last character of the match is a line break
        return to_term(self.local(out, self.R.line_starting), "bool") == ends_line

    def at_line_start(self, pos):
        """the text consumed so far (source[:pos]) is empty or ends in a line break"""
        return z3.Or(pos == 0, X.char_at(self.source.t, pos - 1) == X.NL)

    def p_linestart_after_match(self, pre, out):
        """after every match the flag says whether the CONSUMED TEXT now ends in a line break because of this match:
        line_starting' <=> the match is non-empty and source[pos' - 1] is a line break (stated on the working source and the
        new position, not on whatever value the code looked at)"""
        if out.kind != "break":
            return None
        pos2 = to_term(self.local(out, self.R.pos), "int")
        ends = z3.And(z3.Length(self.M) >= 1, pos2 >= 1, X.char_at(self.source.t, pos2 - 1) == X.NL)
        return to_term(self.local(out, self.R.line_starting), "bool") == ends

    def p_linestart_invariant(self, pre, out):
        """invariant (assumed on entry of the iteration, C12.lstrip.left relies on it): line_starting => pos == 0 or
        source[pos - 1] is a line break, i.e. the flag is only ever set at the start of a line"""
        if out.kind != "break":
            return None
        pos2 = to_term(self.local(out, self.R.pos), "int")
        return z3.Implies(to_term(self.local(out, self.R.line_starting), "bool"), self.at_line_start(pos2))

    def offsets(self):
        """start offset (within the match) of each top-level piece"""
        offs, acc = [], z3.IntVal(0)
        for g in self.orig:
            offs.append(acc)
            acc = acc + z3.Length(g)
        return offs

    def count_facts(self, out):
        """instances of the str.count dependency spec needed on this path (additivity at the cut positions used)"""
        src, pos = self.source.t, self.pos.t
        facts = []
        # source[:pos + off] = source[:pos] + match[:off] for every piece boundary, and for the whole match
        offs = self.offsets() + [z3.Length(self.M)]
        for off in offs:
            whole = z3.SubString(src, 0, pos + off)
            facts.append(nl(whole) == nl(z3.SubString(src, 0, pos)) + nl(z3.SubString(self.M, 0, off)))
        acc = None
        for g, off in zip(self.orig, offs[1:]):
            acc = g if acc is None else z3.Concat(acc, g)
            facts.append(z3.SubString(self.M, 0, off) == acc)
        facts.append(nl(EMPTY) == 0)
        facts.append(z3.SubString(self.M, 0, 0) == EMPTY)
        # nl(g1 + ... + gi) = sum
        acc, tot = None, z3.IntVal(0)
        for g in self.orig:
            acc = g if acc is None else z3.Concat(acc, g)
            tot = tot + nl(g)
            facts.append(nl(acc) == tot)
        if self.shape.lstrip:
            T = self.orig[0]
            ys = self.yields(out) or []
            for y in ys:
                if self.index_of(y) == 0:
                    k = z3.Length(to_term(y[2], "str"))
                    facts.append(split_axiom(T, k))
                    facts.append(z3.Implies(z3.Not(z3.Contains(X.suffix_from(T, k), X.NL)), nl(X.suffix_from(T, k)) == 0))
            # when the data token is suppressed the kept text is empty: the whole text was removed
            facts.append(split_axiom(T, z3.IntVal(0)))
            facts.append(z3.Implies(z3.Not(z3.Contains(T, X.NL)), nl(T) == 0))
            facts.append(X.suffix_from(T, 0) == T)
        return facts

    def p_lineno_tokens(self, pre, out):
        """every yielded token carries 1 + the number of line breaks of the working source before its first character"""
        if out.kind != "break":
            return None
        ys = self.yields(out)
        if ys is None:
            return False
        src, pos = self.source.t, self.pos.t
        offs = self.offsets()
        conj = []
        for y in ys:
            i = self.index_of(y)
            if i is None:
                return False
            conj.append(to_term(y[0], "int") == 1 + nl(z3.SubString(src, 0, pos + offs[i])))
        return z3.Implies(z3.And(*self.count_facts(out)), z3.And(*conj)) if conj else None

    def p_lineno_invariant(self, pre, out):
        """invariant preserved: lineno' == 1 + number of line breaks in source[:pos'], and newlines_stripped' == 0"""
        if out.kind != "break":
            return None
        src = self.source.t
        pos2 = self.pos.t + z3.Length(self.M)
        ln = to_term(self.local(out, self.R.lineno), "int")
        ns = to_term(self.local(out, self.R.newlines_stripped), "int")
        return z3.Implies(z3.And(*self.count_facts(out)), z3.And(ln == 1 + nl(z3.SubString(src, 0, pos2)), ns == 0))

    all_posts = [("common.paths", p_paths), ("common.no_internal_error", p_no_runtime_error), ("common.pos", p_pos),
                 ("lossless.pieces", p_lossless), ("lossless.line_starting", p_line_starting),
                 ("lineno.tokens", p_lineno_tokens), ("lineno.invariant", p_lineno_invariant),
                 ("linestart.after_match", p_linestart_after_match), ("linestart.invariant", p_linestart_invariant)]

    # ------------------------------------------------------------------ witness / replay
    def concretize(self, model, pre, out):
        w = {"family": self.family, "rule": self.shape.label(), "branch": (self.shape.names[self.j] if self.j is not None else None),
             "lstrip_blocks": bool(model_value(model, self.lstrip.t)), "line_starting": bool(model_value(model, self.line_starting.t))}
        if self.M is not None:
            w["match"] = X.mstr(model, self.M)
            w["pieces"] = [X.mstr(model, g) for g in self.orig]
            if self.sign is not None:
                w["sign"] = X.mstr(model, self.sign)
        return w

    def replay(self, w):
        return replay_loop(w)


def class_map(text):
    return "".join("\n" if c == "\n" else ("\x0c" if c == "\r" else c) if c in X.WS_PY else "x" for c in text)


def replay_loop(w):
    """Natively: the extended skeleton corpus (all N <= 1, 3000 seeded N = 2; tags with every modifier, multi-line tags, raw blocks)
    in the witness' delimiter family and in the default one, under the four trim/lstrip settings, through the REAL
    Environment.lex; oracle = the property's own: the token values tile the working source minus exactly the whitespace the
    documented left-hand rules remove (C12 reference model), and every lineno is a direct count."""
    fams = ["default"] + ([w["family"]] if w.get("family") in ("asp", "dollar", "shared") else [])
    n = 0
    for fam in fams:
        for ids in X.family_sample(0, n2=3000):
            for setting in X.SETTINGS:
                src, bad = lex_case(ids, setting, fam)
                n += 1
                if bad:
                    return (True, f"{fam} delimiters, trim_blocks={setting[0]} lstrip_blocks={setting[1]}, source {src!r}: {bad}")
    if w.get("family", "").startswith("line"):
        env = jinja2.Environment(line_statement_prefix="#", line_comment_prefix="##", lstrip_blocks=w.get("lstrip_blocks", False))
        for src in ("a\n# set q = 1\nb ## c\n  # set r =\\\n 2\n{{ q }}\n", "## c\n#- set q = 1\nx"):
            bad = lex_oracle(env, src)
            if bad:
                return (True, bad)
    return (False, f"the real Environment.lex is lossless and line-accurate on {n} corpus sources")


def lex_oracle(env, src, removed_ok=None):
    """the property's own oracle on one source: -> None or a description of the violation"""
    work = X.spec_working_source(src, env.keep_trailing_newline)
    try:
        toks = list(env.lex(src))
    except TemplateSyntaxError as ex:
        return None
    pos = 0
    for ln, tok, val in toks:
        k = work.find(val, pos) if val else pos
        if k < 0:
            return f"{src!r}: token {tok}={val!r} does not occur in the working source after position {pos}"
        gap = work[pos:k]
        if gap.strip(X.WS_PY):
            return f"{src!r}: non-whitespace text {gap!r} is missing from the token stream before {tok}={val!r}"
        # the gap is whitespace the left-hand rules removed; tokens that start with whitespace could be matched late, so
        # always take the earliest position whose gap is whitespace only (k is the earliest occurrence)
        want = 1 + work[:k].count("\n")
        if ln != want:
            return f"{src!r}: token {tok}={val!r} starting at offset {k} carries lineno {ln}, direct count {want}"
        pos = k + len(val)
    if work[pos:].strip(X.WS_PY) or work[pos:]:
        return f"{src!r}: the token stream ends at offset {pos} of {len(work)}"
    return None


def loop_tasks(clauses, prefix, cls=None, by_position=True):
    """by_position=False: one VC per (number of branches, variable tag or not) of the root rule instead of one per matched
    branch position (for clauses that do not depend on which groups of the match are set)"""
    cls = cls or LoopBody
    ts = []
    seen = set()
    for fam, sh in X.rule_shapes():
        if sh.kind == "named":
            for j in range(len(sh.names)):
                # the body only distinguishes the number of branches, the position of the matched one and whether it is the
                # variable tag: one VC per such combination over the families
                key = (len(sh.names), j if by_position else None, sh.names[j] == L.TOKEN_VARIABLE_BEGIN)
                if key in seen:
                    continue
                seen.add(key)
                ts.append(cls(fam, sh, j, clauses, prefix))
        else:
            ts.append(cls(fam, sh, None, clauses, prefix))
    return ts


# ====================================================================== segments INIT and END


def preamble_end(P):
    """index in P['pre'] of the first statement after the preamble (= after the last assignment to `source`)"""
    import ast
    R = P["roles"]
    last = -1
    for k, stt in enumerate(P["pre"]):
        if isinstance(stt, ast.Assign) and any(isinstance(t, ast.Name) and t.id == R.source for t in stt.targets):
            last = k
    return last + 1


class LoopInit(X.SegmentVC):
    """The statements between the preamble and the `while`: the invariant holds on entry."""
    prop = PROP
    target = "jinja2.lexer:Lexer.tokeniter"

    def __init__(self, state, prefix="C39.tokeniter.init"):
        self.state = state
        super().__init__(PROP, f"{prefix}[state={state!r}]")

    def segment(self):
        P = X.tokeniter_parts()
        self.R = P["roles"]
        return P["pre"][preamble_end(P):], P["fn"], P["module"], "Lexer.tokeniter"

    def configure(self, I):
        I.specs["FakeRules.__getitem__"] = A.abstract_fn("rules.__getitem__", returns="obj")

    def setup(self, I, st):
        R = X.tokeniter_parts()["roles"]
        self.source = sym("source", "str")
        rules = st.alloc(HObj(FakeRules, path="rules"), initial=True)
        lexer = st.alloc(HObj(L.Lexer, fields={"rules": rules}, path="self"), initial=True)
        return {R.self: lexer, R.source: self.source, R.state: self.state, R.name: sym("name", "obj"), R.filename: sym("filename", "obj")}

    def p_entry(self, pre, out):
        """pos = 0, lineno = 1 (= 1 + the number of line breaks before position 0), nothing pending, the start of the source
        is the start of a line, source_length = len(source), brackets balanced, the state stack starts at root"""
        R = self.R
        if self.state not in (None, "root", "variable", "block"):
            return out.kind == "raise" and out.value.cls is AssertionError
        if out.kind != "ok":
            return False
        loc = lambda n: self.local(out, n)
        bal = out.st.get(loc(R.balancing_stack)) if isinstance(loc(R.balancing_stack), Ref) else None
        stack = out.st.get(loc(R.stack)) if isinstance(loc(R.stack), Ref) else None
        want_stack = ["root"] + ([self.state + "_begin"] if self.state not in (None, "root") else [])
        calls = A.calls(out, "rules.__getitem__")
        ok = (loc(R.pos) == 0 and loc(R.lineno) == 1 and loc(R.newlines_stripped) == 0 and loc(R.line_starting) is True
              and bal is not None and bal.concrete and bal.items == [] and stack is not None and stack.concrete and stack.items == want_stack
              and len(calls) == 1 and calls[0].args[1] == want_stack[-1] and loc(R.statetokens) is calls[0].result)
        if not ok:
            return False
        return to_term(loc(R.source_length), "int") == z3.Length(self.source.t)

    posts = [("entry_invariant", p_entry)]

    def concretize(self, model, pre, out):
        return {"state": self.state}

    def replay(self, w):
        return replay_loop({"family": "default", "lstrip_blocks": False, "line_starting": True})


class LoopEnd(X.SegmentVC):
    """The for-else (no rule matched at pos): returns only at the end of the working source, else TemplateSyntaxError."""
    prop = PROP
    target = "jinja2.lexer:Lexer.tokeniter"

    def __init__(self):
        super().__init__(PROP, "C39.tokeniter.end")

    def segment(self):
        P = X.tokeniter_parts()
        self.R = P["roles"]
        return P["at_end"], P["fn"], P["module"], "Lexer.tokeniter"

    def setup(self, I, st):
        R = X.tokeniter_parts()["roles"]
        self.source, self.pos = sym("source", "str"), sym("pos", "int")
        st.assume(0 <= self.pos.t, self.pos.t <= z3.Length(self.source.t))
        return {R.source: self.source, R.pos: self.pos, R.source_length: Sym(z3.Length(self.source.t), "int"),
                R.lineno: sym("lineno", "int"), R.name: sym("name", "obj"), R.filename: sym("filename", "obj")}

    def p_complete(self, pre, out):
        """normal termination only when everything was consumed (pos = len(source)); otherwise a TemplateSyntaxError; nothing yielded"""
        if out.st.yields:
            return False
        if out.kind == "return":
            return self.pos.t == z3.Length(self.source.t)
        if out.kind == "raise":
            return out.value.cls is TemplateSyntaxError
        return False

    posts = [("returns_only_at_end", p_complete)]

    def concretize(self, model, pre, out):
        return {"source": X.mstr(model, self.source.t), "pos": model_value(model, self.pos.t)}

    def replay(self, w):
        return replay_loop({"family": "default", "lstrip_blocks": False, "line_starting": True})


def loop_frame(task, tier, seed):
    """structural side conditions of the segment decomposition: inside the `while`, `source` and `source_length` are never
    re-assigned, pos is assigned only from m.end(), and the loop body consists of the rule `for` alone"""
    import ast
    t0 = time.time()
    P = X.tokeniter_parts()
    R = P["roles"]
    stores = {}
    for n in ast.walk(P["loop"]):
        if isinstance(n, ast.Name) and isinstance(n.ctx, ast.Store):
            stores.setdefault(n.id, []).append(n.lineno)
    out = []
    bad = [k for k in (R.source, R.source_length, R.self) if k in stores]
    out.append(Res("C39.tokeniter.frame.source_fixed", "discharged" if not bad else "refuted", "ast", time.time() - t0,
                   f"assigned inside the loop: {bad}" if bad else "source / source_length / self are not assigned inside the loop", "table",
                   None if not bad else {"assigned": bad}))
    only_for = len(P["loop"].body) == 1 and P["loop"].body[0] is P["rule_for"] and isinstance(P["loop"].test, ast.Constant) and P["loop"].test.value is True
    out.append(Res("C39.tokeniter.frame.loop_is_rule_for", "discharged" if only_for else "unknown", "ast", time.time() - t0,
                   "the `while True` body is exactly the rule loop with its else-branch", "table"))
    return out


def states_closed(task, tier, seed):
    """table: every state the loop can push (named groups of the root rule, explicit new_state strings) is a key of
    lexer.rules; '#pop' only occurs in non-root states (the abstraction of the state stack in the BODY VCs makes no claim
    about it; this is the fact it would need)"""
    out = []
    for cname, kw in RF.delimiter_families().items():
        t0 = time.time()
        lx = RF.lexer_for(kw)
        keys = set(lx.rules)
        bad = []
        for state, rules in lx.rules.items():
            for i, r in enumerate(rules):
                if r.command == "#bygroup":
                    bad += [f"{state}[{i}] may push {n!r}" for n in r.pattern.groupindex if n not in keys]
                elif r.command == "#pop":
                    if state == "root":
                        bad.append(f"root[{i}] pops")
                elif r.command is not None and r.command not in keys:
                    bad.append(f"{state}[{i}] pushes {r.command!r}")
        out.append(Res(f"C39.states.closed[{cname}]", "discharged" if not bad else "refuted", "table", time.time() - t0,
                       "; ".join(bad) or "every pushed state is a key of lexer.rules; root never pops", "table", None if not bad else {"config": kw, "bad": bad}))
    return out


# ====================================================================== C39.env.lex

import jinja2.environment as E  # noqa: E402

py_str_of = None


class EnvLex(VC):
    """Environment.lex returns the lexer's tokeniter of str(source): one call, same name/filename, no preprocessing."""
    prop = PROP
    target = "jinja2.environment:Environment.lex"

    def __init__(self):
        super().__init__(PROP, "C39.env.lex")

    def configure(self, I):
        I.specs["Lexer.tokeniter"] = A.abstract_fn("Lexer.tokeniter", returns="obj", raises=(TemplateSyntaxError,))
        I.specs["Lexer.tokenize"] = A.abstract_fn("Lexer.tokenize", returns="obj")
        I.specs["Environment.preprocess"] = A.abstract_fn("Environment.preprocess", returns="str")
        I.specs["Environment._tokenize"] = A.abstract_fn("Environment._tokenize", returns="obj")
        I.specs["Environment.iter_extensions"] = A.abstract_fn("Environment.iter_extensions", returns="obj")

        def handle_exception(I_, st, args, kwargs, node):
            # documented NoReturn: re-raises the current exception (rewritten traceback)
            e = Exc(TemplateSyntaxError, (), tag="handle_exception", origin=getattr(node, "lineno", None))
            A.call_event(st, "Environment.handle_exception", args, kwargs, e, node)
            return [(st, Raised(e))]

        I.specs["Environment.handle_exception"] = handle_exception

    def setup(self, I, st):
        self.lexer = st.alloc(HObj(L.Lexer, path="lexer"), initial=True)
        self.env = st.alloc(HObj(E.Environment, fields={"lexer": self.lexer}, path="self"), initial=True)
        self.source, self.name_, self.filename = sym("source", "obj"), sym("name", "obj"), sym("filename", "obj")
        return [self.env, self.source, self.name_, self.filename], {}

    def p_lex(self, pre, out):
        calls = [e for e in out.st.trace if e.kind == "call"]
        tk = [e for e in calls if e.name == "Lexer.tokeniter"]
        others = [e.name for e in calls if e.name not in ("Lexer.tokeniter", "Environment.handle_exception")]
        if others or len(tk) != 1:
            return False
        a = tk[0].args
        if len(a) != 4 or a[0] != self.lexer or a[2] is not self.name_ or a[3] is not self.filename or tk[0].kwargs:
            return False
        from pyvc.models import py_str_obj
        is_str = isinstance(a[1], Sym) and a[1].k == "str" and z3.simplify(a[1].t == py_str_obj(self.source.t))
        if not (is_str is not False and z3.is_true(is_str)):
            return False
        if out.kind == "return":
            return out.value is tk[0].result
        # a TemplateSyntaxError raised while creating the generator goes through handle_exception(source=str(source))
        he = [e for e in calls if e.name == "Environment.handle_exception"]
        return out.kind == "raise" and len(he) == 1

    posts = [("tokeniter_of_str_source", p_lex)]

    def concretize(self, model, pre, out):
        return {}

    def replay(self, w):
        return replay_env_lex(w)


def replay_env_lex(w):
    """natively: Environment.lex(source) yields exactly what lexer.tokeniter(str(source)) yields, for str and non-str
    sources, with an extension whose preprocess would change the source installed (it must NOT be applied)"""
    from jinja2.ext import Extension

    class Shout(Extension):
        def preprocess(self, source, name, filename=None):
            return source.upper()

    class Src:
        def __str__(self):
            return "a {{ b }}\n{# c #}"

    env = jinja2.Environment(extensions=[Shout])
    bad = []
    for src in ("x {{ y }}\n{% raw %} z {% endraw %}", Src()):
        got = list(env.lex(src, "n", "f"))
        want = list(env.lexer.tokeniter(str(src), "n", "f"))
        if got != want:
            bad.append((str(src), got[:3], want[:3]))
    return (bool(bad), f"Environment.lex differs from lexer.tokeniter(str(source)): {bad}" if bad else "Environment.lex == tokeniter(str(source))")


# ====================================================================== C39.comment_finder

import jinja2.ext as EXT  # noqa: E402
from pyvc.stmts import LoopSpec  # noqa: E402
from pyvc.values import SSeq, fresh_arr  # noqa: E402

# token types / values / comment tags are modelled as abstract atoms (only equality and the uninterpreted split / rstrip
# functions matter): goals mixing quantified array axioms with z3 strings made z3 ignore its timeout now and then
from pyvc.values import Obj as O_  # noqa: E402
from pyvc.smt import str2obj  # noqa: E402
S_, I_, B_ = z3.StringSort(), z3.IntSort(), z3.BoolSort()
f_has2 = z3.Function("split_has_two_fields", O_, B_)  # v.split(None, 1) has two fields
f_first = z3.Function("split_first_field", O_, O_)
f_rest = z3.Function("split_rest", O_, O_)
f_rstrip = z3.Function("py_rstrip", O_, O_)
TOK_KIND = ("int", "obj", "obj")


def abstract_seq_specs(I):
    """enumerate / reversed over a list of symbolic length (array encodings)"""
    prev_rev = I.specs.get(("fn", id(reversed)))
    prev_enum = I.specs.get(("fn", id(enumerate)))

    def as_sseq(st, a):
        if isinstance(a, SSeq):
            return a
        if isinstance(a, Ref) and isinstance(st.get(a), HList) and not st.get(a).concrete:
            h = st.get(a)
            return SSeq(h.arr, h.n, h.k)
        return None

    def reversed_h(I_x, st, args, kwargs, node):
        sq = as_sseq(st, args[0])
        if sq is not None:
            return prev_rev(I_x, st, [sq], kwargs, node)
        return prev_rev(I_x, st, args, kwargs, node)

    def enumerate_h(I_x, st, args, kwargs, node):
        sq = as_sseq(st, args[0])
        if sq is None or len(args) > 1 or kwargs:
            if prev_enum is not None:
                return prev_enum(I_x, st, args, kwargs, node)
            raise Unsupported("enumerate", node)
        idx = fresh_arr("enum_idx", "int")
        j = z3.Int(fresh_name("j"))
        st.assume(z3.ForAll([j], z3.Select(idx, j) == j))
        return [(st, SSeq((idx, sq.arr), sq.n, ("int", sq.k)))]

    I.specs[("fn", id(reversed))] = reversed_h
    I.specs[("fn", id(enumerate))] = enumerate_h


class FinderBase(VC):
    prop = PROP

    def discharge(self, name, pc, cond, timeout, seed, pre, out):
        """cvc5 (which honours its limits) on the formulas as generated first; z3 only for what cvc5 leaves open"""
        if cond is True or cond is False:
            return super().discharge(name, pc, cond, timeout, seed, pre, out)
        r = X.check_sat_fresh(list(pc) + [z3.Not(cond)], min(timeout, 8000), seed, cvc5_only=True)
        if r.status == "unsat":
            return Res(name, "discharged", r.backend, r.seconds, "", self.kind)
        return super().discharge(name, pc, cond, timeout, seed, pre, out)

    def mk_finder(self, st):
        self.tokens = A.alist(st, "tokens", TOK_KIND)
        h = st.get(self.tokens)
        (self.LN, self.TY, self.VAL), self.N = h.arr, h.n
        self.tags = A.alist(st, "comment_tags", "obj")
        ht = st.get(self.tags)
        self.TAGS, self.NT = ht.arr, ht.n
        self.off0 = sym("self.offset", "int")
        self.last = sym("self.last_lineno", "int")
        st.assume(0 <= self.off0.t, self.off0.t <= self.N)
        self.finder = st.alloc(HObj(EXT._CommentFinder, fields={"tokens": self.tokens, "comment_tags": self.tags, "offset": self.off0,
                                                               "last_lineno": self.last}, path="self"), initial=True)

    def in_tags(self, p):
        t = z3.Int(fresh_name("t"))
        return z3.Exists([t], z3.And(0 <= t, t < self.NT, z3.Select(self.TAGS, t) == p))

    def tagged(self, i):
        """token i is a translator comment: a comment / line comment whose first field is one of the comment tags"""
        ty, v = z3.Select(self.TY, i), z3.Select(self.VAL, i)
        return z3.And(z3.Or(ty == str2obj(z3.StringVal("comment")), ty == str2obj(z3.StringVal("linecomment"))), f_has2(v), self.in_tags(f_first(v)))


class FindComments(FinderBase):
    """find_comments(l) = find_backwards(j), j = index of the first not-yet-consumed token whose line is past l (all tokens if
    none); [] without searching when no comment tags are configured."""
    target = "jinja2.ext:_CommentFinder.find_comments"

    def __init__(self):
        super().__init__(PROP, "C39.comment_finder.find_comments")

    def configure(self, I):
        abstract_seq_specs(I)
        I.specs["_CommentFinder.find_backwards"] = A.abstract_fn("find_backwards", returns="obj")
        c = self

        def inv(ctx):
            # the k not-yet-consumed tokens scanned so far are on lines <= l (stated on the token list itself)
            i = z3.Int(fresh_name("i"))
            return [z3.ForAll([i], z3.Implies(z3.And(c.off0.t <= i, i < c.off0.t + ctx.k), z3.Select(c.LN, i) <= c.l.t))]

        I.loops[("_CommentFinder.find_comments", 0)] = LoopSpec(inv, havoc={"idx": "int", "token_lineno": "int", "_": "obj"}, name="scan")

    def setup(self, I, st):
        self.mk_finder(st)
        self.l = sym("lineno", "int")
        return [self.finder, self.l], {}

    def p_result(self, pre, out):
        if out.raised:
            return False
        calls = A.calls(out, "find_backwards")
        skip = z3.Or(self.NT == 0, self.last.t > self.l.t)
        if not calls:
            r = out.value
            empty = isinstance(r, Ref) and isinstance(out.st.get(r), HList) and out.st.get(r).concrete and out.st.get(r).items == []
            return skip if empty else False
        if len(calls) != 1 or out.value is not calls[0].result or calls[0].args[0] != self.finder:
            return False
        j = to_term(calls[0].args[1], "int")
        i = z3.Int(fresh_name("i"))
        return z3.And(z3.Not(skip), self.off0.t <= j, j <= self.N,
                      z3.Or(j == self.N, z3.Select(self.LN, j) > self.l.t),
                      z3.ForAll([i], z3.Implies(z3.And(self.off0.t <= i, i < j), z3.Select(self.LN, i) <= self.l.t)))

    def p_frame(self, pre, out):
        return (self.finder.id, "offset") not in out.st.written and (self.finder.id, "last_lineno") not in out.st.written

    posts = [("first_token_past_the_line", p_result), ("no_state_change_of_its_own", p_frame)]

    def concretize(self, model, pre, out):
        return finder_witness(self, model, model_value(model, self.l.t))

    def replay(self, w):
        return replay_finder(w)


class FindBackwards(FinderBase):
    """find_backwards(offset): the nearest translator comment before `offset` among the tokens not yet consumed
    (self.offset <= i < offset), its text after the tag right-stripped; [] if none; self.offset = offset afterwards."""
    target = "jinja2.ext:_CommentFinder.find_backwards"

    def __init__(self):
        super().__init__(PROP, "C39.comment_finder.find_backwards")

    def configure(self, I):
        abstract_seq_specs(I)
        c = self

        def method_obj(I_x, st, args, kwargs, node):
            recv, name, rest = args[0], args[1], list(args[2:])
            from pyvc import models
            v = to_term(recv, "obj")
            if name == "split":
                if rest != [None, 1] or kwargs:
                    raise Unsupported("str.split: only split(None, 1) is specified", node)
                models.used("str.split(None, 1) [two fields (first word, rest) or fewer; uninterpreted]")
                out = []
                for s1, b in I_x.fork_bool(st, f_has2(v)):
                    out.append((s1, (Sym(f_first(v), "obj"), Sym(f_rest(v), "obj")) if b else (recv,)))
                return out
            if name == "rstrip" and not rest and not kwargs:
                models.used("str.rstrip() [uninterpreted function of its argument]")
                return [(st, Sym(f_rstrip(v), "obj"))]
            return None

        I.specs["method_obj"] = method_obj
        from pyvc.values import BoundMethod
        I.specs["getattr_obj"] = lambda I_x, st, args, kwargs, node: [(st, BoundMethod(args[0], args[1]))] if args[1] in ("split", "rstrip") else None

        def inv(ctx):
            # the k tokens looked at so far (from `offset` downwards) are not translator comments
            i = z3.Int(fresh_name("i"))
            return [z3.ForAll([i], z3.Implies(z3.And(c.offset.t - ctx.k <= i, i < c.offset.t), z3.Not(c.tagged(i))))]

        I.loops[("_CommentFinder.find_backwards", 0)] = LoopSpec(
            inv, havoc={"_": "int", "token_type": "obj", "token_value": "obj", "prefix": "obj", "comment": "obj"}, name="backwards")

    def setup(self, I, st):
        self.mk_finder(st)
        self.offset = sym("offset", "int")
        st.assume(self.off0.t <= self.offset.t, self.offset.t <= self.N)
        return [self.finder, self.offset], {}

    def p_result(self, pre, out):
        if out.raised:
            return False
        r = out.value
        if not (isinstance(r, Ref) and isinstance(out.st.get(r), HList) and out.st.get(r).concrete):
            return False
        items = out.st.get(r).items
        i = z3.Int(fresh_name("i"))
        lo, hi = self.off0.t, self.offset.t
        if not items:
            return z3.ForAll([i], z3.Implies(z3.And(lo <= i, i < hi), z3.Not(self.tagged(i))))
        if len(items) != 1:
            return False
        j = z3.Int(fresh_name("j"))
        return z3.Exists([j], z3.And(lo <= j, j < hi, self.tagged(j), to_term(items[0], "obj") == f_rstrip(f_rest(z3.Select(self.VAL, j))),
                                     z3.ForAll([i], z3.Implies(z3.And(j < i, i < hi), z3.Not(self.tagged(i))))))

    def p_consumed(self, pre, out):
        """afterwards self.offset == offset on every exit (the tokens before it are consumed)"""
        v = out.st.get(self.finder).fields.get("offset")
        return v is self.offset

    posts = [("nearest_tagged_comment_before_offset", p_result), ("offset_advanced", p_consumed)]

    def concretize(self, model, pre, out):
        return finder_witness(self, model, None, model_value(model, self.offset.t))

    def replay(self, w):
        return replay_finder(w)


def finder_witness(c, model, lineno=None, offset=None):
    return {"note": "solver model over uninterpreted split/rstrip; the native replay runs the exhaustive small-case comparison instead",
            "lineno": lineno, "offset": offset}


def spec_find_comments(tokens, tags, offset, lineno):
    """Executable statement (own words): -> (comments, new offset).  The tagged comment nearest before the first
    not-yet-consumed token whose line is past `lineno`; only tokens from `offset` on are searched; those up to the found
    position are consumed."""
    if not tags:
        return [], offset
    j = len(tokens)
    for i in range(offset, len(tokens)):
        if tokens[i][0] > lineno:
            j = i
            break
    found = []
    for i in range(j - 1, offset - 1, -1):
        ln, ty, val = tokens[i]
        if ty in ("comment", "linecomment"):
            fields = val.split(None, 1)
            if len(fields) == 2 and fields[0] in tags:
                found = [fields[1].rstrip()]
                break
    return found, j


def finder_cases(limit_len):
    import itertools
    vals = [("comment", "NOTE: a "), ("comment", "other b"), ("linecomment", "NOTE: c"), ("data", "NOTE: d"), ("comment", "NOTE:")]
    for n in range(0, limit_len + 1):
        for kinds in itertools.product(range(len(vals)), repeat=n):
            for lines in itertools.product((1, 2, 3), repeat=n):
                if list(lines) != sorted(lines):
                    continue
                yield [(ln, vals[k][0], vals[k][1]) for ln, k in zip(lines, kinds)]


def run_finder_case(tokens, tags, queries):
    f = EXT._CommentFinder(tokens, tags)
    off = 0
    for l in queries:
        got = f.find_comments(l)
        want, off2 = spec_find_comments(tokens, tags, off, l)
        if got != want or (tags and f.offset != off2):
            return f"tokens={tokens} tags={tags} queries={queries}: find_comments({l}) -> {got} offset {f.offset}; specification {want} offset {off2}"
        off = f.offset
    return None


def bounded_finder(task, tier, seed):
    """stand-in for the composition of the two VCs and for str.split/rstrip: every token list of length <= 3 (4 thorough) over 5
    token values x nondecreasing lines 1..3, tags ['NOTE:'] / [], every nondecreasing query sequence of length <= 2 over lines 0..4"""
    import itertools
    t0 = time.time()
    n = 0
    L_ = 4 if tier != "quick" else 3
    queries = [q for k in (1, 2) for q in itertools.product(range(0, 5), repeat=k) if list(q) == sorted(q)]
    for tokens in finder_cases(L_):
        for tags in (["NOTE:"], []):
            for q in queries:
                n += 1
                bad = run_finder_case(tokens, tags, q)
                if bad:
                    return [Res("C39.comment_finder.bounded.case", "refuted", "native", time.time() - t0, bad, "bounded",
                                {"tokens": [list(t) for t in tokens], "tags": tags, "queries": list(q)})]
    task.stats = {"cases": n}
    return [Res("C39.comment_finder.bounded", "bounded-ok", "native", time.time() - t0,
                f"{n} (token list, tags, query sequence) cases: the real _CommentFinder equals the executable statement", "bounded")]


def replay_finder(w):
    if "tokens" in w:
        bad = run_finder_case([tuple(t) for t in w["tokens"]], w["tags"], w["queries"])
        return (bool(bad), bad or "agrees")
    import itertools
    queries = [q for k in (1, 2) for q in itertools.product(range(0, 5), repeat=k) if list(q) == sorted(q)]
    for tokens in finder_cases(3):
        for tags in (["NOTE:"], []):
            for q in queries:
                bad = run_finder_case(tokens, tags, q)
                if bad:
                    return (True, bad)
    return (False, "the real _CommentFinder agrees with the executable statement on all small cases")


# ====================================================================== C39.bounded.lex

NSHARDS = 16


def lex_case(ids, setting, fam="default", br="\n"):
    kw = RF.delimiter_families()[fam + "/trim=0,lstrip=0"]
    key = (fam, setting)
    if key not in _lex_envs:
        _lex_envs[key] = (jinja2.Environment(**dict(kw, trim_blocks=setting[0], lstrip_blocks=setting[1])), X.tag_variants(X.delims_of(kw), extended=True))
    env, tags = _lex_envs[key]
    parts = X.skeleton(*ids, tags=tags)
    src = X.source_of(parts)
    wp = X.working_parts(parts)
    stream, gaps = X.expected_stream(wp, setting[0], setting[1])
    if br != "\n":
        src = src.replace("\n", br)  # the same source written with CRLF / CR line breaks: same working source, same tokens
    try:
        toks = list(env.lex(src))
    except Exception as ex:  # noqa
        return src, f"<{type(ex).__name__}: {ex}>"
    return src, X.check_token_stream(toks, X.source_of(wp), stream, gaps)


_lex_envs = {}


def bounded_lex(shard):
    def run(task, tier, seed):
        t0 = time.time()
        n, out = 0, []
        work = [("default", ids) for ids in X.corpus_sample(tier, seed, shard, NSHARDS)]
        fams = ("default", "asp", "dollar", "shared")
        work = [(f, i, "\n") for f, i in work]
        if shard < len(fams):
            work += [(fams[shard], ids, "\n") for ids in X.family_sample(seed)]
        elif shard < len(fams) + 2:
            # line-break normalisation and trailing-newline removal: the same sources written with CRLF / CR breaks
            work += [("default", ids, ("\r\n", "\r")[shard - len(fams)]) for ids in X.family_sample(seed)]
        for fam, ids, br in work:
            for setting in X.SETTINGS:
                src, bad = lex_case(ids, setting, fam, br)
                n += 1
                if bad and not out:
                    out.append(Res(f"C39.bounded.lex[{shard}].case", "refuted", "native", time.time() - t0,
                                   f"{fam} delimiters, {src!r} trim_blocks={setting[0]} lstrip_blocks={setting[1]}: {bad}", "bounded",
                                   {"family": fam, "tags": list(ids[0]), "seps": list(ids[1]), "trim_blocks": setting[0], "lstrip_blocks": setting[1], "br": br}))
        task.stats = {"sources_lexed": n}
        if not out:
            out.append(Res(f"C39.bounded.lex[{shard}]", "bounded-ok", "native", time.time() - t0,
                           f"{n} sources through the real Environment.lex: values tile the working source minus the documented left-hand whitespace; "
                           "every lineno equals a direct count", "bounded"))
        return out
    return run


def replay_lex(w):
    src, bad = lex_case((tuple(w["tags"]), tuple(w["seps"])), (w["trim_blocks"], w["lstrip_blocks"]), w.get("family", "default"), w.get("br", "\n"))
    return (bool(bad), f"{src!r}: {bad}")


def bounded_tasks():
    ts = []
    for k in range(NSHARDS):
        t = FnTask(PROP, f"C39.bounded.lex[{k}]", bounded_lex(k), kind="bounded", replay_fn=replay_lex)
        t.bound_text = X.CORPUS_BOUND + f" (shard {k} of {NSHARDS})" + ("; plus " + X.FAMILY_BOUND if k < 4 else "; plus the extended skeletons (default delimiters) written with CRLF / CR line breaks" if k < 6 else "")
        ts.append(t)
    return ts


BODY_TASKS = loop_tasks(("lossless", "lineno"), "C39.tokeniter.body")
# the line-number half alone (imported by C35: C35.lexer.lineno = C39.lineno)
LINENO_TASKS = loop_tasks(("lineno",), "C39.lineno") + [LoopInit(None)]

_finder_bounded = FnTask(PROP, "C39.comment_finder.bounded", bounded_finder, kind="bounded", replay_fn=replay_finder)
_finder_bounded.bound_text = ("token lists of length <= 3 (thorough 4) over 5 token values x nondecreasing lines 1..3, comment tags ['NOTE:'] or [], "
                              "nondecreasing query sequences of length <= 2 over lines 0..4")

from contracts.c11 import Preamble as _Preamble  # noqa: E402  (the first statements of tokeniter: line-break normalisation, trailing newline)

TASKS = (BODY_TASKS + [_Preamble("C39.tokeniter.preamble")] + [LoopInit(s) for s in (None, "root", "variable", "block", "bogus")] + [LoopEnd(), EnvLex(), FindComments(), FindBackwards(),
         FnTask(PROP, "C39.tokeniter.frame", loop_frame, kind="table"), FnTask(PROP, "C39.states.closed", states_closed, kind="table"),
         _finder_bounded]
         + bounded_tasks())

META = {
    "level": "other",
    "explanation": (
        "Proof of mechanism under A8/A9 plus a bounded cross-check; not an end-to-end proof of the statement. The generator Lexer.tokeniter is "
        "verified as straight-line segments of its REAL ast (located by structure): INIT (statements between the preamble and the loop), BODY "
        "(the whole body of `for regex, tokens, new_state in statetokens`, symbolically executed once per distinct rule shape of the six "
        "delimiter families and per matched branch of the root rule, with the rule's real tokens/new_state and an abstract match object "
        "constrained by the regex facts of the rule's real pattern) and END (the for-else). Proved per iteration: the yielded values are, in "
        "order, the groups of the match, only the text group of the two OptionalLStrip rules may lose a suffix, that suffix is whitespace and "
        "is exactly what the C12 left-hand rules remove (lossless); every yielded token carries 1 + the number of line breaks of the working "
        "source before its first character and `lineno == 1 + source[:pos].count(newline)`, `newlines_stripped == 0`, `pos += len(match)`, "
        "`line_starting == the match ended a line` are preserved (lineno); the internal-error exits are unreachable; the loop returns only "
        "with pos == len(source). Environment.lex is tokeniter(str(source)) with no preprocessing; _CommentFinder.find_comments/find_backwards "
        "are proved with loop invariants over token lists of arbitrary length. NOT under VC: the state-stack discipline (stack / "
        "self.rules / statetokens are abstracted), the order in which rules are tried and how far a match extends (A8: lazy text group, "
        "ordered alternation). That deciding step is carried by the bounded stand-in C39.bounded.lex (the C12 skeleton corpus, also under "
        "three custom delimiter sets, through the real Environment.lex against the C12 reference model and a direct line count), hence level "
        "'other'."),
    "assumptions": [
        "A8: `re` semantics; re._parser describes the executed pattern; a match object satisfies source[pos:end] == group(), groups as parsed",
        "A9: rule shapes are taken from the real lexers of the six delimiter families of pyvc.regexfacts.family (trim/lstrip/newline options do not change the shapes)",
        "A7-like: the generator is driven to completion by its consumer (yield is a transparent event)",
        "the state stack (`stack`, `self.rules[...]`, `statetokens`) is abstracted in the BODY VCs: no claim about which state follows; "
        "C39.states.closed records the table fact it would need",
        "str.count is additive over concatenation (instances at the cut positions used are assumed as part of its dependency spec)",
    ],
    "trusted_base": [
        "z3 / cvc5 1.0.3 (--strings-exp)", "pyvc symbolic executor", "pyvc.regexfacts",
        "dependency specs: str.rstrip / str.rfind / str.count (additivity instances) / Pattern.fullmatch / str.split(None, 1) and py_rstrip as "
        "uninterpreted functions in the comment-finder VCs / enumerate / reversed over sequences of symbolic length",
        "reference model contracts/_lex.py (reference_pieces / expected_stream), shared with C12",
    ],
}
