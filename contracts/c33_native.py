"""C33, native half: bounded stand-ins and table obligations that run the REAL i18n extension.

  C33.bounded.render     generated trans blocks rendered with identity translations (both gettext styles, both autoescape
                         modes, three ways of installing the translations) against the property's own oracle:
                         (a) the output is the block text with the variables substituted (escaped when autoescaping), the
                             singular / plural form chosen by the count, trimmed when trimming is in force;
                         (b) every message passed to a gettext function at render time is among the messages that
                             extract_from_ast / babel_extract report for the same source with the same options.
                         This is the stand-in for the dependency spec of `str % dict` / `Markup % dict`.
  C33.bounded.trim       InternationalizationExtension._trim_whitespace against the documented rule (regex `_ws_re` is out
                         of the VC engine's reach).
  C33.bounded.comment_finder   _CommentFinder against an independent model of "the nearest preceding tagged comment".
  C33.babel_extract.options    the option mapping of babel_extract (table, differential against an Environment built by hand).
"""
from __future__ import annotations

import io
import itertools
import json
import time

from pyvc.contract import Res, FnTask

import jinja2
from jinja2 import Environment
from jinja2 import ext as E
from jinja2.exceptions import TemplateSyntaxError
from markupsafe import Markup, escape

PROP = "C33"


class Bounded(FnTask):
    """cases(tier, seed) yields json witnesses; check(w) -> (violated, detail) runs the REAL code against the oracle."""
    kind = "bounded"

    def __init__(self, name, cases, check, bound_text, classify=None, thorough_only=False, res_name=None):
        self.prop, self.name, self.kind = PROP, name, "bounded"
        self.res_name = res_name or name  # obligation name (shards of one stand-in share it)
        self.cases, self.check, self.bound_text, self.classify = cases, check, bound_text, classify
        self.replay_fn = None
        self.thorough_only = thorough_only

    def run(self, tier, seed):
        t0 = time.time()
        n, bad, seen = 0, [], set()
        for w in self.cases(tier, seed):
            n += 1
            try:
                v, d = self.check(w)
            except Exception as ex:  # the oracle itself must not crash
                return [Res(self.name + ".spec", "error", "native", time.time() - t0, f"oracle crashed on {w!r}: {ex!r}", "bounded")]
            if v:
                k = self.key_of(w)
                if k not in seen and len(seen) < 8:
                    seen.add(k)
                    bad.append(Res(self.res_name, "refuted", "native", time.time() - t0, d, "bounded", w))
        self.stats = {"inputs": n}
        if bad:
            return bad
        return [Res(self.res_name, "bounded-ok", "native", time.time() - t0, f"{n} inputs agree with the specification ({self.bound_text})", "bounded")]

    def key_of(self, w):
        if self.classify is not None:
            k = self.classify(w)
            if k:
                return k
        return json.dumps(w, sort_keys=True, ensure_ascii=True)

    def finding_key(self, res):
        return self.key_of(res.witness) if res.witness is not None else None

    def replay(self, w):
        return self.check(w)


# ------------------------------------------------------------------------------------------------
# the documented trimming rule (templates.rst: "replace all linebreaks and the whitespace surrounding them with a single
# space and remove leading and trailing whitespace"), written without regular expressions
# ------------------------------------------------------------------------------------------------

def ref_trim(s: str, breaks: str = "\n\r") -> str:
    """`breaks`: the characters that are line breaks.  The lexer rewrites every line break of the source to
    Environment.newline_sequence ('\\n', '\\r\\n' or '\\r'), so a carriage return is a line break too (C33_4)."""
    s = s.strip()
    out, i = [], 0
    while i < len(s):
        if s[i].isspace():
            j = i
            while j < len(s) and s[j].isspace():
                j += 1
            run = s[i:j]
            out.append(" " if any(c in run for c in breaks) else run)
            i = j
        else:
            out.append(s[i])
            i += 1
    return "".join(out)


def classify_trim(w):
    """a failing input on which the two readings of "line break" differ is the carriage-return class"""
    if ref_trim(w["s"]) != ref_trim(w["s"], "\n"):
        return "carriage-return-is-a-line-break"
    return None


TRIM_ALPHA = ["a", " ", "\n", "\t", "\r", "%"]


def cases_trim(tier, seed):
    top = 6 if tier == "quick" else 7
    for n in range(top + 1):
        for t in itertools.product(TRIM_ALPHA, repeat=n):
            yield {"s": "".join(t)}
    for s in ("  first line\r    second line  \r", "  a \n b  ", "a\n\n\nb", "\n", " \x0b\n\x0c a", "a \r\n b", "a \n b", "a b", "a  b", "%(x)s \n %%"):
        yield {"s": s}


def check_trim(w):
    env = Environment(extensions=["jinja2.ext.i18n"])
    x = env.extensions["jinja2.ext.InternationalizationExtension"]
    got = x._trim_whitespace(w["s"])
    want = ref_trim(w["s"])
    return got != want, f"_trim_whitespace({w['s']!r}) = {got!r}; the documented rule gives {want!r}"


# ------------------------------------------------------------------------------------------------
# trans block generator + oracle
# ------------------------------------------------------------------------------------------------
TEXT_PIECES = ["a", "%", "%%", "{", "<", "\n"]
NAME_SETS = [("v0", "v1"), ("num", "context")]


def build_source(w):
    """-> (source, ok).  ok = False when the concatenation of the pieces would form a delimiter the generator did not
    intend (`{` followed by `{`/`%`/`#`): such a source is a different block and is skipped."""
    names = w["names"]
    head = "{% trans"
    if w.get("ctx") is not None:
        head += " " + json.dumps(w["ctx"])
    if w.get("modifier"):
        head += " " + w["modifier"]
    defs = w.get("defs") or []
    if defs:
        head += " " + ", ".join(f"{n}={e}" for n, e in defs)
    head += " %}"
    intended = []
    src = ""

    def delim(text):
        nonlocal src
        intended.append(len(src))
        src += text

    def body(parts):
        nonlocal src
        for p in parts:
            if p[0] == "t":
                src += p[1]
            else:
                delim("{{ " + names[p[1]] + " }}")

    delim(head)
    body(w["singular"])
    if w.get("plural") is not None:
        delim("{% pluralize" + (" " + w["pluralize_arg"] if w.get("pluralize_arg") else "") + " %}")
        body(w["plural"])
    delim("{% endtrans %}")
    found = [i for i in range(len(src) - 1) if src[i] == "{" and src[i + 1] in "{%#"]
    return src, found == intended


def block_text(parts, names, values, autoescape, trim, newline="\n"):
    """the text of one form of the block with the variables substituted (the property's oracle); line breaks of the
    source appear as Environment.newline_sequence (api.rst: "The sequence that starts a newline")"""
    marks = {}
    msg = ""
    for p in parts:
        if p[0] == "t":
            msg += p[1]
        else:
            m = f"\x00{p[1]}\x01"
            marks[m] = values[names[p[1]]]
            msg += m
    if trim:
        msg = ref_trim(msg)
    msg = msg.replace("\n", newline)
    for m, v in marks.items():
        if isinstance(v, list):  # ["markup", text]: a value that is already safe
            sv = v[1]
        else:
            sv = str(escape(v)) if autoescape else str(v)
        msg = msg.replace(m, sv)
    return msg


def expected(w):
    """-> ("text", str) | ("syntax_error",) | ("unspecified",)"""
    names, values = w["names"], w["values"]
    trim = (w["modifier"] == "trimmed") if w.get("modifier") else bool(w.get("policy"))
    sing = w["singular"]
    plur = w.get("plural")
    if plur is None:
        return ("text", block_text(sing, names, values, w["autoescape"], trim, w.get("newline_sequence", "\n")))
    defs = w.get("defs") or []
    if w.get("pluralize_arg"):
        cname = w["pluralize_arg"]
    elif defs:
        cname = defs[0][0]  # "the first variable in a block"
    else:
        ref_s = [names[p[1]] for p in sing if p[0] == "v"]
        ref_p = [names[p[1]] for p in plur if p[0] == "v"]
        if ref_s:
            cname = ref_s[0]
        elif ref_p:
            return ("unspecified",)  # no variable in the tag or the singular form: the documentation does not say
        else:
            return ("syntax_error",)
    count = values[cname]
    form = sing if count == 1 else plur
    return ("text", block_text(form, names, values, w["autoescape"], trim, w.get("newline_sequence", "\n")))


class _Recorder:
    def __init__(self):
        self.calls = []

    def gettext(self, s):
        self.calls.append(("gettext", (s,)))
        return s

    def ngettext(self, s, p, n):
        self.calls.append(("ngettext", (s, p)))
        return s if n == 1 else p

    def pgettext(self, c, s):
        self.calls.append(("pgettext", (c, s)))
        return s

    def npgettext(self, c, s, p, n):
        self.calls.append(("npgettext", (c, s, p)))
        return s if n == 1 else p


def make_env(w):
    env = Environment(extensions=["jinja2.ext.i18n"], autoescape=bool(w["autoescape"]), newline_sequence=w.get("newline_sequence", "\n"))
    env.policies["ext.i18n.trimmed"] = bool(w.get("policy"))
    rec = None
    how = w.get("install", "callables")
    if how == "null":
        env.install_null_translations(newstyle=bool(w["newstyle"]))
    elif how == "translations":
        import gettext as G
        rec = _Recorder()

        class T(G.NullTranslations):
            def gettext(self, s):
                return rec.gettext(s)

            def ngettext(self, s, p, n):
                return rec.ngettext(s, p, n)

            def pgettext(self, c, s):
                return rec.pgettext(c, s)

            def npgettext(self, c, s, p, n):
                return rec.npgettext(c, s, p, n)

        env.install_gettext_translations(T(), newstyle=bool(w["newstyle"]))
    else:
        rec = _Recorder()
        env.install_gettext_callables(rec.gettext, rec.ngettext, newstyle=bool(w["newstyle"]), pgettext=rec.pgettext, npgettext=rec.npgettext)
    return env, rec


def render_context(w):
    names, values = w["names"], w["values"]
    defined = {n for n, _ in (w.get("defs") or [])}
    ctx = {}
    for i, n in enumerate(names):
        v = values[n]
        if isinstance(v, list):
            v = Markup(v[1])
        ctx[f"x{i}"] = v
        ctx[n] = "WRONG-SCOPE" if n in defined else v
    return ctx


def norm_extracted(msg):
    if isinstance(msg, tuple):
        return tuple(x for x in msg if x is not None)
    return (msg,)


def check_render(w):
    src, ok = build_source(w)
    if not ok:
        return False, "skipped: pieces form an unintended delimiter"
    exp = expected(w)
    if exp[0] == "unspecified":
        return False, "unspecified by the documentation"
    env, rec = make_env(w)
    desc = f"{src!r} newstyle={w['newstyle']} autoescape={w['autoescape']} policy_trimmed={bool(w.get('policy'))} install={w.get('install', 'callables')} values={w['values']}"
    try:
        tmpl = env.from_string(src)
    except TemplateSyntaxError as ex:
        if exp[0] == "syntax_error":
            return False, "template syntax error as specified"
        return True, f"{desc}: TemplateSyntaxError {ex} for a well-formed trans block"
    except Exception as ex:  # noqa
        return True, f"{desc}: compiling raised {type(ex).__name__}: {ex}"
    if exp[0] == "syntax_error":
        return True, f"{desc}: compiled, but a pluralize block without any variable cannot choose a form (TemplateSyntaxError expected)"
    try:
        out = tmpl.render(render_context(w))
    except Exception as ex:  # noqa
        return True, f"{desc}: render raised {type(ex).__name__}: {ex}; the block text is {exp[1]!r}"
    if str(out) != exp[1]:
        return True, f"{desc}: rendered {str(out)!r}, the block text with variables substituted is {exp[1]!r}"
    if rec is not None:
        if not rec.calls:
            return True, f"{desc}: no gettext function was called"
        ast_msgs = {(f, norm_extracted(m)) for (_l, f, m) in env.extract_translations(src)}
        for c in rec.calls:
            if c not in ast_msgs:
                return True, f"{desc}: message {c!r} was passed to a gettext function at render time but extract_from_ast reports only {sorted(ast_msgs)!r}"
        if w.get("babel", True):
            opts = {"trimmed": str(bool(w.get("policy"))), "newstyle_gettext": str(bool(w["newstyle"])), "silent": "false"}
            b_msgs = {(f, norm_extracted(m)) for (_l, f, m, _c) in E.babel_extract(io.BytesIO(src.encode("utf-8")), E.GETTEXT_FUNCTIONS, [], opts)}
            for c in rec.calls:
                if c not in b_msgs:
                    return True, f"{desc}: message {c!r} was passed to a gettext function at render time but babel_extract reports only {sorted(b_msgs)!r}"
    return False, f"{desc}: ok"


def classify_render(w):
    """identifies the class of a failing input (for known_findings keys)"""
    sing, plur = w["singular"], w.get("plural")
    if w.get("newline_sequence", "\n") != "\n":
        trim = (w["modifier"] == "trimmed") if w.get("modifier") else bool(w.get("policy"))
        return f"newline_sequence={w['newline_sequence']!r}:" + ("trimmed" if trim else "untrimmed")
    refs = [p for p in sing + (plur or []) if p[0] == "v"]
    text = "".join(p[1] for p in sing + (plur or []) if p[0] == "t")
    feats = ["newstyle" if w["newstyle"] else "oldstyle"]
    feats.append("vars-defined" if (w.get("defs") or []) else "no-vars-defined")
    feats.append("vars-referenced" if refs else "no-vars-referenced")
    feats.append("percent" if "%" in text else "no-percent")
    feats.append("plural" if plur is not None else "no-plural")
    return ":".join(feats)


def _parts(max_parts, pieces, nvars):
    opts = [["t", t] for t in pieces] + [["v", i] for i in range(nvars)]
    for n in range(1, max_parts + 1):
        for t in itertools.product(opts, repeat=n):
            yield [list(p) for p in t]


QUICK_SHARDS = 2


def cases_render(shard, nshards):
    def gen(tier, seed):
        n = QUICK_SHARDS if tier == "quick" else nshards  # the quick sample is small: two shards, the others are thorough-only
        if shard >= n:
            return
        k = 0
        for w in _cases_render(tier, seed):
            k += 1
            if k % n == shard:
                yield w
    return gen


def _cases_render(tier, seed):
    thorough = tier != "quick"
    modes = list(itertools.product((False, True), (False, True)))  # newstyle, autoescape
    # ---- A: no pluralize; up to 3 parts; header variants
    for names in NAME_SETS:
        v0, v1 = names
        values = {v0: 1, v1: "<b>"}
        def_variants = [[], [[v0, "x0"]], [[v0, "x0"], [v1, "x1"]]]
        for parts in _parts(3 if thorough else 2, TEXT_PIECES, 2):
            for di, defs in enumerate(def_variants):
                for ctx in (None, "c%x"):
                    for mod, pol in ((None, False), ("trimmed", False), (None, True), ("notrimmed", True)):
                        has_nl = any(p == ["t", "\n"] for p in parts)
                        if not has_nl and (mod, pol) != (None, False):
                            continue
                        if names is NAME_SETS[1] and (len(parts) > 2 or mod):
                            continue
                        for ns, ae in modes:
                            installs = ("callables",) if (len(parts) >= 2 and not thorough) else ("callables", "null", "translations")
                            for inst in installs:
                                yield {"names": list(names), "values": values, "defs": defs, "ctx": ctx, "modifier": mod, "policy": pol,
                                       "singular": parts, "plural": None, "pluralize_arg": None, "newstyle": ns, "autoescape": ae,
                                       "install": inst, "babel": inst == "callables" and not ae and (len(parts) < 3 or thorough)}
    # ---- B: pluralize; singular and plural of up to 2 parts (quick: over a reduced piece set), counts 1 and 2
    pieces_b = TEXT_PIECES if thorough else ["a", "%", "<", "\n"]
    for names in NAME_SETS:
        v0, v1 = names
        def_variants = [([], None), ([[v0, "x0"]], None), ([[v0, "x0"], [v1, "x1"]], None), ([[v1, "x1"], [v0, "x0"]], v0), ([[v1, "x1"], [v0, "x0"]], None)]
        for sing in _parts(2, pieces_b, 2):
            for plur in _parts(2, pieces_b, 2):
                if len(sing) + len(plur) > 2 and not thorough:
                    continue
                has_nl = any(p == ["t", "\n"] for p in sing + plur)
                for defs, parg in def_variants:
                    for count in (1, 2):
                        values = {v0: count, v1: "<b>"}
                        for ctx in (None, "c"):
                            if ctx and (len(sing) + len(plur) > 3) and not thorough:
                                continue
                            for mod, pol in ((None, False), ("trimmed", False)):
                                if mod and not has_nl:
                                    continue
                                if names is NAME_SETS[1] and (len(sing) + len(plur) > 2):
                                    continue
                                for ns, ae in modes:
                                    yield {"names": list(names), "values": values, "defs": defs, "ctx": ctx, "modifier": mod, "policy": pol,
                                           "singular": sing, "plural": plur, "pluralize_arg": parg, "newstyle": ns, "autoescape": ae,
                                           "install": "callables", "babel": False}
    yield from _cases_newline(tier, seed)
    # ---- C: values that are already safe are not escaped again
    for ns, ae in modes:
        for parts in _parts(2, ["a", "%", "<"], 2):
            yield {"names": ["v0", "v1"], "values": {"v0": ["markup", "<i>"], "v1": "<b>&"}, "defs": [], "ctx": None, "modifier": None, "policy": False,
                   "singular": parts, "plural": None, "pluralize_arg": None, "newstyle": ns, "autoescape": ae, "install": "callables", "babel": False}


def _cases_newline(tier, seed):
    """D (C33_4): the other newline sequences; line breaks of the source reach the block as that sequence"""
    for nl in ("\r", "\r\n"):
        for parts in _parts(3, ["a", "\n", " "], 1):
            if not any(p == ["t", "\n"] for p in parts):
                continue
            for mod, pol in ((None, False), ("trimmed", False), (None, True), ("notrimmed", True)):
                for ns in (False, True):
                    yield {"names": ["v0", "v1"], "values": {"v0": 1, "v1": "<b>"}, "defs": [], "ctx": None, "modifier": mod, "policy": pol,
                           "singular": parts, "plural": None, "pluralize_arg": None, "newstyle": ns, "autoescape": False, "install": "callables",
                           "babel": False, "newline_sequence": nl}


RENDER_BOUND = ("quick tier: trans blocks of up to 2 parts (pluralized: 1 + 1 parts over {a, %, <, newline}); thorough tier: up to 3 parts (pluralized: 2 + 2 parts over all pieces); over the text pieces {a, %, %%, {, <, newline} and "
                "references to up to 2 variables (named v0/v1 or num/context), variables bound in the tag / free / partly bound, "
                "with and without a context string, pluralize with and without an argument, counts 1 and 2, trimmed / notrimmed / "
                "policy ext.i18n.trimmed, old- and new-style gettext, autoescape on and off, identity translations installed through "
                "install_null_translations / install_gettext_translations / install_gettext_callables; values 1, 2, '<b>', Markup('<i>'); "
                "newline_sequence \\r and \\r\\n for blocks of up to 3 parts over {a, newline, space}")


# ------------------------------------------------------------------------------------------------
# C33_2 (hunt): a trans block in a macro / block body that runs under another {% autoescape %} setting than the one it was
# compiled under.  Oracle (differential, the property's reading): the block renders like the same text written without
# {% trans %} at the same place - the literal text of the block is never escaped by the block itself, the variable value
# is escaped (or not) like a plain {{ v0 }} there; where the compile-time and the run-time flag disagree either treatment
# of the VARIABLE is accepted.
# ------------------------------------------------------------------------------------------------
SCOPED_PIECES = [["t", "<b>"], ["t", "a"], ["v", 0]]


def scoped_source(w, trans):
    body = "".join(p[1] if p[0] == "t" else "{{ v0 }}" for p in w["parts"])
    if trans:
        body = "{% trans %}" + body + "{% endtrans %}"
    flag = "true" if w["override"] else "false"
    if w["wrapper"] == "macro":
        return "{% macro m(v0) %}" + body + "{% endmacro %}{% autoescape " + flag + " %}{{ m(v0) }}{% endautoescape %}"
    if w["wrapper"] == "block":
        return "{% autoescape " + flag + " %}{% block b %}" + body + "{% endblock %}{% endautoescape %}"
    if w["wrapper"] == "call":
        return "{% macro m() %}[{{ caller() }}]{% endmacro %}{% autoescape " + flag + " %}{% call m() %}" + body + "{% endcall %}{% endautoescape %}"
    return "{% autoescape " + flag + " %}" + body + "{% endautoescape %}"


def cases_scoped(tier, seed):
    for wrapper in ("macro", "block", "call", "plain"):
        for env_ae in (False, True):
            for override in (False, True):
                for n in (1, 2):
                    for parts in itertools.product(SCOPED_PIECES, repeat=n):
                        for ns in (False, True):
                            yield {"wrapper": wrapper, "env_autoescape": env_ae, "override": override, "parts": [list(p) for p in parts], "newstyle": ns}


def check_scoped(w):
    env = Environment(extensions=["jinja2.ext.i18n"], autoescape=bool(w["env_autoescape"]))
    env.install_null_translations(newstyle=bool(w["newstyle"]))
    src_t, src_p = scoped_source(w, True), scoped_source(w, False)
    desc = f"Environment(autoescape={w['env_autoescape']}) newstyle={w['newstyle']} {src_t!r} with v0='<i>'"
    accepted = []
    for v in ("<i>", Markup("<i>"), str(escape("<i>"))):
        accepted.append(str(env.from_string(src_p).render(v0=v)))
    if w["env_autoescape"] == w["override"]:
        accepted = accepted[:1]
    try:
        got = str(env.from_string(src_t).render(v0="<i>"))
    except Exception as ex:  # noqa
        return True, f"{desc}: {type(ex).__name__}: {ex}"
    return got not in accepted, f"{desc}: rendered {got!r}; the same text without trans at the same place renders {accepted[0]!r}" + (f" (also accepted: {accepted[1:]!r})" if len(accepted) > 1 else "")


def classify_scoped(w):
    return f"{w['wrapper']}:compiled-under-autoescape={w['env_autoescape']}:run-under-autoescape={w['override']}"


# ------------------------------------------------------------------------------------------------
# _CommentFinder
# ------------------------------------------------------------------------------------------------

def model_find_comments(tokens, tags, linenos):
    """independent model: for each queried line (in order) the nearest tagged comment among the tokens that lie after
    the tokens already consumed and not after the last token of that line"""
    out = []
    offset = 0
    for ln in linenos:
        if not tags:
            out.append([])
            continue
        end = len(tokens)
        for i in range(offset, len(tokens)):
            if tokens[i][0] > ln:
                end = i
                break
        found = []
        for i in range(end - 1, offset - 1, -1):
            _, typ, val = tokens[i]
            if typ in ("comment", "linecomment"):
                words = val.split(None, 1)
                if len(words) == 2 and words[0] in tags:
                    found = [words[1].rstrip()]
                    break
        offset = max(offset, end) if end >= offset else offset
        out.append(found)
    return out


def cases_comment_finder(tier, seed):
    kinds = [("comment", " NOTE: hi "), ("comment", " plain words "), ("linecomment", "NOTE: lc"), ("data", "NOTE: data"), ("comment", "NOTE:")]
    top = 3 if tier == "quick" else 4
    for n in range(0, top + 1):
        for ks in itertools.product(range(len(kinds)), repeat=n):
            for lines in itertools.product((0, 1), repeat=n):  # line increments
                ln, toks = 1, []
                for k, inc in zip(ks, lines):
                    ln += inc
                    toks.append([ln, kinds[k][0], kinds[k][1]])
                maxln = ln
                for q in ([1], [maxln], [1, maxln], [1, 1], [maxln, 1], [2, 3]):
                    yield {"tokens": toks, "tags": ["NOTE:"], "queries": q}
    yield {"tokens": [[1, "comment", " NOTE: x "]], "tags": [], "queries": [1]}
    yield {"tokens": [[1, "comment", " OTHER: x "], [1, "comment", "NOTE: y"]], "tags": ["NOTE:", "OTHER:"], "queries": [1]}


def check_comment_finder(w):
    toks = [tuple(t) for t in w["tokens"]]
    f = E._CommentFinder(toks, list(w["tags"]))
    got = [f.find_comments(q) for q in w["queries"]]
    want = model_find_comments(toks, list(w["tags"]), w["queries"])
    return got != want, f"_CommentFinder({toks!r}, {w['tags']!r}) queried for lines {w['queries']} gave {got!r}; the nearest preceding tagged comments are {want!r}"


# ------------------------------------------------------------------------------------------------
# babel_extract: option mapping (table obligation, differential against an environment configured by hand)
# ------------------------------------------------------------------------------------------------
BABEL_SRC = ("{% trans %}\n 50% \n{% endtrans %}{{ gettext('g') }}{{ _('u') }}{{ ngettext('s', 'p', 2) }}"
             "{% trans 'c' n=2 %}one{% pluralize %}{{ n }} many{% endtrans %}")


def _by_hand(src, trimmed, newstyle, keywords, **envkw):
    env = Environment(extensions=["jinja2.ext.i18n"], **envkw)
    env.policies["ext.i18n.trimmed"] = trimmed
    env.newstyle_gettext = newstyle
    return [(l, f, m) for (l, f, m) in E.extract_from_ast(env.parse(src), keywords)]


def babel_options(task, tier, seed):
    rs = []

    def row(name, ok, detail, wit=None):
        rs.append(Res(f"C33.babel_extract.options.{name}", "discharged" if ok else "refuted", "table", 0, detail, "table", None if ok else (wit or {"row": name})))

    kw = list(E.GETTEXT_FUNCTIONS)
    truthy, falsy = ["1", "on", "yes", "true", "True", "TRUE", "On"], ["0", "off", "no", "false", "", "False"]
    for opt_t, opt_n in itertools.product([None] + truthy + falsy, [None, "true", "false"]):
        opts = {}
        if opt_t is not None:
            opts["trimmed"] = opt_t
        if opt_n is not None:
            opts["newstyle_gettext"] = opt_n
        got = [(l, f, m) for (l, f, m, c) in E.babel_extract(io.BytesIO(BABEL_SRC.encode()), kw, [], opts)]
        want = _by_hand(BABEL_SRC, opt_t in truthy, opt_n == "true", kw)
        row(f"trimmed={opt_t!r},newstyle_gettext={opt_n!r}", got == want, f"babel_extract with {opts!r} gives {got!r}; an environment with these options gives {want!r}",
            {"row": "flags", "options": opts})
    # the i18n extension is always loaded, other extensions are added, delimiters are taken from the options
    src2 = "<% trans %>x<% endtrans %><% do 1 %>${ gettext('y') }"
    opts = {"block_start_string": "<%", "block_end_string": "%>", "variable_start_string": "${", "variable_end_string": "}", "extensions": "jinja2.ext.do, ,jinja2.ext.loopcontrols", "silent": "0"}
    try:
        got = [(f, m) for (l, f, m, c) in E.babel_extract(io.BytesIO(src2.encode()), kw, [], opts)]
    except Exception as ex:  # noqa
        got = repr(ex)
    row("delimiters_and_extensions", got == [("gettext", "x"), ("gettext", "y")], f"custom delimiters + extensions: {got!r}", {"row": "delims"})
    # keywords restrict the functions
    got = [(f, m) for (l, f, m, c) in E.babel_extract(io.BytesIO(BABEL_SRC.encode()), ["_"], [], {})]
    row("keywords", got == [("_", "u")], f"keywords=['_'] gives {got!r}", {"row": "keywords"})
    # silent (default on) swallows template syntax errors, silent=false propagates them
    bad = "{% trans %}{% if %}{% endtrans %}"
    got = list(E.babel_extract(io.BytesIO(bad.encode()), kw, [], {}))
    row("silent_default", got == [], f"syntax error, default options: {got!r}", {"row": "silent"})
    try:
        list(E.babel_extract(io.BytesIO(bad.encode()), kw, [], {"silent": "false"}))
        ok = False
    except TemplateSyntaxError:
        ok = True
    row("silent_false", ok, "syntax error with silent=false must propagate as TemplateSyntaxError", {"row": "silent_false"})
    # encoding option
    got = [(f, m) for (l, f, m, c) in E.babel_extract(io.BytesIO("{% trans %}é{% endtrans %}".encode("latin-1")), kw, [], {"encoding": "latin-1"})]
    row("encoding", got == [("gettext", "é")], f"encoding=latin-1 gives {got!r}", {"row": "encoding"})
    # comments: tags found through the _CommentFinder
    src3 = "{# NOTE: first #}\n{{ gettext('a') }}\n{# other #}\n{{ gettext('b') }}"
    got = [(l, m, c) for (l, f, m, c) in E.babel_extract(io.BytesIO(src3.encode()), kw, ["NOTE:"], {})]
    row("comments", got == [(2, "a", ["first"]), (4, "b", [])], f"translator comments: {got!r}", {"row": "comments"})
    return rs


def replay_babel_options(w):
    rs = babel_options(None, "quick", 0)
    bad = [r for r in rs if r.status == "refuted"]
    return (bool(bad), bad[0].detail if bad else "all option rows agree")


def native_tasks():
    ts = []
    nsh = 6
    for i in range(nsh):
        ts.append(Bounded(f"C33.bounded.render[{i}]", cases_render(i, nsh), check_render, RENDER_BOUND + f" (shard {i}; {QUICK_SHARDS} shards in the quick tier, {nsh} in the thorough tier)",
                          classify_render, thorough_only=i >= QUICK_SHARDS, res_name="C33.bounded.render"))
    ts.append(Bounded("C33.bounded.trim", cases_trim, check_trim, "all strings of length <= 6 over {a, space, newline, tab, CR, %} plus a few fixed strings with other whitespace", classify_trim))
    ts.append(Bounded("C33.bounded.scoped_autoescape", cases_scoped, check_scoped,
                      "trans blocks of up to 2 parts over {<b>, a, one variable} inside a macro / block / call block / plain, under {% autoescape true|false %}, "
                      "environment autoescape on and off, both gettext styles", classify_scoped))
    ts.append(Bounded("C33.bounded.comment_finder", cases_comment_finder, check_comment_finder,
                      "token lists of up to 3 tokens (tagged / untagged / empty comments, line comments, data) on up to 4 lines, one or two queries"))
    ts.append(FnTask(PROP, "C33.babel_extract.options", babel_options, "table", replay_babel_options))
    return ts
