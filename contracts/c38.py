"""C38  Exceptions from data propagate unchanged and leave the engine usable.

Exceptional postconditions (proof of mechanism).  The functions on the data path are executed symbolically from their
real source; every data callee (callable, attribute / item access, iterator, string / number conversion, the compiled
template body, the loader) is an abstract callee that either returns an arbitrary value or raises an *abstract exception
object* d of unknown class (any BaseException).  Obligations, per function F:

  C38.catch.F        every `except` clause entered with a data exception d catches only classes inside the documented
                     signals of F (ALLOWED below), unless the handler re-raises d itself.  Widening a clause
                     (`except Exception` in Context.call / Environment.getattr, a bare except in `sequence`) fails here.
  C38.same_object.F  every data exception that is not absorbed by a documented clause leaves F as the SAME object
                     (identity through the engine's exception splitting; `rewrite_traceback_stack` returns
                     `exc_value.with_traceback(..)` of the handled object: BaseException.with_traceback returns self,
                     dependency spec), not wrapped, replaced or swallowed.
  C38.no_residue.F   frame of the exceptional paths: no attribute / content of an object that existed before the call
                     (Template, Environment, cache, Context, LoopContext, stream ...) differs from its pre-state; every
                     attribute the function assigns is part of the abstract pre-state, every other attribute is arbitrary.
  C38.data_path_reached.F  (guard) the contract explores at least one path on which each expected data callee raises -
                     otherwise the three clauses would hold vacuously and F is reported undecided.
  C38.handlers.<module>.<function>  AST scan of ALL src/jinja2/*.py: every `except` clause that does not unconditionally
                     re-raise must be listed in HANDLER_CLASSES with exactly its classes and justified in HANDLER_WHY (a
                     contract of this module, or the reason why its try body runs no data code).  A new handler anywhere,
                     a widened clause, or a justification naming a missing contract fails.
  C38.native.<F> / C38.native.history[sync|async]  bounded stand-ins on the real code: fault injection per function and
                     site; fault sequences over a template family (import / include / extends / macro / loop) through every
                     way of rendering (render, generate, stream, buffered stream, dump, async variants), followed by clean
                     renders of the whole family that must equal a fresh environment's output.

Documented signals (property statement, docs/templates.rst "Variables", docs/api.rst, the filters' docstrings):
attribute access -> AttributeError; subscription -> lookup / type / attribute errors; a callable raising StopIteration ->
undefined; the capability test `sequence` -> any exception reports false; `iterable` -> TypeError; `first` / `min` / `max`
-> StopIteration of an exhausted iterator; `random` -> IndexError of an empty sequence; `reverse` -> TypeError (not
reversible / not iterable); `int` / `float` -> conversion errors; `attr` -> AttributeError; `select_template` ->
TemplateNotFound (and UndefinedError of an undefined name in the list, documented in its docstring).
"""
from __future__ import annotations

import inspect
import itertools
import random
import sys
import typing

import z3

from pyvc.contract import VC, Res, Task
from pyvc.values import BoundMethod, State, Sym, Ref, HObj, HList, HIter, SSeq, Exc, Event, Unsupported, sym, fresh, fresh_name, fresh_arr
from pyvc.interp import Raised
from pyvc.stmts import LoopSpec
from pyvc import abstract as A
from pyvc import models

import jinja2
import jinja2.nodes
import jinja2.environment as E
import jinja2.runtime as R
import jinja2.sandbox as SB
import jinja2.debug as D
import jinja2.filters as F
import jinja2.tests as T
from jinja2.exceptions import TemplateNotFound, UndefinedError, TemplateSyntaxError

LOOKUP = (AttributeError, TypeError, LookupError)
CONVERSION = (TypeError, ValueError, OverflowError)

# function -> site -> classes that may be absorbed (documented signals); "*" = every site of the function
ALLOWED = {
    "Template.render": {"*": ()}, "Template.render[async]": {"*": ()}, "Template.render_async": {"*": ()},
    "Template.generate": {"*": ()}, "Template.generate[async]": {"*": ()}, "Template.generate_async": {"*": ()},
    "Template._get_default_module": {"*": ()}, "Template._get_default_module_async": {"*": ()},
    "Template.make_module": {"*": ()}, "Template.make_module_async": {"*": ()},
    "Environment._load_template": {"*": ()}, "Environment.get_template": {"*": ()},
    "TemplateStream._buffered_generator": {"next": (StopIteration,)}, "TemplateStream.__next__": {"*": ()},
    "TemplateStream.dump": {"*": ()}, "TemplateStream.dump[encoding]": {"*": ()},
    "BlockReference.__call__": {"*": ()}, "BlockReference.__call__[async]": {"*": ()},
    "LoopContext.__next__": {"*": ()}, "LoopContext._peek_next": {"*": ()}, "LoopContext.length": {"len": (), "iter": ()},
    "AsyncLoopContext.__anext__": {"next": (StopAsyncIteration,)}, "AsyncLoopContext._peek_next": {"next": (StopAsyncIteration,)},
    # hunt j2/C38_2: `except TypeError` around len(self._iterable) also catches a TypeError raised by the data's own __len__
    # (TypeError is no documented signal and loop.length is no capability test) - same ruling as for the reverse filter
    "AsyncLoopContext.length": {"len": (), "iter": ()},
    "AsyncLoopContext._known_length": {"len": ()},
    "TemplateExpression.__call__": {"*": ()}, "TemplateExpression.__call__[async]": {"*": ()},
    "Macro.__call__": {"*": ()},
    "do_last": {"*": (StopIteration,)}, "do_first": {"*": (StopAsyncIteration,)},
    "_IteratorToAsyncIterator.__anext__": {"*": (StopIteration,)},
    "NativeTemplate.render": {"*": ()}, "NativeTemplate.render[async]": {"*": ()}, "NativeTemplate.render_async": {"*": ()},
    "Environment.handle_exception": {"*": ()}, "rewrite_traceback_stack": {"*": ()},
    "Environment.getattr": {"getattr": (AttributeError,), "getitem": LOOKUP},
    "Environment.getitem": {"getattr": (AttributeError,), "getitem": LOOKUP, "str": ()},
    "SandboxedEnvironment.getattr": {"getattr": (AttributeError,), "getitem": LOOKUP},
    "SandboxedEnvironment.getitem": {"getattr": (AttributeError,), "getitem": LOOKUP, "str": ()},
    "Context.call": {"call": (StopIteration,), "getattr": ()},
    "test_sequence": {"*": (Exception,)},
    "test_iterable": {"*": (TypeError,)},
    "sync_do_first": {"*": (StopIteration,)},
    "_min_or_max": {"iter": (), "next": (StopIteration,), "call": ()},
    # reverse: TypeError is the signal of the iterability PROBE only ("argument must be iterable"); a TypeError raised by the
    # data's own __reversed__ or while its iterator is consumed is an exception of the data (hunt C38_2)
    "do_reverse": {"iter": (TypeError,), "reversed": (), "consume": ()},
    "do_random": {"*": (IndexError,)},
    "do_int": {"*": CONVERSION},
    "do_float": {"*": CONVERSION},
    "do_attr": {"*": (AttributeError,)},
    "Environment.select_template": {"*": (TemplateNotFound, UndefinedError)},
}


def allowed_for(fn, site):
    a = ALLOWED[fn]
    return a.get(site, a.get("*", ()))


def within(classes, allowed):
    cl = classes if isinstance(classes, tuple) else (classes,)
    return all(any(issubclass(c, a) for a in allowed) for c in cl)


# --------------------------------------------------------------------------------------------
# abstract data callees
# --------------------------------------------------------------------------------------------

def data_raise(st, site, node):
    s = st.fork()
    e = Exc(None, (), tag=f"{site}#{len(s.trace)}", within=BaseException, origin=getattr(node, "lineno", None))
    e.data, e.site = True, site
    s.trace.append(Event("call", "data:" + site, [], {}, e, lineno=getattr(node, "lineno", None)))
    return (s, Raised(e))


def data_callee(site, returns="obj", result=None):
    """Handler of a data callee: raises an abstract exception object, or returns an arbitrary value."""

    def h(I, st, args, kwargs, node):
        out = [data_raise(st, site, node)]
        v = result(st, args) if result is not None else (None if returns is None else fresh(site, returns))
        st.trace.append(Event("call", "data:" + site, list(args), dict(kwargs), v, lineno=getattr(node, "lineno", None)))
        out.append((st, v))
        return out

    return h


def root(e):
    return getattr(e, "src", e)


def data_exceptions(out):
    return [ev.result for ev in out.st.trace if ev.kind == "call" and isinstance(ev.result, Exc) and getattr(ev.result, "data", False)]


class FaultVC(VC):
    """Base: the three exceptional postconditions."""
    prop = "C38"
    fn = ""  # key into ALLOWED
    timeout_quick = 10000

    def __init__(self, fn=None, target=None):
        if fn:
            self.fn = fn
        if target:
            self.target = target
        VC.__init__(self, "C38", "C38." + self.fn)

    #: sites of data callees that must raise on at least one explored path (a contract that never reaches its data callees
    #: proves nothing: reported as undecided)
    expect_sites = None

    def run(self, tier, seed):
        self.seen_sites = set()
        rs = VC.run(self, tier, seed)
        want = set(self.expect_sites if self.expect_sites is not None else [k for k in ALLOWED[self.fn] if k != "*"])
        if self.expect_sites is None and not want and not self.seen_sites and self.data_path_needed:
            want = {"<any data callee>"}
        missing_sites = sorted(x for x in want if x not in self.seen_sites and not (x == "<any data callee>" and self.seen_sites))
        if missing_sites and not any(r.status in ("unknown", "error") for r in rs):
            rs.append(Res(f"C38.{self.fn}.data_path_reached", "unknown", "pyvc", 0.0,
                          f"no explored path raises a data exception at {missing_sites}: the exceptional postconditions would hold vacuously", self.kind))
        pre = "C38." + self.fn + "."
        for r in rs:
            if r.name.startswith(pre):
                clause, _, path = r.name[len(pre):].partition("#")
                if ".inv_" in clause:  # loop invariant "only documented signals were absorbed so far": part of the catch obligation
                    r.name = f"C38.catch.{self.fn}.{clause}"
                    if r.status == "refuted" and r.witness is None:
                        r.witness = self.concretize(None, None, None)
                else:
                    r.name = f"C38.{clause}.{self.fn}" + (("#" + path) if path else "")
        return rs

    def absorbed_only_documented(self, st):
        """loop invariant: every handler entered so far with a data exception catches documented classes only"""
        for (src, classes, ln) in st.ghost.get("caught", ()):
            if getattr(src, "data", False) and not within(classes, allowed_for(self.fn, src.site)):
                self.offender = (src.site, classes, ln)
                return z3.BoolVal(False)
        return z3.BoolVal(True)

    # ---- common engine configuration ---------------------------------------------------------
    def configure(self, I):
        I.specs["Environment.undefined"] = A.abstract_fn("Environment.undefined", returns="obj", tags=("undefined",))
        I.specs["SandboxedEnvironment.undefined"] = I.specs["Environment.undefined"]
        exception_values(I)
        self.configure_more(I)

    def configure_more(self, I):
        pass

    # ---- postconditions -----------------------------------------------------------------------
    def propagated(self, out, d):
        return out.raised and root(out.value) is d

    def absorbed_ok(self, out, d):
        """d entered at least one handler, and every handler it entered catches documented classes only"""
        recs = [(c, ln) for (src, c, ln) in out.st.ghost.get("caught", ()) if src is d]
        return bool(recs) and all(within(c, allowed_for(self.fn, d.site)) for c, ln in recs)

    data_path_needed = True

    def p_catch(self, pre, out):
        for d in data_exceptions(out):
            self.seen_sites.add(d.site)
        for (src, classes, ln) in out.st.ghost.get("caught", ()):
            if not getattr(src, "data", False):
                continue
            if within(classes, allowed_for(self.fn, src.site)):
                continue
            if not self.propagated(out, src):
                self.offender = (src.site, classes, ln)
                return False
        return True

    def p_same_object(self, pre, out):
        for d in data_exceptions(out):
            if self.absorbed_ok(out, d):
                continue
            if not self.propagated(out, d):
                recs = [c for (src, c, ln) in out.st.ghost.get("caught", ()) if src is d]
                self.offender = (d.site, recs[-1] if recs else None, d.origin)
                return False
        return True

    def p_no_residue(self, pre, out):
        """frame of the exceptional paths: no attribute / content of an object that existed before the call differs from its
        pre-state (engine state written before the raising call is restored, nothing is left half-way)"""
        if not out.raised:
            return None
        changed = changed_state(pre, out.st)
        if changed:
            self.offender = (getattr(root(out.value), "site", None), None, out.value.origin)
            self.residue = changed
        return not changed

    posts = [("catch", p_catch), ("same_object", p_same_object), ("no_residue", p_no_residue)]

    # ---- witness ---------------------------------------------------------------------------------
    def concretize(self, model, pre, out):
        site, classes, ln = getattr(self, "offender", (None, None, None))
        return {"function": self.fn, "site": site, "exc": probe_for(classes, allowed_for(self.fn, site) if site else ()), "line": ln}

    def replay(self, w):
        return native_replay(w)

    def finding_key(self, res):
        w = res.witness or {}
        return f"{w.get('function')}:{w.get('site')}:{w.get('exc')}"


def exception_values(I):
    """str() / repr() / type() / .with_traceback() of exception values (needed to execute handlers that wrap or copy)."""

    def text_of(builtin, model):
        def h(I_, st, args, kwargs, node):
            if len(args) == 1 and isinstance(args[0], Exc):
                return [(st, fresh("exc_text", "str"))]
            return model(I_, st, args, kwargs, node)
        return h

    I.specs[("fn", id(str))] = text_of(str, models.builtin_str)
    I.specs[("fn", id(repr))] = text_of(repr, models.builtin_repr)

    def type_spec(I_, st, args, kwargs, node):
        if len(args) == 1 and isinstance(args[0], Exc):
            return [(st, args[0].cls or args[0].within)]  # unknown class: its upper bound stands for it (instantiation gives a NEW object)
        r = models.instantiate(I_, st, type, args, kwargs, node)
        if r is None:
            raise Unsupported("type() form", node)
        return r

    I.specs[("fn", id(type))] = type_spec
    keep = []

    def attr_hook(I_, st, obj, name, node):
        if isinstance(obj, Exc) and name == "with_traceback":
            def with_traceback():  # BaseException.with_traceback returns the exception itself
                pass
            keep.append(with_traceback)
            I_.specs[("fn", id(with_traceback))] = lambda I2, st2, args, kwargs, node2: [(st2, obj)]
            return [(st, with_traceback)]
        if isinstance(obj, Exc) and name == "value":  # StopIteration.value
            return [(st, fresh("stop_value", "obj"))]
        return None

    I.attr_hook = attr_hook
    I._c38_keep = keep


_ABSENT = object()


def same_value(a, b):
    if a is b:
        return True
    if isinstance(a, Sym) and isinstance(b, Sym):
        return a.k == b.k and a.t.eq(b.t)
    if isinstance(a, (Sym, Exc)) or isinstance(b, (Sym, Exc)):
        return False
    try:
        return type(a) is type(b) and bool(a == b)
    except Exception:
        return False


def changed_state(pre, post):
    """[(object path, field)] of pre-existing heap objects whose state after the call differs from the pre-state."""
    out = []
    for (i, f) in sorted(post.written, key=repr):
        if i in post.allocated or i not in post.heap:
            continue
        h1, h0 = post.heap[i], pre.heap.get(i)
        label = getattr(h1, "path", "") or type(h1).__name__
        if h0 is None:
            out.append((label, f))
        elif isinstance(h1, HObj):
            a, b = h0.fields.get(f, _ABSENT), h1.fields.get(f, _ABSENT)
            if a is _ABSENT and f in (post.ghost.get("first_read", {}).get(i, {})):
                a = post.ghost["first_read"][i][f]
            if not same_value(a, b):
                out.append((label, f))
        elif isinstance(h1, HList):
            same = (h0.items == h1.items) if (h0.concrete and h1.concrete) else (not h0.concrete and not h1.concrete and h0.arr is h1.arr and h0.n is h1.n)
            if not same:
                out.append((label, "<items>"))
        elif getattr(h1, "items", None) is not None and getattr(h0, "items", None) is not None:
            if h0.items != h1.items:
                out.append((label, "<items>"))
        else:
            if not all(getattr(h0, a, None) is getattr(h1, a, None) for a in ("dom", "val", "size", "arr", "n")):
                out.append((label, "<items>"))
    return out


def probe_for(classes, allowed):
    """name of a concrete exception class that the offending clause catches although it is no documented signal"""
    if classes is None:
        return "Boom"
    cl = classes if isinstance(classes, tuple) else (classes,)
    for c in cl:
        if not any(issubclass(c, a) for a in allowed):
            if c is BaseException:
                return "BaseBoom"
            if c is Exception:
                return "Boom"
            return c.__name__
    return "Boom"


# --------------------------------------------------------------------------------------------
# lookups: Environment / SandboxedEnvironment getattr, getitem
# --------------------------------------------------------------------------------------------

def env_obj(st, cls=E.Environment, **fields):
    return A.obj(st, cls, "environment", fields=fields)


def stored_attributes(*functions):
    """names X of `self.X = ...` / `self.X += ...` stores in the real source of the given functions"""
    import ast
    from pyvc.extract import function_ast
    names = set()
    for fn in functions:
        node, _mod = function_ast(fn)
        first = node.args.args[0].arg if node.args.args else None
        for sub in ast.walk(node):
            if isinstance(sub, ast.Attribute) and isinstance(sub.ctx, (ast.Store, ast.Del)) and isinstance(sub.value, ast.Name) and sub.value.id == first:
                names.add(sub.attr)
    return names


def engine_obj(st, cls, path, fields, *functions):
    """Abstract engine object (Template, LoopContext, ...): the given fields, every attribute the functions under contract
    assign pre-populated with an arbitrary value (so the pre-state is known to the frame clause), everything else arbitrary."""
    fields = dict(fields)
    for name in sorted(stored_attributes(*functions)):
        fields.setdefault(name, sym(f"{path}.{name}", "obj"))
    return st.alloc(HObj(cls, fields=fields, path=path, open=True), initial=True)


class EnvGetattr(FaultVC):
    def __init__(self, cls):
        self.cls = cls
        FaultVC.__init__(self, f"{cls.__name__}.getattr", f"jinja2.{'sandbox' if cls is SB.SandboxedEnvironment else 'environment'}:{cls.__name__}.getattr")

    def configure_more(self, I):
        I.specs["getattr_dyn"] = data_callee("getattr")
        I.specs["getitem_obj"] = data_callee("getitem")
        sandbox_hooks(I)

    def setup(self, I, st):
        self.env = env_obj(st, self.cls)
        return [self.env, sym("obj", "obj"), sym("attribute", "str")], {}


class EnvGetitem(FaultVC):
    def __init__(self, cls):
        self.cls = cls
        FaultVC.__init__(self, f"{cls.__name__}.getitem", f"jinja2.{'sandbox' if cls is SB.SandboxedEnvironment else 'environment'}:{cls.__name__}.getitem")

    def configure_more(self, I):
        I.specs["getattr_dyn"] = data_callee("getattr")
        I.specs["getitem_obj"] = data_callee("getitem")
        I.specs["str_obj"] = data_callee("str", returns="str")  # str(argument) of a str subclass runs data code
        sandbox_hooks(I)

    def setup(self, I, st):
        self.env = env_obj(st, self.cls)
        return [self.env, sym("obj", "obj"), sym("argument", "obj")], {}


class LoopAttr(FaultVC):
    """`loop.<attr>` in a template: Environment.getattr / SandboxedEnvironment.getattr on a LoopContext whose property advances
    the data iterator (last, nextitem) or measures the data (length, revindex, revindex0).  An exception raised by that data
    step is no attribute-lookup signal, whatever its class."""

    def __init__(self, cls, attr, method="getattr"):
        self.cls, self.attr, self.method = cls, attr, method
        fn = f"{cls.__name__}.{method}[loop.{attr}]"
        ALLOWED.setdefault(fn, {"getattr": (AttributeError,), "getitem": LOOKUP, "next": (), "iter": (), "len": ()})
        FaultVC.__init__(self, fn, f"jinja2.{'sandbox' if cls is SB.SandboxedEnvironment else 'environment'}:{cls.__name__}.{method}")
        self.expect_sites = ("len",) if attr in ("length", "revindex", "revindex0") else ("next",)

    def configure_more(self, I):
        for n in ("length", "index", "revindex", "revindex0", "last", "nextitem", "_peek_next", "_to_iterator", "_len_of_iterable"):
            I.inline.add(f"jinja2.runtime:LoopContext.{n}")
        I.specs["next_obj"] = data_callee("next")
        I.specs["len_obj"] = data_callee("len", returns="int")
        I.specs["call_obj"] = lambda I_, st, args, kwargs, node: [(st, fresh("undefined", "obj"))]  # loop._undefined(...)
        I.specs["LoopContext.__getitem__"] = lambda I_, st, args, kwargs, node: [(st, Raised(Exc(TypeError, ("'LoopContext' object is not subscriptable",))))]

        def list_spec(I_, st, args, kwargs, node):
            if len(args) == 1 and isinstance(args[0], Sym) and args[0].k == "obj":
                return data_callee("iter", result=lambda s, a: s.alloc(HList(arr=fresh_arr("lst", "obj"), n=z3.Int(fresh_name("lst_n")), k="obj")))(I_, st, args, kwargs, node)
            return models.instantiate(I_, st, list, args, kwargs, node)

        I.specs[("fn", id(list))] = list_spec
        sandbox_hooks(I)

    def setup(self, I, st):
        fields = {"_iterable": sym("iterable", "obj"), "_iterator": sym("iterator", "obj"), "_after": sym("after", "obj"), "index0": sym("index0", "int"),
                  "_length": None, "_current": sym("current", "obj"), "_before": sym("before", "obj"), "_undefined": sym("undefined_cls", "obj")}
        self.loop = st.alloc(HObj(R.LoopContext, fields=fields, path="loop"), initial=True)
        return [env_obj(st, self.cls), self.loop, self.attr], {}

    def p_no_residue(self, pre, out):
        return None  # the loop object is per-render state; its frame is C38.no_residue.LoopContext.*

    posts = [("catch", FaultVC.p_catch), ("same_object", FaultVC.p_same_object)]


class LoopAttrGroup(Task):
    """The five data-driving loop properties through one environment class, reported as one obligation per clause."""
    kind = "vc"
    prop = "C38"

    def __init__(self, cls, method="getattr"):
        self.cls = cls
        self.fn = f"{cls.__name__}.{method}[loop.*]"
        self.name = "C38." + self.fn
        self.vcs = [LoopAttr(cls, a, method) for a in ("last", "nextitem", "length", "revindex", "revindex0")]

    def run(self, tier, seed):
        out, per_clause = [], {}
        for vc in self.vcs:
            for r in vc.run(tier, seed):
                clause = r.name.split(".")[1]
                if clause in ("catch", "same_object") and r.status in ("refuted", "discharged"):
                    d = per_clause.setdefault(clause, {"bad": [], "n": 0, "wit": None, "detail": ""})
                    d["n"] += 1
                    if r.status == "refuted":
                        w = r.witness or {}
                        d["bad"].append(f"loop.{vc.attr}:{w.get('site')}:{w.get('exc')}")
                        if d["wit"] is None:
                            d["wit"], d["detail"] = w, f"{vc.fn}: {r.detail}"
                else:
                    out.append(r)
        for clause, d in sorted(per_clause.items()):
            nm = f"C38.{clause}.{self.fn}"
            if d["bad"]:
                failing = sorted(set(d["bad"]))
                out.append(Res(nm, "refuted", "pyvc-path", 0.0, f"{failing}: {d['detail']}", "vc", dict(d["wit"], failing=failing)))
            else:
                out.append(Res(nm, "discharged", "pyvc-path", 0.0, f"{d['n']} path obligations", "vc"))
        return out

    def replay(self, w):
        return native_replay(w)

    def finding_key(self, res):
        return ",".join((res.witness or {}).get("failing", []))


class LookupSignals(FaultVC):
    """The documented lookup signals become undefined values in every kind of environment: an item access of the data that raises
    AttributeError / LookupError / TypeError, an attribute access that raises AttributeError (hunt C38_3 = C02_4)."""

    def __init__(self, cls, method):
        self.cls, self.method = cls, method
        FaultVC.__init__(self, f"{cls.__name__}.{method}", f"jinja2.{'sandbox' if cls is SB.SandboxedEnvironment else 'environment'}:{cls.__name__}.{method}")
        self.name = f"C38.{self.fn}[signals]"
        self.expect_sites = ()
        self.data_path_needed = False

    def run(self, tier, seed):
        rs = VC.run(self, tier, seed)
        for r in rs:
            r.name = r.name.replace(f"C38.{self.fn}[signals].absorbed", f"C38.signals.{self.fn}")
        return rs

    def signal(self, site, classes):
        def h(I_, st, args, kwargs, node):
            out = []
            for c in classes:
                s = st.fork()
                e = Exc(c, ("signal",), tag=f"{site}:{c.__name__}", origin=getattr(node, "lineno", None))
                e.signal, e.site = True, site
                s.trace.append(Event("call", "data:" + site, [], {}, e, lineno=getattr(node, "lineno", None)))
                out.append((s, Raised(e)))
            out.append((st, fresh(site, "obj")))
            return out
        return h

    def configure_more(self, I):
        I.specs["getattr_dyn"] = self.signal("getattr", (AttributeError,))
        I.specs["getitem_obj"] = self.signal("getitem", (AttributeError, KeyError, IndexError, TypeError))
        I.specs["str_obj"] = lambda I_, st, args, kwargs, node: [(st, fresh("attr", "str"))]
        sandbox_hooks(I)

    def setup(self, I, st):
        self.env = env_obj(st, self.cls)
        arg = sym("attribute", "str") if self.method == "getattr" else sym("argument", "obj")
        return [self.env, sym("obj", "obj"), arg], {}

    def p_absorbed(self, pre, out):
        if out.raised and getattr(out.value, "signal", False):
            self.offender = (out.value.site, None, out.value.origin)
            self.signal_cls = out.value.cls
            return False
        return True

    posts = [("absorbed", p_absorbed)]

    def concretize(self, model, pre, out):
        site, _c, ln = getattr(self, "offender", (None, None, None))
        return {"kind": "signal", "function": self.fn, "site": site, "exc": getattr(self, "signal_cls", AttributeError).__name__, "line": ln}

    def finding_key(self, res):
        w = res.witness or {}
        return f"{w.get('function')}:{w.get('site')}:{w.get('exc')}:propagates"


def sandbox_hooks(I):
    """environment hooks of the sandbox are called through their contracts (A6): they do not run data code"""
    I.specs["SandboxedEnvironment.wrap_str_format"] = A.abstract_fn("wrap_str_format", returns="obj")
    I.specs["SandboxedEnvironment.is_safe_attribute"] = A.abstract_fn("is_safe_attribute", returns="bool")
    I.specs["SandboxedEnvironment.unsafe_undefined"] = A.abstract_fn("unsafe_undefined", returns="obj", tags=("undefined",))


# --------------------------------------------------------------------------------------------
# Context.call
# --------------------------------------------------------------------------------------------

class ContextCall(FaultVC):
    fn = "Context.call"
    target = "jinja2.runtime:Context.call"

    def configure_more(self, I):
        I.specs["call_obj"] = data_callee("call")
        I.specs["getattr_obj"] = data_callee("getattr")
        I.specs["jinja2.utils:_PassArg.from_obj"] = A.abstract_fn("_PassArg.from_obj", returns="obj")
        I.specs["Context.derived"] = A.abstract_fn("Context.derived", returns="obj")

    def setup(self, I, st):
        self.env = env_obj(st)
        self.ctx = A.obj(st, R.Context, "context", fields={"environment": self.env, "eval_ctx": sym("eval_ctx", "obj")})
        return [self.ctx, sym("callable", "obj"), sym("a0", "obj")], {"k": sym("kw", "obj")}


# --------------------------------------------------------------------------------------------
# capability tests and filters
# --------------------------------------------------------------------------------------------

def not_a_str(I):
    """precondition of the contracts below: the data value is not a str (the str branches call no data code)"""
    def isinstance_obj(I_, st, args, kwargs, node):
        v, cl = args
        if cl == (str,):
            return [(st, False)]
        return None
    I.specs["isinstance_obj"] = isinstance_obj


class TestSequence(FaultVC):
    fn = "test_sequence"
    target = "jinja2.tests:test_sequence"

    def configure_more(self, I):
        I.specs["len_obj"] = data_callee("len", returns="int")
        I.specs["getattr_obj"] = data_callee("getattr")

    def setup(self, I, st):
        return [sym("value", "obj")], {}


class TestIterable(FaultVC):
    fn = "test_iterable"
    target = "jinja2.tests:test_iterable"

    def configure_more(self, I):
        I.specs["iter_obj"] = data_callee("iter")

    def setup(self, I, st):
        return [sym("value", "obj")], {}


class DoFirst(FaultVC):
    fn = "sync_do_first"
    target = "jinja2.filters:sync_do_first"

    def configure_more(self, I):
        I.specs["iter_obj"] = data_callee("iter")
        I.specs["next_obj"] = data_callee("next")

    def setup(self, I, st):
        return [env_obj(st), sym("seq", "obj")], {}


class MinOrMax(FaultVC):
    fn = "_min_or_max"
    target = "jinja2.filters:_min_or_max"

    def configure_more(self, I):
        I.specs["iter_obj"] = data_callee("iter")
        I.specs["next_obj"] = data_callee("next")
        I.specs["call_obj"] = data_callee("call")  # min / max consume the data iterator and call the key function
        I.specs["jinja2.filters:make_attrgetter"] = A.abstract_fn("make_attrgetter", returns="obj")
        I.specs[("fn", id(itertools.chain))] = A.abstract_fn("itertools.chain", returns="obj")

    def setup(self, I, st):
        return [env_obj(st), sym("value", "obj"), sym("func", "obj"), sym("case_sensitive", "bool"), sym("attribute", "obj")], {}


class DoReverse(FaultVC):
    fn = "do_reverse"
    target = "jinja2.filters:do_reverse"

    def configure_more(self, I):
        not_a_str(I)
        I.specs[("fn", id(reversed))] = data_callee("reversed")
        I.specs["iter_obj"] = data_callee("iter")

        def list_spec(I_, st, args, kwargs, node):
            if len(args) == 1 and isinstance(args[0], Sym) and args[0].k == "obj":
                return data_callee("consume", result=lambda s, a: s.alloc(HList(arr=fresh_arr("lst", "obj"), n=z3.Int(fresh_name("lst_n")), k="obj")))(I_, st, args, kwargs, node)
            return models.instantiate(I_, st, list, args, kwargs, node)

        I.specs[("fn", id(list))] = list_spec
        # capability probes on the value's class run no data code
        base_type = I.specs[("fn", id(type))]

        def type_spec(I_, st, args, kwargs, node):
            if len(args) == 1 and isinstance(args[0], Sym) and args[0].k == "obj":
                return [(st, fresh("cls", "obj"))]
            return base_type(I_, st, args, kwargs, node)

        I.specs[("fn", id(type))] = type_spec
        I.specs[("fn", id(hasattr))] = lambda I_, st, args, kwargs, node: [(st.fork(), True), (st, False)]

    expect_sites = ("reversed", "consume")

    def setup(self, I, st):
        return [sym("value", "obj")], {}


class DoRandom(FaultVC):
    fn = "do_random"
    target = "jinja2.filters:do_random"

    def configure_more(self, I):
        I.specs[("fn", id(random.Random.choice))] = data_callee("getitem")

    def setup(self, I, st):
        ctx = A.obj(st, R.Context, "context", fields={"environment": env_obj(st)})
        return [ctx, sym("seq", "obj")], {}


class DoInt(FaultVC):
    fn = "do_int"
    target = "jinja2.filters:do_int"

    def configure_more(self, I):
        I.specs[("fn", id(int))] = data_callee("int", returns="int")
        I.specs[("fn", id(float))] = data_callee("float")

    def setup(self, I, st):
        return [sym("value", "obj"), sym("default", "int"), sym("base", "int")], {}


class DoFloat(FaultVC):
    fn = "do_float"
    target = "jinja2.filters:do_float"

    def configure_more(self, I):
        I.specs[("fn", id(float))] = data_callee("float")

    def setup(self, I, st):
        return [sym("value", "obj"), sym("default", "obj")], {}


class DoAttr(FaultVC):
    fn = "do_attr"
    target = "jinja2.filters:do_attr"

    def configure_more(self, I):
        # getattr_static does not execute data code: it finds the attribute or raises AttributeError
        I.specs[("fn", id(inspect.getattr_static))] = A.abstract_fn("getattr_static", returns="obj", raises=(AttributeError,))

        def hasattr_spec(I_, st, args, kwargs, node):
            s2 = st.fork()
            return [data_raise(st.fork(), "getattr", node), (s2, True), (st, False)]

        I.specs[("fn", id(hasattr))] = hasattr_spec
        I.specs["Environment.getattr"] = data_callee("getattr")  # own contract C38.*.Environment.getattr: may propagate a data exception

    def setup(self, I, st):
        return [env_obj(st), sym("obj", "obj"), sym("name", "str")], {}


class DoLast(FaultVC):
    fn = "do_last"
    target = "jinja2.filters:do_last"

    def configure_more(self, I):
        I.specs[("fn", id(reversed))] = data_callee("reversed")
        I.specs["iter_obj"] = data_callee("iter")
        I.specs["next_obj"] = data_callee("next")

    def setup(self, I, st):
        return [env_obj(st), sym("seq", "obj")], {}


class DoFirstAsync(FaultVC):
    fn = "do_first"
    target = "jinja2.filters:do_first"

    def closure(self, I):
        import inspect as _inspect
        # the async implementation wrapped by @async_variant (the wrapper dispatches on environment.is_async, C09)
        for cell in F.do_first.__closure__ or ():
            f = cell.cell_contents
            if _inspect.iscoroutinefunction(f) and f.__name__ == "do_first":
                return I.closure_of_function(f)
        raise Unsupported("async implementation of do_first not found")

    def configure_more(self, I):
        I.specs["jinja2.async_utils:auto_aiter"] = data_callee("iter")
        I.specs["getattr_obj"] = lambda I_, st, args, kwargs, node: [(st, BoundMethod(args[0], args[1]))]
        I.specs["method_obj"] = lambda I_, st, args, kwargs, node: data_callee("next")(I_, st, args[2:], kwargs, node)

    def setup(self, I, st):
        return [env_obj(st), sym("seq", "obj")], {}


class IterToAsync(FaultVC):
    """async_utils._IteratorToAsyncIterator.__anext__: only the StopIteration of the wrapped iterator is translated
    (into StopAsyncIteration, the async form of the same protocol signal)."""
    fn = "_IteratorToAsyncIterator.__anext__"
    target = "jinja2.async_utils:_IteratorToAsyncIterator.__anext__"

    def configure_more(self, I):
        I.specs["next_obj"] = data_callee("next")
        I.specs["getattr_obj"] = lambda I_, st, args, kwargs, node: [(st, fresh(args[1], "obj"))]

    def setup(self, I, st):
        import jinja2.async_utils as AU
        return [A.obj(st, AU._IteratorToAsyncIterator, "adapter", fields={"_iterator": sym("iterator", "obj")})], {}


class SelectTemplate(FaultVC):
    fn = "Environment.select_template"
    target = "jinja2.environment:Environment.select_template"

    def configure_more(self, I):
        I.specs["Environment._load_template"] = data_callee("load")
        I.specs["Environment.join_path"] = A.abstract_fn("join_path", returns="obj")
        I.loops[("Environment.select_template", 0)] = LoopSpec(lambda ctx: [self.absorbed_only_documented(ctx.st)], havoc={"name": "obj"}, name="names_loop")

    def setup(self, I, st):
        self.names = A.alist(st, "names", "obj")
        return [env_obj(st), self.names, sym("parent", "obj"), sym("globals", "obj")], {}


# --------------------------------------------------------------------------------------------
# entry points: Template.render / render_async / generate / generate_async, handle_exception, rewrite_traceback_stack
# --------------------------------------------------------------------------------------------

def handled_exception(I_, st, args, kwargs, node):
    """Contract of debug.rewrite_traceback_stack (C38.same_object.rewrite_traceback_stack): returns the exception that is
    being handled."""
    cur = st.ghost.get("handling")
    if not cur:
        raise Unsupported("rewrite_traceback_stack outside a handler", node)
    st.trace.append(Event("call", "rewrite_traceback_stack", [], dict(kwargs), cur[-1], lineno=getattr(node, "lineno", None)))
    return [(st, cur[-1])]


class EntryPoint(FaultVC):
    def __init__(self, method, is_async, label=None):
        self.method, self.is_async = method, is_async
        FaultVC.__init__(self, label or f"Template.{method}", f"jinja2.environment:Template.{method}")

    def configure_more(self, I):
        I.inline.add("jinja2.environment:Environment.handle_exception")
        for m in ("render", "render_async", "generate", "generate_async"):
            I.inline.add(f"jinja2.environment:Template.{m}")
        I.inline.add("jinja2.environment:Template.generate.<locals>.to_list")
        I.specs["jinja2.debug:rewrite_traceback_stack"] = handled_exception
        I.specs["Template.new_context"] = A.abstract_fn("Template.new_context", returns="obj")
        # the compiled template body and the consumption of its output run the data code
        I.specs["call_obj"] = data_callee("root_render_func", result=lambda s, a: (fresh("piece", "str"),))
        I.specs["Environment.concat"] = data_callee("concat", returns="str")
        import asyncio
        I.specs[("fn", id(asyncio.run))] = lambda I_, st, args, kwargs, node: [(st, args[0])]  # A7: transparent
        I.specs[("fn", id(E.aclosing))] = lambda I_, st, args, kwargs, node: [(st, ("aclosing", args[0]))]
        # contextlib.aclosing: enters with the generator, never swallows an exception (dependency spec)
        I.specs["cm_enter"] = lambda I_, st, cm, node: [(st, cm[1])] if isinstance(cm, tuple) and cm[0] == "aclosing" else None
        I.specs["cm_exit"] = lambda I_, st, cm, ctl, node: [(st, ctl)] if isinstance(cm, tuple) and cm[0] == "aclosing" else None

    def setup(self, I, st):
        self.env = env_obj(st, is_async=self.is_async)
        self.tmpl = A.obj(st, E.Template, "template", fields={"environment": self.env, "root_render_func": sym("root_render_func", "obj")})
        return [self.tmpl], {"v": sym("v", "obj")}


class NativeEntry(EntryPoint):
    def __init__(self, method, is_async, label):
        self.method, self.is_async = method, is_async
        FaultVC.__init__(self, label, f"jinja2.nativetypes:NativeTemplate.{method}")

    def configure_more(self, I):
        EntryPoint.configure_more(self, I)
        I.inline.add("jinja2.nativetypes:NativeTemplate.render")
        I.inline.add("jinja2.nativetypes:NativeTemplate.render_async")
        I.specs["jinja2.nativetypes:native_concat"] = data_callee("concat")

    def setup(self, I, st):
        import jinja2.nativetypes as NT
        self.env = env_obj(st, NT.NativeEnvironment, is_async=self.is_async)
        self.tmpl = A.obj(st, NT.NativeTemplate, "template", fields={"environment": self.env, "root_render_func": sym("root_render_func", "obj")})
        return [self.tmpl], {"v": sym("v", "obj")}


class DefaultModule(FaultVC):
    """`_module` (and every other attribute of the cached Template) keeps its pre-state when make_module raises."""

    def __init__(self, is_async):
        self.is_async = is_async
        name = "_get_default_module_async" if is_async else "_get_default_module"
        self.make = "make_module_async" if is_async else "make_module"
        FaultVC.__init__(self, f"Template.{name}", f"jinja2.environment:Template.{name}")

    def configure_more(self, I):
        I.specs["Template." + self.make] = data_callee("make_module")

    def setup(self, I, st):
        from pyvc.extract import resolve
        self.tmpl = engine_obj(st, E.Template, "template", {"environment": env_obj(st, is_async=self.is_async), "_module": None},
                               resolve(self.target))
        return [self.tmpl], {}


class MakeModule(FaultVC):
    """make_module / make_module_async build fresh objects only."""

    def __init__(self, is_async):
        self.is_async = is_async
        name = "make_module_async" if is_async else "make_module"
        FaultVC.__init__(self, f"Template.{name}", f"jinja2.environment:Template.{name}")

    def configure_more(self, I):
        I.inline.add("jinja2.environment:TemplateModule.__init__")
        I.specs["Template.new_context"] = A.abstract_fn("Template.new_context", returns="obj")
        I.specs["call_obj"] = data_callee("root_render_func", result=lambda s, a: (fresh("piece", "str"),))

        def getattr_obj(I_, st, args, kwargs, node):
            o, name = args
            if name == "environment":
                return [(st, self.env)]
            if name == "get_exported":
                return [(st, BoundMethod(o, name))]
            return [(st, fresh(name, "obj"))]

        I.specs["getattr_obj"] = getattr_obj
        I.specs["method_obj"] = lambda I_, st, args, kwargs, node: [(st, st.alloc(__import__("pyvc.values", fromlist=["HDict"]).HDict(items={})))]

    def setup(self, I, st):
        from pyvc.extract import resolve
        self.env = env_obj(st, is_async=self.is_async)
        self.tmpl = engine_obj(st, E.Template, "template", {"environment": self.env, "root_render_func": sym("root_render_func", "obj"), "name": sym("tname", "obj")},
                               resolve(self.target))
        return [self.tmpl], {}


class LoadTemplate(FaultVC):
    """Environment._load_template / get_template: the cache is written only after the loader returned."""

    def __init__(self, method):
        self.method = method
        FaultVC.__init__(self, f"Environment.{method}", f"jinja2.environment:Environment.{method}")

    def configure_more(self, I):
        I.inline.add("jinja2.environment:Environment._load_template")
        I.specs["Environment.join_path"] = A.abstract_fn("join_path", returns="obj")
        I.specs["Environment.make_globals"] = A.abstract_fn("make_globals", returns="obj")
        import weakref
        I.specs[("fn", id(weakref.ref))] = A.abstract_fn("weakref.ref", returns="obj")
        c = self

        def method_obj(I_, st, args, kwargs, node):
            recv, name = args[0], args[1]
            if recv is c.loader and name == "load":
                return data_callee("load")(I_, st, args[2:], kwargs, node)  # the loader and the template's module code
            if recv is c.cache and name == "get":
                st.trace.append(Event("read", "cache.get", list(args[2:]), lineno=getattr(node, "lineno", None)))
                return [(st.fork(), None), (st, fresh("cached_template", "obj"))]
            if name == "update":  # template.globals.update(globals): ChainMap of the cached template (documented in get_template)
                return [(st, None)]
            return None

        I.specs["method_obj"] = method_obj

        def getattr_obj(I_, st, args, kwargs, node):
            o, name = args
            if name in ("get", "load", "update"):
                return [(st, BoundMethod(o, name))]
            return [(st, fresh(name, "obj"))]

        I.specs["getattr_obj"] = getattr_obj

        def setitem_obj(I_, st, args, kwargs, node):
            obj, idx, v = args
            st.written.add(("cache", "*"))
            st.trace.append(Event("write", "cache.__setitem__", [obj, idx, v], lineno=getattr(node, "lineno", None)))
            return [(st, None)]

        I.specs["setitem_obj"] = setitem_obj
        not_a_template(I)

    def setup(self, I, st):
        self.loader, self.cache = sym("loader", "obj"), sym("cache", "obj")
        self.env = env_obj(st, loader=self.loader, cache=self.cache, auto_reload=sym("auto_reload", "bool"))
        if self.method == "get_template":
            return [self.env, sym("name", "obj"), sym("parent", "obj"), sym("globals", "obj")], {}
        return [self.env, sym("name", "obj"), sym("globals", "obj")], {}

    def p_no_residue(self, pre, out):
        if not out.raised:
            return None
        ok = not changed_state(pre, out.st) and not any(isinstance(i, str) for (i, _f) in out.st.written)
        if not ok:
            self.offender = (getattr(root(out.value), "site", None), None, out.value.origin)
        return ok

    posts = [("catch", FaultVC.p_catch), ("same_object", FaultVC.p_same_object), ("no_residue", p_no_residue)]


def not_a_template(I):
    def isinstance_obj(I_, st, args, kwargs, node):
        v, cl = args
        if cl == (E.Template,):
            return [(st, False)]
        return None
    I.specs["isinstance_obj"] = isinstance_obj


class HandleException(FaultVC):
    """Environment.handle_exception raises exactly the object returned by rewrite_traceback_stack."""
    fn = "Environment.handle_exception"
    data_path_needed = False  # own postconditions: the handled exception is given, not raised by a callee
    target = "jinja2.environment:Environment.handle_exception"

    def configure_more(self, I):
        def rts(I_, st, args, kwargs, node):
            st.trace.append(Event("call", "rewrite_traceback_stack", [], dict(kwargs), self.rewritten, lineno=getattr(node, "lineno", None)))
            return [(st, self.rewritten)]
        I.specs["jinja2.debug:rewrite_traceback_stack"] = rts

    def setup(self, I, st):
        self.rewritten = Exc(Boom, ("probe",), tag="rewritten")
        self.rewritten.data, self.rewritten.site = True, "handled"
        self.source = sym("source", "obj")
        return [env_obj(st), self.source], {}

    def p_same_object(self, pre, out):
        ev = A.calls(out, "rewrite_traceback_stack")
        if not (out.raised and out.value is self.rewritten and len(ev) == 1 and ev[0].kwargs.get("source") is self.source):
            self.offender = ("handled", None, None)
            return False
        return True

    def p_catch(self, pre, out):
        return not out.st.ghost.get("caught")

    posts = [("catch", p_catch), ("same_object", p_same_object), ("no_residue", FaultVC.p_no_residue)]


class RewriteTraceback(FaultVC):
    """debug.rewrite_traceback_stack returns exc_value.with_traceback(..) of the object found in sys.exc_info()."""
    fn = "rewrite_traceback_stack"
    target = "jinja2.debug:rewrite_traceback_stack"
    data_path_needed = False
    timeout_quick = 20000

    def configure_more(self, I):
        c = self

        def exc_info(I_, st, args, kwargs, node):
            return [(st, (sym("exc_type", "obj"), c.exc_value, c.tb))]

        I.specs[("fn", id(sys.exc_info))] = exc_info
        I.specs[("fn", id(typing.cast))] = lambda I_, st, args, kwargs, node: [(st, args[1])]
        I.specs["jinja2.debug:fake_traceback"] = A.abstract_fn("fake_traceback", returns="obj")

        def getattr_obj(I_, st, args, kwargs, node):
            o, name = args
            if name in ("with_traceback", "get", "get_corresponding_lineno"):
                return [(st, BoundMethod(o, name))]
            return [(st, fresh(name, "obj"))]  # fields of exception / traceback / frame objects

        I.specs["getattr_obj"] = getattr_obj

        def setattr_obj(I_, st, args, kwargs, node):
            st.trace.append(Event("write", "setattr", list(args), lineno=getattr(node, "lineno", None)))
            return [(st, None)]

        I.specs["setattr_obj"] = setattr_obj

        def method_obj(I_, st, args, kwargs, node):
            recv, name = args[0], args[1]
            st.trace.append(Event("call", "method:" + name, list(args), dict(kwargs), None, lineno=getattr(node, "lineno", None)))
            if name == "with_traceback":
                return [(st, recv)]  # BaseException.with_traceback(tb) sets __traceback__ and returns the exception object itself
            return [(st, fresh(name, "obj"))]

        I.specs["method_obj"] = method_obj

        I.specs[("fn", id(reversed))] = self.reversed_spec

        def heap(st, local):
            h = st.get(local["stack"])
            h.items, h.arr, h.n, h.k = None, fresh_arr("stack", "obj"), z3.Int(fresh_name("stack_n")), "obj"
            st.assume(h.n >= 0)

        I.loops[("rewrite_traceback_stack", 0)] = LoopSpec(lambda ctx: [], havoc={"tb": "obj", "template": "obj", "lineno": "obj", "fake_tb": "obj"}, heap=heap, name="tb_walk")
        I.loops[("rewrite_traceback_stack", 1)] = LoopSpec(lambda ctx: [], havoc={"tb_next": "obj"}, name="relink")

    @staticmethod
    def reversed_spec(I_, st, args, kwargs, node):
        a = args[0]
        if isinstance(a, Ref) and isinstance(st.get(a), HList) and not st.get(a).concrete:
            h = st.get(a)
            a = SSeq(h.arr, h.n, h.k)
        return models.builtin_reversed(I_, st, [a], kwargs, node)

    def setup(self, I, st):
        self.exc_value = sym("exc_value", "obj")
        self.tb = sym("tb", "obj")
        return [], {"source": sym("source", "obj")}

    def p_same_object(self, pre, out):
        ok = out.returned and out.value is self.exc_value
        if not ok:
            self.offender = ("handled", None, None)
        return ok

    def p_catch(self, pre, out):
        return not out.st.ghost.get("caught")

    posts = [("catch", p_catch), ("same_object", p_same_object)]


# --------------------------------------------------------------------------------------------
# TemplateStream, BlockReference, LoopContext / AsyncLoopContext, Macro.__call__
# --------------------------------------------------------------------------------------------

def loop_locals(fn):
    """(havoc map of the names assigned inside the loops of fn, names of list-valued locals), read off the real source:
    counters (assigned an int literal / augmented) are ints, everything else is arbitrary"""
    import ast
    from pyvc.extract import function_ast
    node, _mod = function_ast(fn)
    ints, lists, stored = set(), set(), set()
    for sub in ast.walk(node):
        if isinstance(sub, ast.Assign) and len(sub.targets) == 1 and isinstance(sub.targets[0], ast.Name):
            if isinstance(sub.value, ast.Constant) and type(sub.value.value) is int:
                ints.add(sub.targets[0].id)
            if isinstance(sub.value, ast.List):
                lists.add(sub.targets[0].id)
        if isinstance(sub, ast.AnnAssign) and isinstance(sub.target, ast.Name) and isinstance(sub.value, ast.List):
            lists.add(sub.target.id)
        if isinstance(sub, (ast.While, ast.For)):
            for x in ast.walk(sub):
                if isinstance(x, ast.Name) and isinstance(x.ctx, ast.Store):
                    stored.add(x.id)
    return {n: ("int" if n in ints else "obj") for n in stored}, lists


def abstract_list(st, h):
    h.items, h.arr, h.n, h.k = None, fresh_arr("buf", "obj"), z3.Int(fresh_name("buf_n")), "obj"
    st.assume(h.n >= 0)


class BufferedGenerator(FaultVC):
    """TemplateStream._buffered_generator: only the StopIteration of the exhausted render generator ends the stream."""
    fn = "TemplateStream._buffered_generator"
    target = "jinja2.environment:TemplateStream._buffered_generator"

    def configure_more(self, I):
        I.specs["next_obj"] = data_callee("next", returns="obj")
        I.specs["str.join"] = lambda I_, st, args, kwargs, node: [(st, fresh("joined", "str"))]
        inv = lambda ctx: [self.absorbed_only_documented(ctx.st)]  # noqa: E731
        havoc, lists = loop_locals(E.TemplateStream._buffered_generator)

        def heap(st, local):
            for name in lists:  # the buffer(s): arbitrary content at an arbitrary iteration
                if isinstance(local.get(name), Ref) and isinstance(st.get(local[name]), HList):
                    abstract_list(st, st.get(local[name]))

        q = "TemplateStream._buffered_generator"
        I.loops[(q, 0)] = LoopSpec(inv, havoc=dict(havoc), heap=heap, name="fill_and_flush")
        I.loops[(q, 1)] = LoopSpec(inv, havoc=dict(havoc), heap=heap, name="fill")

    def setup(self, I, st):
        from pyvc.extract import resolve
        self.stream = engine_obj(st, E.TemplateStream, "stream", {"_gen": sym("gen", "obj")}, resolve(self.target))
        return [self.stream, sym("size", "int")], {}


class StreamNext(FaultVC):
    fn = "TemplateStream.__next__"
    target = "jinja2.environment:TemplateStream.__next__"

    def configure_more(self, I):
        I.specs["call_obj"] = data_callee("next")

    def setup(self, I, st):
        self.stream = engine_obj(st, E.TemplateStream, "stream", {"_gen": sym("gen", "obj"), "_next": sym("next_fn", "obj")})
        return [self.stream], {}


class StreamDump(FaultVC):
    """TemplateStream.dump (file object given, with and without encoding): no handler, the finally clause swallows nothing."""
    fn = "TemplateStream.dump"
    target = "jinja2.environment:TemplateStream.dump"

    def configure_more(self, I):
        not_a_str(I)
        import codecs
        I.specs[("fn", id(codecs.getincrementalencoder))] = A.abstract_fn("getincrementalencoder", returns="obj")
        I.specs[("fn", id(hasattr))] = lambda I_, st, args, kwargs, node: [(st.fork(), True), (st, False)]

        def call_obj(I_, st, args, kwargs, node):
            return [(st, fresh("encoder", "obj"))]

        I.specs["call_obj"] = call_obj

        def getattr_obj(I_, st, args, kwargs, node):
            return [(st, BoundMethod(args[0], args[1]))]

        I.specs["getattr_obj"] = getattr_obj

        def method_obj(I_, st, args, kwargs, node):
            recv, name = args[0], args[1]
            if name == "writelines":  # consumes the stream: the data code runs here
                return data_callee("next", returns=None)(I_, st, args[2:], kwargs, node)
            return [(st, fresh(name, "obj"))]

        I.specs["method_obj"] = method_obj

        def for_abstract(I_, n, st, fr, itv):
            """`for x in <stream>`: the stream raises (data), is exhausted, or gives one more item"""
            out = [(s, __import__("pyvc.interp", fromlist=["Ctl"]).Ctl("raise", r.exc)) for s, r in [data_raise(st, "next", n)]]
            s1 = st.fork()
            for s2, r in I_.assign(n.target, fresh("chunk", "str"), s1, fr):
                out.extend((s3, c if c.kind not in ("continue", "break") else __import__("pyvc.interp", fromlist=["OK"]).OK) for s3, c in I_.exec_block(n.body, s2, fr))
            out.append((st, __import__("pyvc.interp", fromlist=["OK"]).OK))
            return out

        I.specs["for_abstract"] = for_abstract

    def __init__(self, encoding):
        self.encoding = encoding
        FaultVC.__init__(self, "TemplateStream.dump" + ("[encoding]" if encoding else ""))

    def setup(self, I, st):
        self.stream = engine_obj(st, E.TemplateStream, "stream", {"_gen": sym("gen", "obj"), "_next": sym("next_fn", "obj")})
        return [self.stream, sym("fp", "obj"), ("utf-8" if self.encoding else None)], {}


class BlockCall(FaultVC):
    def __init__(self, is_async):
        self.is_async = is_async
        FaultVC.__init__(self, "BlockReference.__call__" + ("[async]" if is_async else ""), "jinja2.runtime:BlockReference.__call__")

    def configure_more(self, I):
        I.inline.add("jinja2.runtime:BlockReference._async_call")
        I.specs["call_obj"] = data_callee("block", result=lambda s, a: (fresh("piece", "str"),))
        I.specs["Environment.concat"] = data_callee("concat", returns="str")
        import markupsafe
        I.specs[("fn", id(markupsafe.Markup))] = A.abstract_fn("Markup", returns="str")

    def setup(self, I, st):
        env = env_obj(st, is_async=self.is_async)
        ectx = A.obj(st, jinja2.nodes.EvalContext, "eval_ctx", fields={"autoescape": sym("autoescape", "bool")})
        ctx = A.obj(st, R.Context, "context", fields={"environment": env, "eval_ctx": ectx})
        stack = st.alloc(HList(items=[sym("block_fn", "obj")]), initial=True)
        self.ref = A.obj(st, R.BlockReference, "block", fields={"name": "b", "_context": ctx, "_stack": stack, "_depth": 0})
        return [self.ref], {}


class LoopCtx(FaultVC):
    """LoopContext / AsyncLoopContext: a data exception out of the wrapped iterator leaves the loop object unchanged."""

    def __init__(self, cls, method, sites=None):
        self.cls, self.method = cls, method
        self.expect_sites = sites
        FaultVC.__init__(self, f"{cls.__name__}.{method}", f"jinja2.runtime:{cls.__name__}.{method}")

    def configure_more(self, I):
        I.specs["next_obj"] = data_callee("next")
        I.specs["len_obj"] = data_callee("len", returns="int")
        I.inline.add("jinja2.runtime:LoopContext.index")
        I.inline.add("jinja2.runtime:LoopContext._to_iterator")
        I.inline.add("jinja2.runtime:LoopContext._len_of_iterable")
        I.specs["jinja2.runtime:AsyncLoopContext._to_iterator"] = A.abstract_fn("auto_aiter", returns="obj")
        I.specs["jinja2.async_utils:auto_aiter"] = A.abstract_fn("auto_aiter", returns="obj")

        def getattr_obj(I_, st, args, kwargs, node):
            return [(st, BoundMethod(args[0], args[1]))]

        I.specs["getattr_obj"] = getattr_obj
        I.specs["method_obj"] = lambda I_, st, args, kwargs, node: data_callee("next")(I_, st, args[2:], kwargs, node)

        def list_spec(I_, st, args, kwargs, node):
            if len(args) == 1 and isinstance(args[0], Sym) and args[0].k == "obj":
                return data_callee("iter", result=lambda s, a: s.alloc(HList(arr=fresh_arr("lst", "obj"), n=z3.Int(fresh_name("lst_n")), k="obj")))(I_, st, args, kwargs, node)
            return models.instantiate(I_, st, list, args, kwargs, node)

        I.specs[("fn", id(list))] = list_spec

    def setup(self, I, st):
        from pyvc.extract import resolve
        it = sym("iterator", "obj")
        if self.cls is R.AsyncLoopContext and self.method == "length":
            seqv = A.sseq(st, "rest", "obj")
            it = st.alloc(HIter(seqv, 0), initial=True)  # the comprehension over the async iterator needs a sequence model (no raise there)
        fields = {"_iterable": sym("iterable", "obj"), "_iterator": it, "_after": sym("after", "obj"), "index0": sym("index0", "int"),
                  "_length": None, "_current": sym("current", "obj"), "_before": sym("before", "obj"), "_undefined": sym("undefined", "obj")}
        fns = [resolve(self.target)]
        self.loop = engine_obj(st, self.cls, "loop", fields, *fns)
        return [self.loop], {}


class ExpressionCall(FaultVC):
    """TemplateExpression.__call__ (Environment.compile_expression): no handler between the data and the caller."""

    def __init__(self, is_async):
        self.is_async = is_async
        FaultVC.__init__(self, "TemplateExpression.__call__" + ("[async]" if is_async else ""), "jinja2.environment:TemplateExpression.__call__")

    def configure_more(self, I):
        I.inline.add("jinja2.environment:TemplateExpression._consume_async")
        I.inline.add("jinja2.utils:consume")
        I.specs["Template.new_context"] = A.abstract_fn("Template.new_context", returns="obj")
        I.specs["call_obj"] = data_callee("root_render_func", result=lambda s, a: (fresh("piece", "str"),))
        I.specs["getattr_obj"] = lambda I_, st, args, kwargs, node: [(st, fresh(args[1], "obj"))]  # context.vars
        I.specs["getitem_obj"] = lambda I_, st, args, kwargs, node: [(st, fresh("result", "obj"))]  # the context's own dict
        import asyncio
        I.specs[("fn", id(asyncio.run))] = lambda I_, st, args, kwargs, node: [(st, args[0])]

    def setup(self, I, st):
        tmpl = A.obj(st, E.Template, "template", fields={"environment": env_obj(st, is_async=self.is_async), "root_render_func": sym("root_render_func", "obj")})
        self.expr = A.obj(st, E.TemplateExpression, "expression", fields={"_template": tmpl, "_undefined_to_none": sym("undefined_to_none", "bool")})
        return [self.expr], {"v": sym("v", "obj")}


class MacroCallFrame(FaultVC):
    """Macro.__call__: when the macro body raises, the Macro object and the caller's argument objects are unchanged."""
    fn = "Macro.__call__"
    target = "jinja2.runtime:Macro.__call__"

    def configure_more(self, I):
        I.specs["Macro._invoke"] = data_callee("call")
        I.specs["getattr_obj"] = lambda I_, st, args, kwargs, node: [(st, fresh(args[1], "obj"))]  # EvalContext.autoescape

    def setup(self, I, st):
        env = env_obj(st, is_async=False)
        params = st.alloc(HList(items=["a", "b", "c"]), initial=True)
        self.macro = A.obj(st, R.Macro, "macro", fields={
            "_environment": env, "_func": sym("func", "obj"), "_argument_count": 3, "name": "m", "arguments": params,
            "catch_kwargs": sym("catch_kwargs", "bool"), "catch_varargs": sym("catch_varargs", "bool"), "caller": sym("caller", "bool"),
            "explicit_caller": False, "_default_autoescape": sym("autoescape", "bool")})
        return [self.macro, sym("x", "obj")], {"b": sym("y", "obj"), "extra": sym("z", "obj")}


# --------------------------------------------------------------------------------------------
# native replay: the real functions on data objects that raise a probe exception at one site
# --------------------------------------------------------------------------------------------

class Boom(Exception):
    """private exception class of the data"""


class BaseBoom(BaseException):
    pass


PROBES = {c.__name__: c for c in (Boom, BaseBoom, AttributeError, TypeError, KeyError, IndexError, LookupError, ValueError, OverflowError,
                                  StopIteration, RuntimeError, ZeroDivisionError, TemplateNotFound, UndefinedError, Exception)}


class Faulty:
    """data object whose operations raise `exc` at one site and behave benignly elsewhere"""

    def __init__(self, site, exc):
        object.__setattr__(self, "_f", [site, exc, False])

    def _maybe(self, *sites):
        f = object.__getattribute__(self, "_f")
        if f[0] in sites:
            f[2] = True
            raise f[1]

    def __getattr__(self, name):
        self._maybe("getattr")
        if name.startswith("__"):
            raise AttributeError(name)
        return "attr"

    def __getitem__(self, k):
        self._maybe("getitem")
        return "item"

    def __call__(self, *a, **k):
        self._maybe("call", "root_render_func", "concat", "make_module", "next", "block")
        return "called"

    def __len__(self):
        self._maybe("len")
        return 2

    def __iter__(self):
        self._maybe("iter")
        return self

    def __next__(self):
        self._maybe("next")
        raise StopIteration

    def __reversed__(self):
        self._maybe("reversed")
        return iter(())

    def __int__(self):
        self._maybe("int")
        return 1

    def __float__(self):
        self._maybe("float")
        return 1.0


class LenOnly:
    """has a length but no __getitem__ on the class: `value.__getitem__` runs the data's __getattr__"""

    def __init__(self, d):
        self.d = d

    def __len__(self):
        self.d._maybe("len")
        return 2

    def __getattr__(self, name):
        self.d._maybe("getattr")
        raise AttributeError(name)


class FaultyKey(str):
    """a str subclass used as subscript whose __str__ runs data code"""
    _f = None

    def __str__(self):
        self._f[2] = True
        raise self._f[1]


def fired(d):
    return object.__getattribute__(d, "_f")[2] if isinstance(d, Faulty) else d._f[2]


AFTER = {}


def native_call(fn, site, exc):
    """-> (callable running the real function, faulty data object)"""
    import asyncio
    d = Faulty(site, exc)
    env = jinja2.Environment()
    if fn.startswith("Template."):
        mode = {"Template.render": "render", "Template.render[async]": "render", "Template.render_async": "render_async",
                "Template.generate": "generate", "Template.generate[async]": "generate", "Template.generate_async": "generate_async",
                "Template._get_default_module": "module", "Template._get_default_module_async": "module",
                "Template.make_module": "make_module", "Template.make_module_async": "make_module"}[fn]
        aenv = jinja2.Environment(enable_async=("async" in fn))
        if mode in ("module", "make_module"):
            t = aenv.from_string("{% set x = d() %}")
            t.globals["d"] = d
            before = dict(vars(t))

            def after_module(got):
                if got[0] == "return":
                    return None
                now = vars(t)
                diff = sorted(k for k in set(before) | set(now) if before.get(k, AFTER) is not now.get(k, AFTER))
                return f"attributes of the cached Template changed although the module code raised: {diff}" if diff else None

            AFTER[id(d)] = after_module
            meth = fn.split(".", 1)[1]
            if aenv.is_async:
                return (lambda: asyncio.run(getattr(t, meth)())), d
            return (lambda: getattr(t, meth)()), d
        t = aenv.from_string("a{{ d() }}b")

        def after(got):
            import asyncio as aio
            other = aenv.from_string("{{ 1 + 1 }}|{{ d() }}")
            if aenv.is_async:
                r1, r2 = aio.run(t.render_async(d=lambda: "x")), aio.run(other.render_async(d=lambda: "y"))
            else:
                r1, r2 = t.render(d=lambda: "x"), other.render(d=lambda: "y")
            return None if (r1, r2) == ("axb", "2|y") else f"re-render after the fault gave {(r1, r2)!r}"

        AFTER[id(d)] = after
        if mode == "render":
            return (lambda: t.render(d=d)), d
        if mode == "generate":
            return (lambda: list(t.generate(d=d))), d
        if mode == "render_async":
            return (lambda: asyncio.run(t.render_async(d=d))), d

        async def agen():
            return [x async for x in t.generate_async(d=d)]

        return (lambda: asyncio.run(agen())), d
    if "[loop." in fn:
        e = SB.SandboxedEnvironment() if fn.startswith("Sandboxed") else env
        attr = fn.split("[loop.", 1)[1].rstrip("]")
        access = ("loop['" + attr + "']") if ".getitem[" in fn else ("loop." + attr)

        def rows():
            yield 1
            d._maybe(site)
            yield 2

        class Sized:
            def __len__(self):
                d._maybe(site)
                return 2

            def __iter__(self):
                return iter((1, 2))

        object.__getattribute__(d, "_f")[0] = site
        data = Sized() if site == "len" else rows()
        t = e.from_string("{% for x in data %}{{ x }}:{{ " + access + " }},{% endfor %}")
        return (lambda: t.render(data=data)), d
    if fn.startswith("TemplateStream."):
        t = env.from_string("a{{ 1 }}b{{ d() }}c{{ 2 }}")
        if fn == "TemplateStream._buffered_generator":
            def run_buffered():
                st = t.stream(d=d)
                st.enable_buffering(3)
                return "".join(st)
            return run_buffered, d
        if fn == "TemplateStream.__next__":
            return (lambda: "".join(t.stream(d=d))), d

        def run_dump():
            import io
            if "encoding" in fn:
                fp = io.BytesIO()
                t.stream(d=d).dump(fp, "utf-8")
            else:
                fp = io.StringIO()
                t.stream(d=d).dump(fp)
            return fp.getvalue()
        return run_dump, d
    if fn == "do_last":
        return (lambda: F.do_last(env, d)), d
    if fn == "do_first":
        aenv = jinja2.Environment(enable_async=True)
        return (lambda: asyncio.run(F.do_first(aenv, d))), d
    if fn.startswith("NativeTemplate."):
        import jinja2.nativetypes as NT
        nenv = NT.NativeEnvironment(enable_async=("async" in fn))
        t = nenv.from_string("a{{ d() }}b")
        if fn == "NativeTemplate.render_async":
            return (lambda: asyncio.run(t.render_async(d=d))), d
        return (lambda: t.render(d=d)), d
    if fn == "Environment.handle_exception" or fn == "rewrite_traceback_stack":
        def run():
            try:
                d()
            except BaseException:
                if fn == "rewrite_traceback_stack":
                    r = D.rewrite_traceback_stack()
                    if r is not exc:
                        raise RuntimeError("rewrite_traceback_stack returned another object")
                    raise r
                env.handle_exception()
        object.__getattribute__(d, "_f")[0] = "call"
        return run, d
    if fn.endswith(".getattr") or fn.endswith(".getitem"):
        e = SB.SandboxedEnvironment() if fn.startswith("Sandboxed") else env
        if site == "str":
            k = FaultyKey("missing")
            k._f = [site, exc, False]
            return (lambda: e.getitem({}, k)), k
        if fn.endswith(".getattr"):
            if site == "getitem":
                class OnlyItems:
                    def __getitem__(self, key):
                        d._maybe("getitem")
                        return 1
                return (lambda: e.getattr(OnlyItems(), "x")), d
            return (lambda: e.getattr(d, "x")), d
        if site == "getattr":
            class OnlyAttrs:
                def __getattr__(self, name):
                    d._maybe("getattr")
                    return 1
            return (lambda: e.getitem(OnlyAttrs(), "x")), d
        return (lambda: e.getitem(d, "x")), d
    if fn == "Context.call":
        ctx = env.from_string("").new_context()
        return (lambda: ctx.call(d, 1, k=2)), d
    if fn == "test_sequence":
        return (lambda: T.test_sequence(LenOnly(d))), d
    if fn == "test_iterable":
        return (lambda: T.test_iterable(d)), d
    if fn == "sync_do_first":
        return (lambda: F.sync_do_first(env, d)), d
    if fn == "_min_or_max":
        return (lambda: F._min_or_max(env, d, (lambda it, key: d()) if site == "call" else min, True, None)), d
    if fn == "do_reverse":
        class NoReversed:
            def __iter__(self):
                d._maybe("iter")  # the iterability probe

                def rows():
                    yield 1
                    d._maybe("consume")
                    yield 2
                return rows()
        return (lambda: list(F.do_reverse(d if site == "reversed" else NoReversed()))), d
    if fn == "do_random":
        ctx = env.from_string("").new_context()
        return (lambda: F.do_random(ctx, d)), d
    if fn == "do_int":
        return (lambda: F.do_int(d)), d
    if fn == "do_float":
        return (lambda: F.do_float(d)), d
    if fn == "do_attr":
        if site.endswith(":property"):
            class WithProperty:  # found by getattr_static, executed by environment.getattr
                x = property(lambda self: d._maybe(site))
            return (lambda: F.do_attr(env, WithProperty(), "x")), d
        return (lambda: F.do_attr(env, d, "x")), d
    if fn in ("Environment._load_template", "Environment.get_template"):
        class FlakyLoader(jinja2.BaseLoader):
            def get_source(self, environment, template):
                d._maybe("load")
                return "T:" + template, None, None
        e = jinja2.Environment(loader=FlakyLoader())
        before = dict(e.cache.items())

        def after_load(got):
            if got[0] == "return":
                return None
            now = dict(e.cache.items())
            return None if now == before else f"the template cache was written although the loader raised: {sorted(map(str, now))}"

        AFTER[id(d)] = after_load
        if fn.endswith("_load_template"):
            return (lambda: e._load_template("a", None)), d
        return (lambda: e.get_template("a")), d
    if fn == "Environment.select_template":
        class L(jinja2.BaseLoader):
            def get_source(self, environment, template):
                d._maybe("load")
                raise TemplateNotFound(template)
        e = jinja2.Environment(loader=L())
        return (lambda: e.select_template(["a", "b"])), d
    raise KeyError(fn)


def native_signal(w):
    """a documented lookup signal raised by the data's item / attribute access must become an undefined value"""
    cls = probe_class(w.get("exc") or "AttributeError")
    e = SB.SandboxedEnvironment() if w["function"].startswith("Sandboxed") else jinja2.Environment()

    class Delegating:
        colour = "red"

        def __getitem__(self, key):
            raise cls(key)

    try:
        r = getattr(e, w["function"].split(".")[1])(Delegating(), "size")
    except BaseException as x:  # noqa: B902
        return (True, f"{w['function']}: the item access of the data raises {cls.__name__}: propagates {x!r} instead of giving an undefined value")
    return (not isinstance(r, jinja2.Undefined), f"{w['function']}: item access raising {cls.__name__} -> {r!r}")


def probe_class(name):
    import builtins
    c = PROBES.get(name) or getattr(builtins, name, None)
    return c if isinstance(c, type) and issubclass(c, BaseException) else Boom


def native_replay(w):
    """Replay a witness on the real code: violated iff a data exception that is no documented signal does not come out
    as the same object (or the engine state is changed / unusable afterwards)."""
    if w.get("kind") == "history":
        return NativeHistory().replay(w)
    if w.get("kind") == "signal":
        return native_signal(w)
    fn, site, name = w["function"], w.get("site"), w.get("exc") or "Boom"
    if fn not in NATIVE_SITES:
        # no dedicated harness (BlockReference, LoopContext, Macro, loaders ...): these are reached through templates
        for r in native_history("quick", 0):
            if r.status == "refuted":
                return (True, f"{fn}: {r.detail}")
        return (False, f"{fn}: no fault sequence of the history stand-in fails")
    sites = [site] if site in NATIVE_SITES[fn] else list(NATIVE_SITES[fn])
    if fn == "do_attr" and site == "getattr":
        sites = ["getattr", "getattr:property"]
    last = (False, f"{fn}: nothing to run")
    for s_ in sites:
        last = native_replay_site(fn, s_, name)
        if last[0]:
            return last
    return last


def native_replay_site(fn, site, name):
    cls = probe_class(name)
    exc = cls("probe")
    run, d = native_call(fn, site, exc)
    try:
        got = ("return", run())
    except BaseException as x:  # noqa: B902
        got = ("raise", x)
    after = AFTER.pop(id(d), None)
    if not fired(d):
        return (False, f"{fn}: the fault at site {site!r} was not reached natively")
    allowed = allowed_for(fn, site.split(":")[0])
    if fn.startswith(("Template.", "TemplateStream.", "NativeTemplate.")):
        allowed = allowed + (StopIteration,)  # inside a template the call goes through Context.call (its documented signal)
    documented = any(issubclass(cls, a) for a in allowed)
    same = got[0] == "raise" and got[1] is exc
    violated = not documented and not same
    if after is not None:
        msg = after(got)
        if msg:
            return (True, f"{fn}: {msg}")
    return (violated, f"{fn}: data raises {cls.__name__} at {site!r}: {'returns ' + repr(got[1])[:80] if got[0] == 'return' else 'raises ' + repr(got[1])[:80]}"
                      f"{' (the same object)' if same else ''}; documented signal: {documented}")


def native_matrix(tier, seed):
    """Every function x reachable site x probe class on the real code: documented signals may be absorbed, everything else
    must come out as the same object; afterwards the same environment still renders (engine usable)."""
    res = []
    import time
    for fn, sites in NATIVE_SITES.items():
        if "[loop." in fn:
            continue  # replay harness of C38.*.getattr[loop.*] only (the composition is decided symbolically)
        t0 = time.time()
        bad = []
        n = 0
        for site in sites:
            for pname in ("Boom", "BaseBoom", "RuntimeError", "ValueError", "KeyError", "AttributeError", "TypeError", "StopIteration", "IndexError", "OverflowError", "ZeroDivisionError"):
                if (fn, pname) in NATIVE_SKIP:
                    continue
                n += 1
                v, d = native_replay_site(fn, site, pname)
                if v:
                    bad.append(({"function": fn, "site": site, "exc": pname}, d))
        nm = f"C38.native.{fn}"
        if bad:
            wit = dict(bad[0][0], failing=sorted({f"{b[0]['site']}:{b[0]['exc']}" for b in bad}))
            res.append(Res(nm, "refuted", "native", time.time() - t0, f"{len(bad)}/{n}: {bad[0][1]}", "bounded", wit))
        else:
            res.append(Res(nm, "bounded-ok", "native", time.time() - t0, f"{n} fault injections agree", "bounded"))
    return res


# a coroutine cannot let StopIteration out (PEP 479: the interpreter turns it into RuntimeError) - not a property of jinja
NATIVE_SKIP = {("do_first", "StopIteration"), ("do_reverse", "StopIteration")}

NATIVE_SITES = {
    **{f"{c}.{m}[loop.{a}]": (["next"] if a in ("last", "nextitem") else ["len", "iter"])
       for c in ("Environment", "SandboxedEnvironment") for m in ("getattr", "getitem") for a in ("last", "nextitem", "length", "revindex", "revindex0")},
    "Template.render": ["call"], "Template.render[async]": ["call"], "Template.render_async": ["call"],
    "Template.generate": ["call"], "Template.generate[async]": ["call"], "Template.generate_async": ["call"],
    "Template._get_default_module": ["call"], "Template._get_default_module_async": ["call"],
    "Template.make_module": ["call"], "Template.make_module_async": ["call"],
    "Environment._load_template": ["load"], "Environment.get_template": ["load"],
    "TemplateStream._buffered_generator": ["call"], "TemplateStream.__next__": ["call"], "TemplateStream.dump": ["call"],
    "TemplateStream.dump[encoding]": ["call"], "do_last": ["reversed"], "do_first": ["iter", "next"],
    "NativeTemplate.render": ["call"], "NativeTemplate.render[async]": ["call"], "NativeTemplate.render_async": ["call"],
    "Environment.handle_exception": ["call"], "rewrite_traceback_stack": ["call"],
    "Environment.getattr": ["getattr", "getitem"], "Environment.getitem": ["getitem", "getattr", "str"],
    "SandboxedEnvironment.getattr": ["getattr", "getitem"], "SandboxedEnvironment.getitem": ["getitem", "getattr", "str"],
    "Context.call": ["call"], "test_sequence": ["len", "getattr"], "test_iterable": ["iter"],
    "sync_do_first": ["iter", "next"], "_min_or_max": ["iter", "next", "call"], "do_reverse": ["reversed", "consume", "iter"],
    "do_random": ["len", "getitem"], "do_int": ["int", "float"], "do_float": ["float"], "do_attr": ["getattr", "getattr:property"],
    "Environment.select_template": ["load"],
}


# --------------------------------------------------------------------------------------------
# C38.handlers: every `except` clause of src/jinja2/*.py (AST scan)
# --------------------------------------------------------------------------------------------
# A handler that unconditionally re-raises the exception it caught (bare `raise` / `raise <its name>` as last statement, no
# return / yield / continue / break in its body) cannot lose a data exception and needs no entry.  Every other handler must be
# listed here with exactly the classes it catches, and its function must have a justification below: either a contract of
# this module (then C38.catch / C38.same_object cover it) or the reason why its try body runs no data code / why absorbing
# is the documented behaviour.  A new handler, a widened clause or a handler in a new function fails C38.handlers.
HANDLER_CLASSES = {
    "async_utils:_IteratorToAsyncIterator.__anext__": ['StopIteration'],
    "bccache:Bucket.load_bytecode": ['Exception', 'EOFError,TypeError,ValueError'],
    "bccache:FileSystemBytecodeCache._get_default_cache_dir": ['OSError', 'OSError'],
    "bccache:FileSystemBytecodeCache.load_bytecode": ['FileNotFoundError,IsADirectoryError,PermissionError'],
    "bccache:FileSystemBytecodeCache.dump_bytecode.remove_silent": ['OSError'],
    "bccache:FileSystemBytecodeCache.dump_bytecode": ['OSError'],
    "bccache:FileSystemBytecodeCache.clear": ['OSError'],
    "bccache:MemcachedBytecodeCache.load_bytecode": ['Exception'],
    "bccache:MemcachedBytecodeCache.dump_bytecode": ['Exception'],
    "compiler:find_undeclared": ['VisitorExit'],
    "compiler:UndeclaredNameVisitor.visit_Macro": ['VisitorExit'],
    "compiler:UndeclaredNameVisitor._visit_scope": ['VisitorExit'],
    "compiler:CodeGenerator.blockvisit": ['CompilerExit'],
    "compiler:CodeGenerator.macro_body": ['IndexError', 'IndexError'],
    "compiler:CodeGenerator.visit_Output": ['Exception,nodes.Impossible'],
    "compiler:CodeGenerator.visit_TemplateData": ['nodes.Impossible'],
    "compiler:CodeGenerator.visit_EvalContextModifier": ['nodes.Impossible'],
    "debug:fake_traceback": ['BaseException'],
    "debug:get_template_locals": ['ValueError'],
    "environment:Environment.getitem": ['AttributeError,LookupError,TypeError', 'Exception', 'AttributeError'],
    "environment:Environment.getattr": ['AttributeError', 'AttributeError,LookupError,TypeError'],
    "environment:Environment._filter_test_common": ['Exception'],
    "environment:Environment.parse": ['TemplateSyntaxError'],
    "environment:Environment.lex": ['TemplateSyntaxError'],
    "environment:Environment.compile": ['TemplateSyntaxError'],
    "environment:Environment.compile_expression": ['TemplateSyntaxError'],
    "environment:Environment.compile_templates": ['TemplateSyntaxError'],
    "environment:Environment.compile_templates.write_file": ['NotImplementedError,OSError'],
    "environment:Environment.select_template": ['TemplateNotFound,UndefinedError'],
    "environment:Template.render": ['Exception'],
    "environment:Template.render_async": ['Exception'],
    "environment:Template.generate": ['Exception'],
    "environment:Template.generate_async": ['Exception'],
    "environment:TemplateStream._buffered_generator": ['StopIteration'],
    "exceptions:TemplateSyntaxError.__str__": ['IndexError'],
    "ext:_CommentFinder.find_backwards": ['ValueError'],
    "ext:babel_extract": ['TemplateSyntaxError'],
    "filters:_min_or_max": ['StopIteration'],
    "filters:sync_do_first": ['StopIteration'],
    "filters:do_first": ['StopAsyncIteration'],
    "filters:do_last": ['StopIteration'],
    "filters:do_random": ['IndexError'],
    "filters:do_int": ['OverflowError,TypeError,ValueError', 'OverflowError,TypeError,ValueError'],
    "filters:do_float": ['OverflowError,TypeError,ValueError'],
    "filters:do_reverse": ['TypeError'],
    "filters:do_attr": ['AttributeError'],
    "filters:prepare_map": ['LookupError'],
    "filters:prepare_select_or_reject": ['LookupError', 'LookupError'],
    "lexer:TokenStream.__next__": ['StopIteration'],
    "lexer:Lexer.wrap": ['Exception'],
    "loaders:FileSystemLoader.get_source.uptodate": ['OSError'],
    "loaders:_get_zipimporter_files": ['AttributeError', 'AttributeError'],
    "loaders:PackageLoader.get_source": ['OSError'],
    "loaders:PrefixLoader.get_loader": ['KeyError,ValueError'],
    "loaders:PrefixLoader.get_source": ['TemplateNotFound'],
    "loaders:PrefixLoader.load": ['TemplateNotFound'],
    "loaders:ChoiceLoader.get_source": ['TemplateNotFound'],
    "loaders:ChoiceLoader.load": ['TemplateNotFound'],
    "loaders:ModuleLoader.load": ['ImportError'],
    "nativetypes:native_concat": ['MemoryError,RecursionError,SyntaxError,TypeError,ValueError'],
    "nativetypes:NativeCodeGenerator._output_child_to_const": ['MemoryError,RecursionError,SyntaxError,TypeError,ValueError'],
    "nativetypes:NativeTemplate.render": ['Exception'],
    "nativetypes:NativeTemplate.render_async": ['Exception'],
    "nodes:Node.iter_fields": ['AttributeError'],
    "nodes:BinExpr.as_const": ['Exception'],
    "nodes:UnaryExpr.as_const": ['Exception'],
    "nodes:Dict.as_const": ['Exception'],
    "nodes:CondExpr.as_const": ['Exception'],
    "nodes:args_as_const": ['Exception', 'Exception'],
    "nodes:_FilterTestCommon.as_const": ['Exception'],
    "nodes:Getitem.as_const": ['Exception'],
    "nodes:Getattr.as_const": ['Exception'],
    "nodes:Concat.as_const": ['Exception'],
    "nodes:Compare.as_const": ['Exception'],
    "nodes:And.as_const": ['Exception'],
    "nodes:Or.as_const": ['Exception'],
    "optimizer:Optimizer.generic_visit": ['nodes.Impossible'],
    "runtime:Context.super": ['LookupError'],
    "runtime:Context.get": ['KeyError'],
    "runtime:Context.call": ['StopIteration'],
    "runtime:LoopContext.length": ['TypeError'],
    "runtime:AsyncLoopContext.length": ['TypeError'],
    "runtime:AsyncLoopContext._peek_next": ['StopAsyncIteration'],
    "runtime:AsyncLoopContext._known_length": ['TypeError'],
    "runtime:Macro.__call__": ['KeyError'],
    "sandbox:SandboxedEnvironment.getitem": ['AttributeError,LookupError,TypeError', 'Exception', 'AttributeError'],
    "sandbox:SandboxedEnvironment.getattr": ['AttributeError', 'AttributeError,LookupError,TypeError'],
    "tests:test_sequence": ['Exception'],
    "tests:test_iterable": ['TypeError'],
    "utils:import_string": ['AttributeError,ImportError'],
    "utils:LRUCache.get": ['KeyError'],
    "utils:LRUCache.setdefault": ['KeyError'],
    "utils:LRUCache.__getitem__": ['ValueError'],
    "utils:LRUCache.__delitem__": ['ValueError'],
    "utils:Namespace.__getattribute__": ['KeyError'],
}

_COMPILE = "compile time (no template data exists yet): a failed constant folding (`Impossible`) falls back to run-time evaluation, where the exception of the data propagates"
HANDLER_WHY = {
    # -- data path: under contract in this module
    "async_utils:_IteratorToAsyncIterator.__anext__": "contract:_IteratorToAsyncIterator.__anext__",
    "environment:Environment.getitem": "contract:Environment.getitem", "environment:Environment.getattr": "contract:Environment.getattr",
    "environment:Environment.select_template": "contract:Environment.select_template",
    "environment:Template.render": "contract:Template.render", "environment:Template.render_async": "contract:Template.render_async",
    "environment:Template.generate": "contract:Template.generate", "environment:Template.generate_async": "contract:Template.generate_async",
    "environment:TemplateStream._buffered_generator": "contract:TemplateStream._buffered_generator",
    "filters:_min_or_max": "contract:_min_or_max", "filters:sync_do_first": "contract:sync_do_first", "filters:do_first": "contract:do_first",
    "filters:do_last": "contract:do_last", "filters:do_random": "contract:do_random", "filters:do_int": "contract:do_int",
    "filters:do_float": "contract:do_float", "filters:do_reverse": "contract:do_reverse", "filters:do_attr": "contract:do_attr",
    "nativetypes:NativeTemplate.render": "contract:NativeTemplate.render", "nativetypes:NativeTemplate.render_async": "contract:NativeTemplate.render_async",
    "runtime:Context.call": "contract:Context.call", "runtime:LoopContext.length": "contract:LoopContext.length",
    "runtime:AsyncLoopContext.length": "contract:AsyncLoopContext.length", "runtime:AsyncLoopContext._peek_next": "contract:AsyncLoopContext._peek_next",
    "runtime:AsyncLoopContext._known_length": "contract:AsyncLoopContext._known_length",
    "environment:Environment.compile_templates.write_file": "removal of a stale byte-code file next to a precompiled template (os.remove / importlib cache path): file system only, no template is rendered",
    "runtime:Macro.__call__": "contract:Macro.__call__",
    "sandbox:SandboxedEnvironment.getitem": "contract:SandboxedEnvironment.getitem", "sandbox:SandboxedEnvironment.getattr": "contract:SandboxedEnvironment.getattr",
    "tests:test_sequence": "contract:test_sequence", "tests:test_iterable": "contract:test_iterable",
    # -- no data code in the try body / documented absorption
    "bccache:": "bytecode cache files and memcached clients (C27): I/O and unpickling of cache entries, no template data is evaluated",
    "compiler:": _COMPILE + "; VisitorExit / CompilerExit / IndexError are the compiler's own control flow",
    "nodes:": _COMPILE,
    "optimizer:": _COMPILE,
    "debug:fake_traceback": "executes the one-line `raise __jinja_exception__` stub to fabricate a traceback entry for the exception being "
                            "rewritten; the caught object is that exception, which rewrite_traceback_stack returns (contract rewrite_traceback_stack)",
    "debug:get_template_locals": "parsing of the compiler's own local variable names (l_<depth>_<name>)",
    "environment:Environment._filter_test_common": "the try body calls Undefined._fail_with_undefined_error of an undefined filter / test NAME to "
                                                   "borrow its message; a TemplateRuntimeError is raised in any case, no data callee runs",
    "environment:Environment.parse": "TemplateSyntaxError of the parser, re-raised through handle_exception (contract Environment.handle_exception)",
    "environment:Environment.lex": "TemplateSyntaxError of the lexer, re-raised through handle_exception",
    "environment:Environment.compile": "TemplateSyntaxError of parser / compiler, re-raised through handle_exception",
    "environment:Environment.compile_expression": "TemplateSyntaxError, re-raised through handle_exception",
    "environment:Environment.compile_templates": "TemplateSyntaxError while precompiling templates: re-raised unless ignore_errors (documented parameter)",
    "exceptions:TemplateSyntaxError.__str__": "IndexError of indexing the template source lines while formatting the message",
    "ext:": "compile-time extraction of translatable strings (token / comment parsing, TemplateSyntaxError with `silent`)",
    "filters:prepare_map": "IndexError of indexing the filter's own argument tuple, turned into FilterArgumentError (documented)",
    "filters:prepare_select_or_reject": "IndexError of indexing the filter's own argument tuple; the second try body only defines a function",
    "lexer:": "tokenising the template source (C39/C01): StopIteration of the lexer's own generator, errors of literal conversion become TemplateSyntaxError",
    "loaders:": "template lookup (C28/C33): OSError / missing package data / unknown prefix are translated into TemplateNotFound or tried on the next "
                "loader, as the loader API documents; data exceptions of a loaded template's code pass through (contract Environment._load_template)",
    "nativetypes:NativeCodeGenerator._output_child_to_const": _COMPILE + " (literal_eval of the text of a compile-time constant)",
    "nativetypes:native_concat": "literal_eval of the rendered TEXT (C34): 'if the result can be parsed ... otherwise the string is returned'; no data callee runs",
    "nodes:Node.iter_fields": "AttributeError of a node field that is not set (compile time)",
    "runtime:Context.super": "LookupError of the context's own block table (dict / list of compiled block functions)",
    "runtime:Context.get": "KeyError of Context.__getitem__, which raises it for a name missing from the context's own dicts",
    "runtime:make_logging_undefined.LoggingUndefined._fail_with_undefined_error": "re-raises the caught object (`raise e`) after logging it (C21)",
    "utils:import_string": "import of a dotted name given by the application (extensions), re-raised unless `silent`",
    "utils:LRUCache.": "KeyError / ValueError of the cache's own dict and deque (C26)",
    "utils:Namespace.__getattribute__": "KeyError of the namespace's own dict becomes AttributeError (attribute protocol)",
}


# class lists accepted as well: the same handlers after the candidate patch proposed_fixes/c38_getitem_str_swallow.diff (declined
# upstream for now: the `except Exception` around str(argument) is kept deliberately)
HANDLER_ALTERNATIVES = {
    "sandbox:SandboxedEnvironment.getitem": [["AttributeError,LookupError,TypeError", "AttributeError"]],
    "environment:Environment.getitem": [["AttributeError,LookupError,TypeError", "AttributeError"]],
}


def handler_reraises(h):
    import ast
    last = h.body[-1]
    if not (isinstance(last, ast.Raise) and (last.exc is None or (isinstance(last.exc, ast.Name) and last.exc.id == h.name and last.cause is None))):
        return False
    for stmt in h.body:
        for sub in ast.walk(stmt):
            if isinstance(sub, (ast.Return, ast.Yield, ast.YieldFrom, ast.Continue, ast.Break)):
                return False
    return True


def scan_handlers():
    """{module:qualname: [sorted class names of each non-re-raising handler, in source order]} over src/jinja2/*.py"""
    import ast
    import glob
    import os
    root_dir = os.path.dirname(jinja2.__file__)
    found = {}
    for path in sorted(glob.glob(os.path.join(root_dir, "*.py"))):
        mod = os.path.basename(path)[:-3]
        tree = ast.parse(open(path, encoding="utf-8").read())

        def walk(node, qual):
            for c in ast.iter_child_nodes(node):
                q = qual + [c.name] if isinstance(c, (ast.FunctionDef, ast.AsyncFunctionDef, ast.ClassDef)) else qual
                if isinstance(c, ast.Try):
                    for h in c.handlers:
                        if handler_reraises(h):
                            continue
                        if h.type is None:
                            cl = "<bare>"
                        else:
                            els = h.type.elts if isinstance(h.type, ast.Tuple) else [h.type]
                            cl = ",".join(sorted(ast.unparse(e) for e in els))
                        found.setdefault(f"{mod}:{'.'.join(qual) or '<module>'}", []).append((cl, h.lineno))
                walk(c, q)

        walk(tree, [])
    return found


def why_for(key):
    if key in HANDLER_WHY:
        return HANDLER_WHY[key]
    best = None
    for k, v in HANDLER_WHY.items():
        if (k.endswith(":") or k.endswith(".")) and key.startswith(k) and (best is None or len(k) > len(best[0])):
            best = (k, v)
    return best[1] if best else None


def handler_table(task, tier, seed):
    res = []
    found = scan_handlers()
    contracts = {t.fn for t in MEMBERS if isinstance(t, FaultVC)} | {v.fn for t in MEMBERS if isinstance(t, LoopAttrGroup) for v in t.vcs}
    for key in sorted(set(found) | set(HANDLER_CLASSES)):
        got = [c for c, _ln in found.get(key, [])]
        want = HANDLER_CLASSES.get(key)
        why = why_for(key)
        nm = f"C38.handlers.{key.replace(':', '.')}"
        wit = {"kind": "handler", "handler": key, "classes": got, "lines": [ln for _c, ln in found.get(key, [])]}
        if want is None:
            res.append(Res(nm, "refuted", "table", 0, f"unlisted `except` clause(s) {got} at line(s) {wit['lines']}: a handler that does not re-raise "
                                                      "must be a listed, justified catch", "table", wit))
        elif got != want and got not in HANDLER_ALTERNATIVES.get(key, []):
            res.append(Res(nm, "refuted", "table", 0, f"`except` clauses changed: listed {want}, found {got} (lines {wit['lines']})", "table", wit))
        elif why is None:
            res.append(Res(nm, "error", "table", 0, "listed handler without justification", "table"))
        elif why.startswith("contract:") and why[len("contract:"):] not in contracts:
            res.append(Res(nm, "error", "table", 0, f"justified by a contract that does not exist: {why}", "table"))
        else:
            res.append(Res(nm, "discharged", "table", 0, why[:200], "table"))
    return res


class HandlerTable(Task):
    kind = "table"
    prop = "C38"
    name = "C38.handlers"

    def run(self, tier, seed):
        return handler_table(self, tier, seed)

    def replay(self, w):
        """a changed / new handler is looked for natively with the history stand-in and the fault matrix"""
        for r in native_history("quick", 0) + native_matrix("quick", 0):
            if r.status == "refuted":
                return (True, f"{w.get('handler')}: {r.name}: {r.detail}")
        return (False, f"{w.get('handler')}: no native fault injection fails")

    def finding_key(self, res):
        w = res.witness or {}
        return f"{w.get('handler')}:{'|'.join(w.get('classes', []))}"


# --------------------------------------------------------------------------------------------
# native history stand-in: a raising render followed by clean renders of the whole template family
# --------------------------------------------------------------------------------------------
HISTORY_TEMPLATES = {
    "lib": "{% set v = probe('lib') %}{% macro show(x) %}[{{ v }}:{{ x }}:{{ probe('macro') }}]{% endmacro %}lib-body",
    "main": "{% import 'lib' as lib %}{{ lib.show(1) }}",
    "other": "{% from 'lib' import show %}<{{ show(2) }}>",
    "incl": "{% include 'lib' without context %}!",
    "incl_ctx": "{% include 'lib' %}?",
    "base": "<{% block body %}base {{ probe('base') }}{% endblock %}|{% block tail %}t{% endblock %}>",
    "child": "{% extends 'base' %}{% block body %}child {{ probe('child') }} {{ super() }}{% endblock %}",
    "loop": "{% for x in seq() %}{{ loop.index }}/{{ loop.length }}:{{ x }}{% if not loop.last %},{% endif %}{% endfor %}",
    "page": "head {{ probe('a') }}|{{ obj.attr }}|{{ obj['k'] }}|{{ obj }}|{{ probe('b') }} tail",
}


class BoomStop(StopIteration):
    """private StopIteration subclass raised by the data (e.g. next() on an exhausted iterator inside a property / __str__)"""


class Clock:
    """counts the data events of one render and raises a private exception object at the k-th"""
    exc_class = None

    def __init__(self, fail_at=None, exc_class=None):
        self.fail_at, self.n, self.raised = fail_at, 0, None
        self.exc_class = exc_class or Clock.exc_class or Boom

    def tick(self, what):
        self.n += 1
        if self.n == self.fail_at:
            self.raised = self.exc_class(f"event {self.n}: {what}")
            self.what = what
            raise self.raised


def history_env(enable_async, clock_box):
    env = jinja2.Environment(loader=jinja2.DictLoader(HISTORY_TEMPLATES), enable_async=enable_async)

    class Obj:
        @property
        def attr(self):
            clock_box[0].tick("attr")
            return "A"

        def __getitem__(self, key):
            clock_box[0].tick("item")
            return "I"

        def __str__(self):
            clock_box[0].tick("str")
            return "S"

    def probe(what):
        clock_box[0].tick("call " + what)
        return "ok"

    def seq():
        for x in "ab":
            clock_box[0].tick("iter")
            yield x

    env.globals.update(probe=probe, seq=seq, obj=Obj())
    return env


def history_ways(enable_async):
    import asyncio

    def buffered(n):
        def run(t):
            st = t.stream()
            st.enable_buffering(n)
            return "".join(st)
        run.__name__ = f"stream_buffered_{n}"
        return run

    def dump(t):
        import io
        fp = io.BytesIO()
        t.stream().dump(fp, "utf-8")
        return fp.getvalue().decode("utf-8")

    ways = [("render", lambda t: t.render()), ("generate", lambda t: "".join(t.generate())), ("stream", lambda t: "".join(t.stream())),
            ("stream_buffered_2", buffered(2)), ("stream_buffered_3", buffered(3)), ("stream_buffered_5", buffered(5)), ("stream_dump", dump)]
    if enable_async:
        async def agen(t):
            return "".join([x async for x in t.generate_async()])
        ways = ways[:2] + [("stream_buffered_3", buffered(3)), ("render_async", lambda t: asyncio.run(t.render_async())), ("generate_async", lambda t: asyncio.run(agen(t)))]
    return ways


def history_case(enable_async, first, way_name, k, warm, expected=None):
    """-> list of problems of one fault sequence"""
    ways = dict(history_ways(enable_async))
    box = [Clock()]
    if expected is None:
        ref = history_env(enable_async, box)
        expected = {n: ref.get_template(n).render() for n in HISTORY_TEMPLATES}
    env = history_env(enable_async, box)
    problems = []
    if warm:
        for n in HISTORY_TEMPLATES:
            env.get_template(n).render()
    box[0] = clock = Clock(fail_at=k)
    try:
        out = ways[way_name](env.get_template(first))
    except BaseException as e:  # noqa: B902
        if e is clock.raised:
            pass
        elif clock.exc_class is BoomStop and clock.raised is not None and clock.what.startswith("call "):
            pass  # the documented signal: StopIteration from a callable becomes undefined (any outcome of that is not judged here)
        else:
            problems.append(f"raised {type(e).__name__}: {e} instead of the data's exception")
    else:
        if clock.raised is not None and clock.exc_class is BoomStop and clock.what.startswith("call "):
            pass  # documented: StopIteration from a callable becomes an undefined value
        elif clock.raised is not None:
            problems.append(f"the data's exception ({clock.raised}) was lost, output {out!r}")
        elif out != expected[first]:
            problems.append(f"clean output {out!r} != {expected[first]!r}")
    if clock.exc_class is BoomStop and clock.raised is not None and (clock.what.startswith("call ") or clock.what == "iter"):
        # StopIteration from a CALLABLE is the documented signal (it becomes an undefined value); the "iter" event of the stand-in
        # lives in a generator function of the data, where the interpreter itself (PEP 479) replaces it: neither is judged here
        return []
    box[0] = Clock()
    for n in HISTORY_TEMPLATES:  # the data is healthy again: every family member renders as in a fresh environment
        try:
            got = env.get_template(n).render()
        except BaseException as e:  # noqa: B902
            problems.append(f"later clean render of {n!r} raised {type(e).__name__}: {e}")
            continue
        if got != expected[n]:
            problems.append(f"later clean render of {n!r} gave {got!r}, a fresh environment gives {expected[n]!r}")
    return problems


def native_history(tier, seed, exc_class=None):
    import time
    res = []
    Clock.exc_class = exc_class
    try:
        return _native_history(tier, seed, "" if exc_class is None else "_" + exc_class.__name__)
    finally:
        Clock.exc_class = None


def _native_history(tier, seed, label):
    import time
    res = []
    for enable_async in (False, True):
        t0 = time.time()
        mode = "async" if enable_async else "sync"
        box = [Clock()]
        ref = history_env(enable_async, box)
        expected, events = {}, {}
        for n in HISTORY_TEMPLATES:
            box[0] = Clock()
            expected[n] = ref.get_template(n).render()
            events[n] = box[0].n
        bad, cases = [], 0
        cold_events = {}
        for n in HISTORY_TEMPLATES:  # events of a first (cold) render: imported modules are evaluated too
            box[0] = Clock()
            history_env(enable_async, box).get_template(n).render()
            cold_events[n] = box[0].n
        for first in HISTORY_TEMPLATES:
            for way_name, _w in history_ways(enable_async):
                for warm in (False, True):
                    for k in range(1, (events if warm else cold_events)[first] + 1):
                        cases += 1
                        ps = history_case(enable_async, first, way_name, k, warm, expected)
                        if ps:
                            bad.append(({"kind": "history", "async": enable_async, "first": first, "way": way_name, "k": k, "warm": warm,
                                         "exc": (Clock.exc_class or Boom).__name__}, ps[0]))
        nm = f"C38.native.history{label}[{mode}]"
        if bad:
            wit = dict(bad[0][0], failing=sorted({f"{b[0]['first']}/{b[0]['way']}" for b in bad}))
            res.append(Res(nm, "refuted", "native", time.time() - t0, f"{len(bad)}/{cases} fault sequences: [{mode}] {bad[0][0]['way']}({bad[0][0]['first']!r}) fault at event "
                                                                     f"{bad[0][0]['k']}{' (warm caches)' if bad[0][0]['warm'] else ''}: {bad[0][1]}", "bounded", wit))
        else:
            res.append(Res(nm, "bounded-ok", "native", time.time() - t0, f"{cases} fault sequences (raising render, then clean renders of all {len(HISTORY_TEMPLATES)} templates)", "bounded"))
    return res


class NativeHistory(Task):
    """Bounded stand-in for 'subsequent renders of the same and other templates are unaffected'."""
    kind = "bounded"
    prop = "C38"
    name = "C38.native.history"
    bound_text = ("template family (import, from-import, include with / without context, extends + super, macro, for loop with loop.length / "
                  "loop.last, attribute / item / str access): for every template, every way of rendering (render, generate, stream, buffered "
                  "stream 2/3/5, stream.dump; async: render, generate, buffered stream, render_async, generate_async), cold and warm caches and "
                  "every k up to the number of data events, the k-th data event raises a private exception: it must reach the caller as the "
                  "same object, and afterwards every template of the family must render exactly as in a fresh environment")

    def run(self, tier, seed):
        # second sweep: the data's exception is a StopIteration subclass raised at an attribute / item / str / iterator event (the
        # documented StopIteration signal is that of a CALLABLE only)
        return native_history(tier, seed) + native_history(tier, seed, BoomStop)

    def replay(self, w):
        Clock.exc_class = BoomStop if w.get("exc") == "BoomStop" else None
        try:
            ps = history_case(w["async"], w["first"], w["way"], w["k"], w.get("warm", False))
        finally:
            Clock.exc_class = None
        return (bool(ps), f"[{'async' if w['async'] else 'sync'}] {w['way']}({w['first']!r}) fault at event {w['k']}: " + ("; ".join(ps[:3]) or "ok"))

    def finding_key(self, res):
        w = res.witness or {}
        return ",".join(w.get("failing", []))


# --------------------------------------------------------------------------------------------
# C38.lazy_map: builtin map() / filter() over a function that runs data code (AST scan of src/jinja2/*.py)
# --------------------------------------------------------------------------------------------
# map(f, seq) lets a StopIteration raised by f escape from its __next__; every consumer ("".join, sum, list, a for loop) takes
# that for the end of the iteration.  So a StopIteration raised by the data inside f (a __str__, a property read by an
# attrgetter) silently truncates the result instead of propagating (hunt j2/C38_1).  Every map()/filter() call must therefore map
# a function that runs no data code (listed in LAZY_MAP_OK with the reason) - the others are refuted.
LAZY_MAP_OK = {
    "compiler:": "compile time: names of the template's own variables",
    "parser:": "parse time: token descriptions for an error message",
    "environment:Template.debug_info": "the compiler's own debug info string (pairs of integers)",
    "exceptions:TemplatesNotFound.__init__": "names of the templates that were tried, for the error message (Undefined names were replaced by their message before)",
}


def scan_lazy_maps():
    import ast
    import glob
    import os
    found = {}
    for path in sorted(glob.glob(os.path.join(os.path.dirname(jinja2.__file__), "*.py"))):
        mod = os.path.basename(path)[:-3]
        tree = ast.parse(open(path, encoding="utf-8").read())

        def walk(node, qual):
            for c in ast.iter_child_nodes(node):
                q = qual + [c.name] if isinstance(c, (ast.FunctionDef, ast.AsyncFunctionDef, ast.ClassDef)) else qual
                if isinstance(c, ast.Call) and isinstance(c.func, ast.Name) and c.func.id in ("map", "filter") and c.args:
                    found.setdefault(f"{mod}:{'.'.join(qual) or '<module>'}", []).append(ast.unparse(c.args[0]))
                walk(c, q)

        walk(tree, [])
    return found


def lazy_map_table(task, tier, seed):
    res = []
    for key, fns in sorted(scan_lazy_maps().items()):
        why = next((v for k, v in LAZY_MAP_OK.items() if key == k or (k.endswith(":") and key.startswith(k))), None)
        nm = f"C38.lazy_map.{key.replace(':', '.')}"
        if why:
            res.append(Res(nm, "discharged", "table", 0, why, "table"))
        else:
            res.append(Res(nm, "refuted", "table", 0, f"map()/filter() over {fns}: the mapped function runs data code (str / soft_str / attribute getter); a StopIteration "
                                                      "raised there ends the iteration silently", "table", {"kind": "lazy_map", "site": key, "mapped": fns}))
    return res


class LazyMapTable(Task):
    kind = "table"
    prop = "C38"
    name = "C38.lazy_map"

    def run(self, tier, seed):
        return lazy_map_table(self, tier, seed)

    def replay(self, w):
        for r in native_history("quick", 0, BoomStop):
            if r.status == "refuted":
                return (True, f"{w.get('site')}: {r.detail}")
        return (False, f"{w.get('site')}: no fault sequence with a StopIteration subclass fails")

    def finding_key(self, res):
        w = res.witness or {}
        return f"{w.get('site')}:{'|'.join(w.get('mapped', []))}"


class NativeMatrix(Task):
    """Bounded stand-in / cross-check of the mechanism on the real code (never counted as proved)."""
    kind = "bounded"
    prop = "C38"
    name = "C38.native"
    bound_text = ("fault injection on the real functions: every function under contract x every reachable data site x 11 exception "
                  "classes (private Exception / BaseException subclasses, RuntimeError, ValueError, KeyError, AttributeError, TypeError, "
                  "StopIteration, IndexError, OverflowError, ZeroDivisionError); entry points in sync and async mode followed by clean re-renders of the same "
                  "and another template")

    def run(self, tier, seed):
        return native_matrix(tier, seed)

    def replay(self, w):
        return native_replay(w)

    def finding_key(self, res):
        w = res.witness or {}
        return f"{w.get('function')}:" + ",".join(w.get("failing", []))


MEMBERS = [
    EntryPoint("render", False), EntryPoint("render", True, "Template.render[async]"), EntryPoint("render_async", True),
    EntryPoint("generate", False), EntryPoint("generate", True, "Template.generate[async]"), EntryPoint("generate_async", True),
    DefaultModule(False), DefaultModule(True), MakeModule(False), MakeModule(True), LoadTemplate("_load_template"), LoadTemplate("get_template"),
    HandleException(), RewriteTraceback(),
    BufferedGenerator(), StreamNext(), StreamDump(False), StreamDump(True), BlockCall(False), BlockCall(True),
    LoopCtx(R.LoopContext, "__next__"), LoopCtx(R.LoopContext, "_peek_next"), LoopCtx(R.LoopContext, "length"),
    LoopCtx(R.AsyncLoopContext, "__anext__", ("next",)), LoopCtx(R.AsyncLoopContext, "_peek_next"), LoopCtx(R.AsyncLoopContext, "length", ("len",)),
    LoopCtx(R.AsyncLoopContext, "_known_length", ("len",)), ExpressionCall(False), ExpressionCall(True),
    MacroCallFrame(), DoLast(), DoFirstAsync(), IterToAsync(),
    NativeEntry("render", False, "NativeTemplate.render"), NativeEntry("render", True, "NativeTemplate.render[async]"),
    NativeEntry("render_async", True, "NativeTemplate.render_async"),
    EnvGetattr(E.Environment), EnvGetitem(E.Environment), EnvGetattr(SB.SandboxedEnvironment), EnvGetitem(SB.SandboxedEnvironment),
    ContextCall(), TestSequence(), TestIterable(), DoFirst(), MinOrMax(), DoReverse(), DoRandom(), DoInt(), DoFloat(), DoAttr(),
    SelectTemplate(),
    LoopAttrGroup(E.Environment), LoopAttrGroup(SB.SandboxedEnvironment),
    LoopAttrGroup(E.Environment, "getitem"), LoopAttrGroup(SB.SandboxedEnvironment, "getitem"),
    *[LookupSignals(c, m) for c in (E.Environment, SB.SandboxedEnvironment) for m in ("getattr", "getitem")],
    HandlerTable(), LazyMapTable(), NativeMatrix(), NativeHistory(),
]


class Bundle(Task):
    """Several contracts run in one worker process (the obligations and their names are those of the members; bundling only
    saves interpreter start-up per contract)."""
    kind = "vc"
    prop = "C38"

    def __init__(self, name, members):
        self.name = name
        self.members = members

    def run(self, tier, seed):
        out = []
        self.owner = {}
        for m in self.members:
            try:
                rs = m.run(tier, seed)
            except Exception as ex:  # a crash of one member must not hide the others
                import traceback
                rs = [Res(f"C38.{getattr(m, 'fn', m.name)}.crash", "error", "pyvc", 0.0, traceback.format_exc()[-800:], "vc")]
            for r in rs:
                self.owner[id(r)] = m
            out += rs
        return out

    def replay(self, w):
        return native_replay(w)

    def finding_key(self, res):
        m = getattr(self, "owner", {}).get(id(res))
        return m.finding_key(res) if m is not None else None


def _bundles(members, size):
    small = [m for m in members if isinstance(m, (FaultVC, LoopAttrGroup))]
    own = [m for m in members if m not in small]
    return [Bundle(f"C38.contracts#{i // size}", small[i:i + size]) for i in range(0, len(small), size)] + own


# FaultVC subclasses used by the handler table's "contract:" justifications are looked up in MEMBERS
TASKS = _bundles(MEMBERS, 9)

META = {
    "level": "proof",
    "explanation": "Proof of mechanism: each function on the data path is executed symbolically from its real source with every data "
                   "callee modelled as an abstract callee that may raise an abstract exception object of unknown class. For every path "
                   "the exception either enters only handlers whose classes are documented signals (catch), or leaves the function as "
                   "the same object (same_object; rewrite_traceback_stack returns exc_value.with_traceback(..) of the handled object), and "
                   "no attribute of a pre-existing object differs from its pre-state on exceptional exits (no_residue; Template module cache, "
                   "template cache, stream, loop and block objects included). Every `except` clause of src/jinja2 is scanned and must re-raise or be a "
                   "listed, justified catch (handlers). The statement for whole templates additionally "
                   "relies on the emission contracts (C01/C07/C20) routing every data access through these functions.",
    "assumptions": [
        "A3 exception hierarchy and try/except semantics", "A6 environment hooks (undefined, is_safe_attribute, wrap_str_format, join_path, "
        "new_context) respect their contracts and run no data code", "A7 await is a transparent call; an exception raised while the "
        "template generator is consumed is modelled at the call that produces / consumes it (same try block)",
        "the data value of do_reverse / do_int is not a str in the contract (the str branches call no data code)",
    ],
    "trusted_base": ["z3 / cvc5", "pyvc symbolic executor (try/except/finally semantics, abstract exception splitting)",
                     "dependency specs: BaseException.with_traceback returns self; contextlib.aclosing does not swallow exceptions; "
                     "asyncio.run transparent; builtin hasattr/getattr_static"],
}
