"""C38  Exceptions from data propagate unchanged and leave the engine usable.

Exceptional postconditions (proof of mechanism).  The functions on the data path are executed symbolically from their
real source; every data callee (callable, attribute / item access, iterator, string / number conversion, the compiled
template body, the loader) is an abstract callee that either returns an arbitrary value or raises an *abstract exception
object* d of unknown class (any BaseException).  Obligations, per function F:

  C38.catch.F        every `except` clause entered with a data exception d catches only classes inside the documented
                     signals of F (ALLOWED below), unless the handler re-raises d itself.  Widening a clause
                     (`except Exception` in Context.call / Environment.getattr, a bare except in `sequence`) fails here.
  C38.same_object.F  every data exception that is not absorbed by a documented clause leaves F as the SAME object
                     (identity through the engine's exception splitting; `rewrite_traceback_stack` returns
                     `exc_value.with_traceback(..)` of the handled object: BaseException.with_traceback returns self,
                     dependency spec), not wrapped, replaced or swallowed.
  C38.no_residue.F   on exceptional exits no object that existed before the call is written (state.written vs
                     state.allocated).

Documented signals (property statement, docs/templates.rst "Variables", docs/api.rst, the filters' docstrings):
attribute access -> AttributeError; subscription -> lookup / type / attribute errors; a callable raising StopIteration ->
undefined; the capability test `sequence` -> any exception reports false; `iterable` -> TypeError; `first` / `min` / `max`
-> StopIteration of an exhausted iterator; `random` -> IndexError of an empty sequence; `reverse` -> TypeError (not
reversible / not iterable); `int` / `float` -> conversion errors; `attr` -> AttributeError; `select_template` ->
TemplateNotFound (and UndefinedError of an undefined name in the list, documented in its docstring).
"""
from __future__ import annotations

import inspect
import itertools
import random
import sys
import typing

import z3

from pyvc.contract import VC, Res, Task
from pyvc.values import BoundMethod, State, Sym, Ref, HObj, HList, HIter, SSeq, Exc, Event, Unsupported, sym, fresh, fresh_name, fresh_arr
from pyvc.interp import Raised
from pyvc.stmts import LoopSpec
from pyvc import abstract as A
from pyvc import models

import jinja2
import jinja2.environment as E
import jinja2.runtime as R
import jinja2.sandbox as SB
import jinja2.debug as D
import jinja2.filters as F
import jinja2.tests as T
from jinja2.exceptions import TemplateNotFound, UndefinedError, TemplateSyntaxError

LOOKUP = (AttributeError, TypeError, LookupError)
CONVERSION = (TypeError, ValueError, OverflowError)

# function -> site -> classes that may be absorbed (documented signals); "*" = every site of the function
ALLOWED = {
    "Template.render": {"*": ()}, "Template.render[async]": {"*": ()}, "Template.render_async": {"*": ()},
    "Template.generate": {"*": ()}, "Template.generate[async]": {"*": ()}, "Template.generate_async": {"*": ()},
    "Template._get_default_module": {"*": ()},
    "Environment.handle_exception": {"*": ()}, "rewrite_traceback_stack": {"*": ()},
    "Environment.getattr": {"getattr": (AttributeError,), "getitem": LOOKUP},
    "Environment.getitem": {"getattr": (AttributeError,), "getitem": LOOKUP, "str": ()},
    "SandboxedEnvironment.getattr": {"getattr": (AttributeError,), "getitem": LOOKUP},
    "SandboxedEnvironment.getitem": {"getattr": (AttributeError,), "getitem": LOOKUP, "str": ()},
    "Context.call": {"call": (StopIteration,), "getattr": ()},
    "test_sequence": {"*": (Exception,)},
    "test_iterable": {"*": (TypeError,)},
    "sync_do_first": {"*": (StopIteration,)},
    "_min_or_max": {"iter": (), "next": (StopIteration,), "call": ()},
    "do_reverse": {"*": (TypeError,)},
    "do_random": {"*": (IndexError,)},
    "do_int": {"*": CONVERSION},
    "do_float": {"*": CONVERSION},
    "do_attr": {"*": (AttributeError,)},
    "Environment.select_template": {"*": (TemplateNotFound, UndefinedError)},
}


def allowed_for(fn, site):
    a = ALLOWED[fn]
    return a.get(site, a.get("*", ()))


def within(classes, allowed):
    cl = classes if isinstance(classes, tuple) else (classes,)
    return all(any(issubclass(c, a) for a in allowed) for c in cl)


# --------------------------------------------------------------------------------------------
# abstract data callees
# --------------------------------------------------------------------------------------------

def data_raise(st, site, node):
    s = st.fork()
    e = Exc(None, (), tag=f"{site}#{len(s.trace)}", within=BaseException, origin=getattr(node, "lineno", None))
    e.data, e.site = True, site
    s.trace.append(Event("call", "data:" + site, [], {}, e, lineno=getattr(node, "lineno", None)))
    return (s, Raised(e))


def data_callee(site, returns="obj", result=None):
    """Handler of a data callee: raises an abstract exception object, or returns an arbitrary value."""

    def h(I, st, args, kwargs, node):
        out = [data_raise(st, site, node)]
        v = result(st, args) if result is not None else (None if returns is None else fresh(site, returns))
        st.trace.append(Event("call", "data:" + site, list(args), dict(kwargs), v, lineno=getattr(node, "lineno", None)))
        out.append((st, v))
        return out

    return h


def root(e):
    return getattr(e, "src", e)


def data_exceptions(out):
    return [ev.result for ev in out.st.trace if ev.kind == "call" and isinstance(ev.result, Exc) and getattr(ev.result, "data", False)]


class FaultVC(VC):
    """Base: the three exceptional postconditions."""
    prop = "C38"
    fn = ""  # key into ALLOWED
    timeout_quick = 10000

    def __init__(self, fn=None, target=None):
        if fn:
            self.fn = fn
        if target:
            self.target = target
        VC.__init__(self, "C38", "C38." + self.fn)

    def run(self, tier, seed):
        rs = VC.run(self, tier, seed)
        pre = "C38." + self.fn + "."
        for r in rs:
            if r.name.startswith(pre):
                clause, _, path = r.name[len(pre):].partition("#")
                if ".inv_" in clause:  # loop invariant "only documented signals were absorbed so far": part of the catch obligation
                    r.name = f"C38.catch.{self.fn}.{clause}"
                    if r.status == "refuted" and r.witness is None:
                        r.witness = self.concretize(None, None, None)
                else:
                    r.name = f"C38.{clause}.{self.fn}" + (("#" + path) if path else "")
        return rs

    def absorbed_only_documented(self, st):
        """loop invariant: every handler entered so far with a data exception catches documented classes only"""
        for (src, classes, ln) in st.ghost.get("caught", ()):
            if getattr(src, "data", False) and not within(classes, allowed_for(self.fn, src.site)):
                self.offender = (src.site, classes, ln)
                return z3.BoolVal(False)
        return z3.BoolVal(True)

    # ---- common engine configuration ---------------------------------------------------------
    def configure(self, I):
        I.specs["Environment.undefined"] = A.abstract_fn("Environment.undefined", returns="obj", tags=("undefined",))
        I.specs["SandboxedEnvironment.undefined"] = I.specs["Environment.undefined"]
        exception_values(I)
        self.configure_more(I)

    def configure_more(self, I):
        pass

    # ---- postconditions -----------------------------------------------------------------------
    def propagated(self, out, d):
        return out.raised and root(out.value) is d

    def absorbed_ok(self, out, d):
        """d entered at least one handler, and every handler it entered catches documented classes only"""
        recs = [(c, ln) for (src, c, ln) in out.st.ghost.get("caught", ()) if src is d]
        return bool(recs) and all(within(c, allowed_for(self.fn, d.site)) for c, ln in recs)

    def p_catch(self, pre, out):
        for (src, classes, ln) in out.st.ghost.get("caught", ()):
            if not getattr(src, "data", False):
                continue
            if within(classes, allowed_for(self.fn, src.site)):
                continue
            if not self.propagated(out, src):
                self.offender = (src.site, classes, ln)
                return False
        return True

    def p_same_object(self, pre, out):
        for d in data_exceptions(out):
            if self.absorbed_ok(out, d):
                continue
            if not self.propagated(out, d):
                recs = [c for (src, c, ln) in out.st.ghost.get("caught", ()) if src is d]
                self.offender = (d.site, recs[-1] if recs else None, d.origin)
                return False
        return True

    def p_no_residue(self, pre, out):
        if not out.raised:
            return None
        ok = all(i in out.st.allocated for (i, _f) in out.st.written)
        if not ok:
            self.offender = (getattr(root(out.value), "site", None), None, out.value.origin)
        return ok

    posts = [("catch", p_catch), ("same_object", p_same_object), ("no_residue", p_no_residue)]

    # ---- witness ---------------------------------------------------------------------------------
    def concretize(self, model, pre, out):
        site, classes, ln = getattr(self, "offender", (None, None, None))
        return {"function": self.fn, "site": site, "exc": probe_for(classes, allowed_for(self.fn, site) if site else ()), "line": ln}

    def replay(self, w):
        return native_replay(w)

    def finding_key(self, res):
        w = res.witness or {}
        return f"{w.get('function')}:{w.get('site')}:{w.get('exc')}"


def exception_values(I):
    """str() / repr() / type() / .with_traceback() of exception values (needed to execute handlers that wrap or copy)."""

    def text_of(builtin, model):
        def h(I_, st, args, kwargs, node):
            if len(args) == 1 and isinstance(args[0], Exc):
                return [(st, fresh("exc_text", "str"))]
            return model(I_, st, args, kwargs, node)
        return h

    I.specs[("fn", id(str))] = text_of(str, models.builtin_str)
    I.specs[("fn", id(repr))] = text_of(repr, models.builtin_repr)

    def type_spec(I_, st, args, kwargs, node):
        if len(args) == 1 and isinstance(args[0], Exc):
            return [(st, args[0].cls or args[0].within)]  # unknown class: its upper bound stands for it (instantiation gives a NEW object)
        r = models.instantiate(I_, st, type, args, kwargs, node)
        if r is None:
            raise Unsupported("type() form", node)
        return r

    I.specs[("fn", id(type))] = type_spec
    keep = []

    def attr_hook(I_, st, obj, name, node):
        if isinstance(obj, Exc) and name == "with_traceback":
            def with_traceback():  # BaseException.with_traceback returns the exception itself
                pass
            keep.append(with_traceback)
            I_.specs[("fn", id(with_traceback))] = lambda I2, st2, args, kwargs, node2: [(st2, obj)]
            return [(st, with_traceback)]
        return None

    I.attr_hook = attr_hook
    I._c38_keep = keep


def probe_for(classes, allowed):
    """name of a concrete exception class that the offending clause catches although it is no documented signal"""
    if classes is None:
        return "Boom"
    cl = classes if isinstance(classes, tuple) else (classes,)
    for c in cl:
        if not any(issubclass(c, a) for a in allowed):
            if c is BaseException:
                return "BaseBoom"
            if c is Exception:
                return "Boom"
            return c.__name__
    return "Boom"


# --------------------------------------------------------------------------------------------
# lookups: Environment / SandboxedEnvironment getattr, getitem
# --------------------------------------------------------------------------------------------

def env_obj(st, cls=E.Environment, **fields):
    return A.obj(st, cls, "environment", fields=fields)


class EnvGetattr(FaultVC):
    def __init__(self, cls):
        self.cls = cls
        FaultVC.__init__(self, f"{cls.__name__}.getattr", f"jinja2.{'sandbox' if cls is SB.SandboxedEnvironment else 'environment'}:{cls.__name__}.getattr")

    def configure_more(self, I):
        I.specs["getattr_dyn"] = data_callee("getattr")
        I.specs["getitem_obj"] = data_callee("getitem")
        sandbox_hooks(I)

    def setup(self, I, st):
        self.env = env_obj(st, self.cls)
        return [self.env, sym("obj", "obj"), sym("attribute", "str")], {}


class EnvGetitem(FaultVC):
    def __init__(self, cls):
        self.cls = cls
        FaultVC.__init__(self, f"{cls.__name__}.getitem", f"jinja2.{'sandbox' if cls is SB.SandboxedEnvironment else 'environment'}:{cls.__name__}.getitem")

    def configure_more(self, I):
        I.specs["getattr_dyn"] = data_callee("getattr")
        I.specs["getitem_obj"] = data_callee("getitem")
        I.specs["str_obj"] = data_callee("str", returns="str")  # str(argument) of a str subclass runs data code
        sandbox_hooks(I)

    def setup(self, I, st):
        self.env = env_obj(st, self.cls)
        return [self.env, sym("obj", "obj"), sym("argument", "obj")], {}


def sandbox_hooks(I):
    """environment hooks of the sandbox are called through their contracts (A6): they do not run data code"""
    I.specs["SandboxedEnvironment.wrap_str_format"] = A.abstract_fn("wrap_str_format", returns="obj")
    I.specs["SandboxedEnvironment.is_safe_attribute"] = A.abstract_fn("is_safe_attribute", returns="bool")
    I.specs["SandboxedEnvironment.unsafe_undefined"] = A.abstract_fn("unsafe_undefined", returns="obj", tags=("undefined",))


# --------------------------------------------------------------------------------------------
# Context.call
# --------------------------------------------------------------------------------------------

class ContextCall(FaultVC):
    fn = "Context.call"
    target = "jinja2.runtime:Context.call"

    def configure_more(self, I):
        I.specs["call_obj"] = data_callee("call")
        I.specs["getattr_obj"] = data_callee("getattr")
        I.specs["jinja2.utils:_PassArg.from_obj"] = A.abstract_fn("_PassArg.from_obj", returns="obj")
        I.specs["Context.derived"] = A.abstract_fn("Context.derived", returns="obj")

    def setup(self, I, st):
        self.env = env_obj(st)
        self.ctx = A.obj(st, R.Context, "context", fields={"environment": self.env, "eval_ctx": sym("eval_ctx", "obj")})
        return [self.ctx, sym("callable", "obj"), sym("a0", "obj")], {"k": sym("kw", "obj")}


# --------------------------------------------------------------------------------------------
# capability tests and filters
# --------------------------------------------------------------------------------------------

def not_a_str(I):
    """precondition of the contracts below: the data value is not a str (the str branches call no data code)"""
    def isinstance_obj(I_, st, args, kwargs, node):
        v, cl = args
        if cl == (str,):
            return [(st, False)]
        return None
    I.specs["isinstance_obj"] = isinstance_obj


class TestSequence(FaultVC):
    fn = "test_sequence"
    target = "jinja2.tests:test_sequence"

    def configure_more(self, I):
        I.specs["len_obj"] = data_callee("len", returns="int")
        I.specs["getattr_obj"] = data_callee("getattr")

    def setup(self, I, st):
        return [sym("value", "obj")], {}


class TestIterable(FaultVC):
    fn = "test_iterable"
    target = "jinja2.tests:test_iterable"

    def configure_more(self, I):
        I.specs["iter_obj"] = data_callee("iter")

    def setup(self, I, st):
        return [sym("value", "obj")], {}


class DoFirst(FaultVC):
    fn = "sync_do_first"
    target = "jinja2.filters:sync_do_first"

    def configure_more(self, I):
        I.specs["iter_obj"] = data_callee("iter")
        I.specs["next_obj"] = data_callee("next")

    def setup(self, I, st):
        return [env_obj(st), sym("seq", "obj")], {}


class MinOrMax(FaultVC):
    fn = "_min_or_max"
    target = "jinja2.filters:_min_or_max"

    def configure_more(self, I):
        I.specs["iter_obj"] = data_callee("iter")
        I.specs["next_obj"] = data_callee("next")
        I.specs["call_obj"] = data_callee("call")  # min / max consume the data iterator and call the key function
        I.specs["jinja2.filters:make_attrgetter"] = A.abstract_fn("make_attrgetter", returns="obj")
        I.specs[("fn", id(itertools.chain))] = A.abstract_fn("itertools.chain", returns="obj")

    def setup(self, I, st):
        return [env_obj(st), sym("value", "obj"), sym("func", "obj"), sym("case_sensitive", "bool"), sym("attribute", "obj")], {}


class DoReverse(FaultVC):
    fn = "do_reverse"
    target = "jinja2.filters:do_reverse"

    def configure_more(self, I):
        not_a_str(I)
        I.specs[("fn", id(reversed))] = data_callee("reversed")

        def list_spec(I_, st, args, kwargs, node):
            if len(args) == 1 and isinstance(args[0], Sym) and args[0].k == "obj":
                return data_callee("iter", result=lambda s, a: s.alloc(HList(arr=fresh_arr("lst", "obj"), n=z3.Int(fresh_name("lst_n")), k="obj")))(I_, st, args, kwargs, node)
            return models.instantiate(I_, st, list, args, kwargs, node)

        I.specs[("fn", id(list))] = list_spec

    def setup(self, I, st):
        return [sym("value", "obj")], {}


class DoRandom(FaultVC):
    fn = "do_random"
    target = "jinja2.filters:do_random"

    def configure_more(self, I):
        I.specs[("fn", id(random.Random.choice))] = data_callee("getitem")

    def setup(self, I, st):
        ctx = A.obj(st, R.Context, "context", fields={"environment": env_obj(st)})
        return [ctx, sym("seq", "obj")], {}


class DoInt(FaultVC):
    fn = "do_int"
    target = "jinja2.filters:do_int"

    def configure_more(self, I):
        I.specs[("fn", id(int))] = data_callee("int", returns="int")
        I.specs[("fn", id(float))] = data_callee("float")

    def setup(self, I, st):
        return [sym("value", "obj"), sym("default", "int"), sym("base", "int")], {}


class DoFloat(FaultVC):
    fn = "do_float"
    target = "jinja2.filters:do_float"

    def configure_more(self, I):
        I.specs[("fn", id(float))] = data_callee("float")

    def setup(self, I, st):
        return [sym("value", "obj"), sym("default", "obj")], {}


class DoAttr(FaultVC):
    fn = "do_attr"
    target = "jinja2.filters:do_attr"

    def configure_more(self, I):
        # getattr_static does not execute data code: it finds the attribute or raises AttributeError
        I.specs[("fn", id(inspect.getattr_static))] = A.abstract_fn("getattr_static", returns="obj", raises=(AttributeError,))

        def hasattr_spec(I_, st, args, kwargs, node):
            s2 = st.fork()
            return [data_raise(st.fork(), "getattr", node), (s2, True), (st, False)]

        I.specs[("fn", id(hasattr))] = hasattr_spec
        I.specs["Environment.getattr"] = data_callee("getattr")  # own contract C38.*.Environment.getattr: may propagate a data exception

    def setup(self, I, st):
        return [env_obj(st), sym("obj", "obj"), sym("name", "str")], {}


class SelectTemplate(FaultVC):
    fn = "Environment.select_template"
    target = "jinja2.environment:Environment.select_template"

    def configure_more(self, I):
        I.specs["Environment._load_template"] = data_callee("load")
        I.specs["Environment.join_path"] = A.abstract_fn("join_path", returns="obj")
        I.loops[("Environment.select_template", 0)] = LoopSpec(lambda ctx: [self.absorbed_only_documented(ctx.st)], havoc={"name": "obj"}, name="names_loop")

    def setup(self, I, st):
        self.names = A.alist(st, "names", "obj")
        return [env_obj(st), self.names, sym("parent", "obj"), sym("globals", "obj")], {}


# --------------------------------------------------------------------------------------------
# entry points: Template.render / render_async / generate / generate_async, handle_exception, rewrite_traceback_stack
# --------------------------------------------------------------------------------------------

def handled_exception(I_, st, args, kwargs, node):
    """Contract of debug.rewrite_traceback_stack (C38.same_object.rewrite_traceback_stack): returns the exception that is
    being handled."""
    cur = st.ghost.get("handling")
    if not cur:
        raise Unsupported("rewrite_traceback_stack outside a handler", node)
    st.trace.append(Event("call", "rewrite_traceback_stack", [], dict(kwargs), cur[-1], lineno=getattr(node, "lineno", None)))
    return [(st, cur[-1])]


class EntryPoint(FaultVC):
    def __init__(self, method, is_async, label=None):
        self.method, self.is_async = method, is_async
        FaultVC.__init__(self, label or f"Template.{method}", f"jinja2.environment:Template.{method}")

    def configure_more(self, I):
        I.inline.add("jinja2.environment:Environment.handle_exception")
        for m in ("render", "render_async", "generate", "generate_async"):
            I.inline.add(f"jinja2.environment:Template.{m}")
        I.inline.add("jinja2.environment:Template.generate.<locals>.to_list")
        I.specs["jinja2.debug:rewrite_traceback_stack"] = handled_exception
        I.specs["Template.new_context"] = A.abstract_fn("Template.new_context", returns="obj")
        # the compiled template body and the consumption of its output run the data code
        I.specs["call_obj"] = data_callee("root_render_func", result=lambda s, a: (fresh("piece", "str"),))
        I.specs["Environment.concat"] = data_callee("concat", returns="str")
        import asyncio
        I.specs[("fn", id(asyncio.run))] = lambda I_, st, args, kwargs, node: [(st, args[0])]  # A7: transparent
        I.specs[("fn", id(E.aclosing))] = lambda I_, st, args, kwargs, node: [(st, ("aclosing", args[0]))]
        # contextlib.aclosing: enters with the generator, never swallows an exception (dependency spec)
        I.specs["cm_enter"] = lambda I_, st, cm, node: [(st, cm[1])] if isinstance(cm, tuple) and cm[0] == "aclosing" else None
        I.specs["cm_exit"] = lambda I_, st, cm, ctl, node: [(st, ctl)] if isinstance(cm, tuple) and cm[0] == "aclosing" else None

    def setup(self, I, st):
        self.env = env_obj(st, is_async=self.is_async)
        self.tmpl = A.obj(st, E.Template, "template", fields={"environment": self.env, "root_render_func": sym("root_render_func", "obj")})
        return [self.tmpl], {"v": sym("v", "obj")}


class DefaultModule(FaultVC):
    """`_module` is assigned only after make_module returned."""
    fn = "Template._get_default_module"
    target = "jinja2.environment:Template._get_default_module"

    def configure_more(self, I):
        I.specs["Template.make_module"] = data_callee("make_module")

    def setup(self, I, st):
        self.tmpl = A.obj(st, E.Template, "template", fields={"environment": env_obj(st, is_async=False), "_module": None})
        return [self.tmpl], {}


class HandleException(FaultVC):
    """Environment.handle_exception raises exactly the object returned by rewrite_traceback_stack."""
    fn = "Environment.handle_exception"
    target = "jinja2.environment:Environment.handle_exception"

    def configure_more(self, I):
        def rts(I_, st, args, kwargs, node):
            st.trace.append(Event("call", "rewrite_traceback_stack", [], dict(kwargs), self.rewritten, lineno=getattr(node, "lineno", None)))
            return [(st, self.rewritten)]
        I.specs["jinja2.debug:rewrite_traceback_stack"] = rts

    def setup(self, I, st):
        self.rewritten = Exc(Boom, ("probe",), tag="rewritten")
        self.rewritten.data, self.rewritten.site = True, "handled"
        self.source = sym("source", "obj")
        return [env_obj(st), self.source], {}

    def p_same_object(self, pre, out):
        ev = A.calls(out, "rewrite_traceback_stack")
        if not (out.raised and out.value is self.rewritten and len(ev) == 1 and ev[0].kwargs.get("source") is self.source):
            self.offender = ("handled", None, None)
            return False
        return True

    def p_catch(self, pre, out):
        return not out.st.ghost.get("caught")

    posts = [("catch", p_catch), ("same_object", p_same_object), ("no_residue", FaultVC.p_no_residue)]


class RewriteTraceback(FaultVC):
    """debug.rewrite_traceback_stack returns exc_value.with_traceback(..) of the object found in sys.exc_info()."""
    fn = "rewrite_traceback_stack"
    target = "jinja2.debug:rewrite_traceback_stack"
    timeout_quick = 20000

    def configure_more(self, I):
        c = self

        def exc_info(I_, st, args, kwargs, node):
            return [(st, (sym("exc_type", "obj"), c.exc_value, c.tb))]

        I.specs[("fn", id(sys.exc_info))] = exc_info
        I.specs[("fn", id(typing.cast))] = lambda I_, st, args, kwargs, node: [(st, args[1])]
        I.specs["jinja2.debug:fake_traceback"] = A.abstract_fn("fake_traceback", returns="obj")

        def getattr_obj(I_, st, args, kwargs, node):
            o, name = args
            if name in ("with_traceback", "get", "get_corresponding_lineno"):
                return [(st, BoundMethod(o, name))]
            return [(st, fresh(name, "obj"))]  # fields of exception / traceback / frame objects

        I.specs["getattr_obj"] = getattr_obj

        def setattr_obj(I_, st, args, kwargs, node):
            st.trace.append(Event("write", "setattr", list(args), lineno=getattr(node, "lineno", None)))
            return [(st, None)]

        I.specs["setattr_obj"] = setattr_obj

        def method_obj(I_, st, args, kwargs, node):
            recv, name = args[0], args[1]
            st.trace.append(Event("call", "method:" + name, list(args), dict(kwargs), None, lineno=getattr(node, "lineno", None)))
            if name == "with_traceback":
                return [(st, recv)]  # BaseException.with_traceback(tb) sets __traceback__ and returns the exception object itself
            return [(st, fresh(name, "obj"))]

        I.specs["method_obj"] = method_obj

        I.specs[("fn", id(reversed))] = self.reversed_spec

        def heap(st, local):
            h = st.get(local["stack"])
            h.items, h.arr, h.n, h.k = None, fresh_arr("stack", "obj"), z3.Int(fresh_name("stack_n")), "obj"
            st.assume(h.n >= 0)

        I.loops[("rewrite_traceback_stack", 0)] = LoopSpec(lambda ctx: [], havoc={"tb": "obj", "template": "obj", "lineno": "obj", "fake_tb": "obj"}, heap=heap, name="tb_walk")
        I.loops[("rewrite_traceback_stack", 1)] = LoopSpec(lambda ctx: [], havoc={"tb_next": "obj"}, name="relink")

    @staticmethod
    def reversed_spec(I_, st, args, kwargs, node):
        a = args[0]
        if isinstance(a, Ref) and isinstance(st.get(a), HList) and not st.get(a).concrete:
            h = st.get(a)
            a = SSeq(h.arr, h.n, h.k)
        return models.builtin_reversed(I_, st, [a], kwargs, node)

    def setup(self, I, st):
        self.exc_value = sym("exc_value", "obj")
        self.tb = sym("tb", "obj")
        return [], {"source": sym("source", "obj")}

    def p_same_object(self, pre, out):
        ok = out.returned and out.value is self.exc_value
        if not ok:
            self.offender = ("handled", None, None)
        return ok

    def p_catch(self, pre, out):
        return not out.st.ghost.get("caught")

    posts = [("catch", p_catch), ("same_object", p_same_object)]


# --------------------------------------------------------------------------------------------
# native replay: the real functions on data objects that raise a probe exception at one site
# --------------------------------------------------------------------------------------------

class Boom(Exception):
    """private exception class of the data"""


class BaseBoom(BaseException):
    pass


PROBES = {c.__name__: c for c in (Boom, BaseBoom, AttributeError, TypeError, KeyError, IndexError, LookupError, ValueError, OverflowError,
                                  StopIteration, RuntimeError, ZeroDivisionError, TemplateNotFound, UndefinedError, Exception)}


class Faulty:
    """data object whose operations raise `exc` at one site and behave benignly elsewhere"""

    def __init__(self, site, exc):
        object.__setattr__(self, "_f", [site, exc, False])

    def _maybe(self, *sites):
        f = object.__getattribute__(self, "_f")
        if f[0] in sites:
            f[2] = True
            raise f[1]

    def __getattr__(self, name):
        self._maybe("getattr")
        if name.startswith("__"):
            raise AttributeError(name)
        return "attr"

    def __getitem__(self, k):
        self._maybe("getitem")
        return "item"

    def __call__(self, *a, **k):
        self._maybe("call", "root_render_func", "concat", "make_module")
        return "called"

    def __len__(self):
        self._maybe("len")
        return 2

    def __iter__(self):
        self._maybe("iter")
        return self

    def __next__(self):
        self._maybe("next")
        raise StopIteration

    def __reversed__(self):
        self._maybe("reversed")
        return iter(())

    def __int__(self):
        self._maybe("int")
        return 1

    def __float__(self):
        self._maybe("float")
        return 1.0


class LenOnly:
    """has a length but no __getitem__ on the class: `value.__getitem__` runs the data's __getattr__"""

    def __init__(self, d):
        self.d = d

    def __len__(self):
        self.d._maybe("len")
        return 2

    def __getattr__(self, name):
        self.d._maybe("getattr")
        raise AttributeError(name)


class FaultyKey(str):
    """a str subclass used as subscript whose __str__ runs data code"""
    _f = None

    def __str__(self):
        self._f[2] = True
        raise self._f[1]


def fired(d):
    return object.__getattribute__(d, "_f")[2] if isinstance(d, Faulty) else d._f[2]


AFTER = {}


def native_call(fn, site, exc):
    """-> (callable running the real function, faulty data object)"""
    import asyncio
    d = Faulty(site, exc)
    env = jinja2.Environment()
    if fn.startswith("Template."):
        mode = {"Template.render": "render", "Template.render[async]": "render", "Template.render_async": "render_async",
                "Template.generate": "generate", "Template.generate[async]": "generate", "Template.generate_async": "generate_async",
                "Template._get_default_module": "module"}[fn]
        aenv = jinja2.Environment(enable_async=("async" in fn))
        if mode == "module":
            t = aenv.from_string("{% set x = d() %}")
            t.globals["d"] = d
            AFTER[id(d)] = lambda got: None if (got[0] == "return" or t._module is None) else f"_module was assigned ({t._module!r}) although make_module raised"
            return (lambda: t._get_default_module()), d
        t = aenv.from_string("a{{ d() }}b")

        def after(got):
            import asyncio as aio
            other = aenv.from_string("{{ 1 + 1 }}|{{ d() }}")
            if aenv.is_async:
                r1, r2 = aio.run(t.render_async(d=lambda: "x")), aio.run(other.render_async(d=lambda: "y"))
            else:
                r1, r2 = t.render(d=lambda: "x"), other.render(d=lambda: "y")
            return None if (r1, r2) == ("axb", "2|y") else f"re-render after the fault gave {(r1, r2)!r}"

        AFTER[id(d)] = after
        if mode == "render":
            return (lambda: t.render(d=d)), d
        if mode == "generate":
            return (lambda: list(t.generate(d=d))), d
        if mode == "render_async":
            return (lambda: asyncio.run(t.render_async(d=d))), d

        async def agen():
            return [x async for x in t.generate_async(d=d)]

        return (lambda: asyncio.run(agen())), d
    if fn == "Environment.handle_exception" or fn == "rewrite_traceback_stack":
        def run():
            try:
                d()
            except BaseException:
                if fn == "rewrite_traceback_stack":
                    r = D.rewrite_traceback_stack()
                    if r is not exc:
                        raise RuntimeError("rewrite_traceback_stack returned another object")
                    raise r
                env.handle_exception()
        object.__getattribute__(d, "_f")[0] = "call"
        return run, d
    if fn.endswith(".getattr") or fn.endswith(".getitem"):
        e = SB.SandboxedEnvironment() if fn.startswith("Sandboxed") else env
        if site == "str":
            k = FaultyKey("missing")
            k._f = [site, exc, False]
            return (lambda: e.getitem({}, k)), k
        if fn.endswith(".getattr"):
            if site == "getitem":
                class OnlyItems:
                    def __getitem__(self, key):
                        d._maybe("getitem")
                        return 1
                return (lambda: e.getattr(OnlyItems(), "x")), d
            return (lambda: e.getattr(d, "x")), d
        if site == "getattr":
            class OnlyAttrs:
                def __getattr__(self, name):
                    d._maybe("getattr")
                    return 1
            return (lambda: e.getitem(OnlyAttrs(), "x")), d
        return (lambda: e.getitem(d, "x")), d
    if fn == "Context.call":
        ctx = env.from_string("").new_context()
        return (lambda: ctx.call(d, 1, k=2)), d
    if fn == "test_sequence":
        return (lambda: T.test_sequence(LenOnly(d))), d
    if fn == "test_iterable":
        return (lambda: T.test_iterable(d)), d
    if fn == "sync_do_first":
        return (lambda: F.sync_do_first(env, d)), d
    if fn == "_min_or_max":
        return (lambda: F._min_or_max(env, d, (lambda it, key: d()) if site == "call" else min, True, None)), d
    if fn == "do_reverse":
        class NoReversed:
            def __iter__(self):
                d._maybe("iter")
                return iter(())
        return (lambda: F.do_reverse(d if site == "reversed" else NoReversed())), d
    if fn == "do_random":
        ctx = env.from_string("").new_context()
        return (lambda: F.do_random(ctx, d)), d
    if fn == "do_int":
        return (lambda: F.do_int(d)), d
    if fn == "do_float":
        return (lambda: F.do_float(d)), d
    if fn == "do_attr":
        if site.endswith(":property"):
            class WithProperty:  # found by getattr_static, executed by environment.getattr
                x = property(lambda self: d._maybe(site))
            return (lambda: F.do_attr(env, WithProperty(), "x")), d
        return (lambda: F.do_attr(env, d, "x")), d
    if fn == "Environment.select_template":
        class L(jinja2.BaseLoader):
            def get_source(self, environment, template):
                d._maybe("load")
                raise TemplateNotFound(template)
        e = jinja2.Environment(loader=L())
        return (lambda: e.select_template(["a", "b"])), d
    raise KeyError(fn)


def probe_class(name):
    import builtins
    c = PROBES.get(name) or getattr(builtins, name, None)
    return c if isinstance(c, type) and issubclass(c, BaseException) else Boom


def native_replay(w):
    """Replay a witness on the real code: violated iff a data exception that is no documented signal does not come out
    as the same object (or the engine state is changed / unusable afterwards)."""
    fn, site, name = w["function"], w.get("site"), w.get("exc") or "Boom"
    sites = [site] if site not in (None, "handled") else ["call"]
    if fn == "do_attr" and site == "getattr":
        sites = ["getattr", "getattr:property"]
    last = (False, f"{fn}: nothing to run")
    for s_ in sites:
        last = native_replay_site(fn, s_, name)
        if last[0]:
            return last
    return last


def native_replay_site(fn, site, name):
    cls = probe_class(name)
    exc = cls("probe")
    run, d = native_call(fn, site, exc)
    try:
        got = ("return", run())
    except BaseException as x:  # noqa: B902
        got = ("raise", x)
    after = AFTER.pop(id(d), None)
    if not fired(d):
        return (False, f"{fn}: the fault at site {site!r} was not reached natively")
    allowed = allowed_for(fn, site.split(":")[0])
    if fn.startswith("Template."):
        allowed = allowed + (StopIteration,)  # inside a template the call goes through Context.call (its documented signal)
    documented = any(issubclass(cls, a) for a in allowed)
    same = got[0] == "raise" and got[1] is exc
    violated = not documented and not same
    if after is not None:
        msg = after(got)
        if msg:
            return (True, f"{fn}: {msg}")
    return (violated, f"{fn}: data raises {cls.__name__} at {site!r}: {'returns ' + repr(got[1])[:80] if got[0] == 'return' else 'raises ' + repr(got[1])[:80]}"
                      f"{' (the same object)' if same else ''}; documented signal: {documented}")


def native_matrix(tier, seed):
    """Every function x reachable site x probe class on the real code: documented signals may be absorbed, everything else
    must come out as the same object; afterwards the same environment still renders (engine usable)."""
    res = []
    import time
    for fn, sites in NATIVE_SITES.items():
        t0 = time.time()
        bad = []
        n = 0
        for site in sites:
            for pname in ("Boom", "BaseBoom", "RuntimeError", "ValueError", "KeyError", "AttributeError", "TypeError", "StopIteration", "IndexError", "OverflowError", "ZeroDivisionError"):
                n += 1
                v, d = native_replay_site(fn, site, pname)
                if v:
                    bad.append(({"function": fn, "site": site, "exc": pname}, d))
        nm = f"C38.native.{fn}"
        if bad:
            wit = dict(bad[0][0], failing=sorted({f"{b[0]['site']}:{b[0]['exc']}" for b in bad}))
            res.append(Res(nm, "refuted", "native", time.time() - t0, f"{len(bad)}/{n}: {bad[0][1]}", "bounded", wit))
        else:
            res.append(Res(nm, "bounded-ok", "native", time.time() - t0, f"{n} fault injections agree", "bounded"))
    return res


NATIVE_SITES = {
    "Template.render": ["call"], "Template.render[async]": ["call"], "Template.render_async": ["call"],
    "Template.generate": ["call"], "Template.generate[async]": ["call"], "Template.generate_async": ["call"],
    "Template._get_default_module": ["call"],
    "Environment.handle_exception": ["call"], "rewrite_traceback_stack": ["call"],
    "Environment.getattr": ["getattr", "getitem"], "Environment.getitem": ["getitem", "getattr", "str"],
    "SandboxedEnvironment.getattr": ["getattr", "getitem"], "SandboxedEnvironment.getitem": ["getitem", "getattr", "str"],
    "Context.call": ["call"], "test_sequence": ["len", "getattr"], "test_iterable": ["iter"],
    "sync_do_first": ["iter", "next"], "_min_or_max": ["iter", "next", "call"], "do_reverse": ["reversed", "iter"],
    "do_random": ["len", "getitem"], "do_int": ["int", "float"], "do_float": ["float"], "do_attr": ["getattr", "getattr:property"],
    "Environment.select_template": ["load"],
}


class NativeMatrix(Task):
    """Bounded stand-in / cross-check of the mechanism on the real code (never counted as proved)."""
    kind = "bounded"
    prop = "C38"
    name = "C38.native"
    bound_text = ("fault injection on the real functions: every function under contract x every reachable data site x 11 exception "
                  "classes (private Exception / BaseException subclasses, RuntimeError, ValueError, KeyError, AttributeError, TypeError, "
                  "StopIteration, IndexError, OverflowError, ZeroDivisionError); entry points in sync and async mode followed by clean re-renders of the same "
                  "and another template")

    def run(self, tier, seed):
        return native_matrix(tier, seed)

    def replay(self, w):
        return native_replay(w)

    def finding_key(self, res):
        w = res.witness or {}
        return f"{w.get('function')}:" + ",".join(w.get("failing", []))


TASKS = [
    EntryPoint("render", False), EntryPoint("render", True, "Template.render[async]"), EntryPoint("render_async", True),
    EntryPoint("generate", False), EntryPoint("generate", True, "Template.generate[async]"), EntryPoint("generate_async", True),
    DefaultModule(), HandleException(), RewriteTraceback(),
    EnvGetattr(E.Environment), EnvGetitem(E.Environment), EnvGetattr(SB.SandboxedEnvironment), EnvGetitem(SB.SandboxedEnvironment),
    ContextCall(), TestSequence(), TestIterable(), DoFirst(), MinOrMax(), DoReverse(), DoRandom(), DoInt(), DoFloat(), DoAttr(),
    SelectTemplate(), NativeMatrix(),
]

META = {
    "level": "proof",
    "explanation": "Proof of mechanism: each function on the data path is executed symbolically from its real source with every data "
                   "callee modelled as an abstract callee that may raise an abstract exception object of unknown class. For every path "
                   "the exception either enters only handlers whose classes are documented signals (catch), or leaves the function as "
                   "the same object (same_object; rewrite_traceback_stack returns exc_value.with_traceback(..) of the handled object), and "
                   "no pre-existing object is written on exceptional exits (no_residue). The statement for whole templates additionally "
                   "relies on the emission contracts (C01/C07/C20) routing every data access through these functions.",
    "assumptions": [
        "A3 exception hierarchy and try/except semantics", "A6 environment hooks (undefined, is_safe_attribute, wrap_str_format, join_path, "
        "new_context) respect their contracts and run no data code", "A7 await is a transparent call; an exception raised while the "
        "template generator is consumed is modelled at the call that produces / consumes it (same try block)",
        "the data value of do_reverse / do_int is not a str in the contract (the str branches call no data code)",
    ],
    "trusted_base": ["z3 / cvc5", "pyvc symbolic executor (try/except/finally semantics, abstract exception splitting)",
                     "dependency specs: BaseException.with_traceback returns self; contextlib.aclosing does not swallow exceptions; "
                     "asyncio.run transparent; builtin hasattr/getattr_static"],
}
